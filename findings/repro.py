#!/venv/bin/python
"""Reproductions of the genuine defects D1..D24 against the real code in /repo.

usage: findings/repro.py [D1 D2 ...]     exit 1 if any selected defect is present.
Each function returns None when the behaviour is right, or a string describing the failing
input and what was observed.
"""
import io
import os
import struct
import sys
import tempfile
import types
import warnings

warnings.simplefilter('ignore')
sys.path.insert(0, os.environ.get('REPO', '/repo'))
sys.path.insert(0, os.path.dirname(os.path.dirname(os.path.abspath(__file__))))

from pynetdicom2 import (pdu, userdataitems as ud, dimsemessages as dm, dsutils, fsm,  # noqa
                         asceprovider as ap, applicationentity as aem, sopclass as sc,
                         statuses, exceptions)
import pynetdicom2
from harness import s2


def rq_pdu(maxlen=16384, sub=()):
    return pdu.AAssociateRqPDU('CALLED', 'CALLING', [
        pdu.ApplicationContextItem('1.2.840.10008.3.1.1.1'),
        pdu.PresentationContextItemRQ(1, pdu.AbstractSyntaxSubItem('1.2.840.10008.1.1'),
                                      [pdu.TransferSyntaxSubItem('1.2.840.10008.1.2')]),
        pdu.UserInformationItem([ud.MaximumLengthSubItem(maxlen)] + list(sub))])


def D1():
    items = [ud.MaximumLengthSubItem(16384),
             ud.SOPClassExtendedNegotiationSubItem('1.2.3', b'\x01\x02'),
             ud.ImplementationVersionNameSubItem('V1')]
    raw = rq_pdu(sub=items[1:]).encode()
    got = pdu.AAssociateRqPDU.decode(raw).variable_items[-1].user_data
    if len(got) != 3 or got[1].app_info != b'\x01\x02':
        return 'sub-items [MaxLen, ExtNeg(app_info=0102), ImplVersion] decode to %r' % (got,)


def _to_sta2():
    p, sock = s2.acceptor()
    p.step()
    assert p.state == 2
    return p, sock


def D2():
    out = []
    p, sock = _to_sta2()
    sock.feed(pdu.AReleaseRqPDU().encode())
    e = p.step() or p.step()
    if e or not sock.sent or sock.sent[-1][0] != 7:
        out.append('A-RELEASE-RQ in Sta2 answered with %r (exc %r), expected an A-ABORT PDU'
                   % ([b.hex() for b in sock.sent], e))
    p, sock = _to_sta2()
    sock.feed(b'\x09\x00\x00\x00\x00\x00')
    e = p.step() or p.step()
    if e or not sock.sent or sock.sent[-1][0] != 7:
        out.append('unrecognised PDU type 9 in Sta2: exc %r, sent %r, state Sta%d'
                   % (e, [b.hex() for b in sock.sent], p.state))
    return '; '.join(out) or None


def _to_sta13_by_reject():
    p, sock = _to_sta2()
    sock.feed(rq_pdu().encode())
    p.step()
    assert p.state == 3, p.state
    p.drain_user()
    p.send(pdu.AAssociateRjPDU(1, 1, 1))
    p.step()
    assert p.state == 13, p.state
    return p, sock


def D3():
    p, sock = _to_sta13_by_reject()
    del sock.sent[:]
    sock.feed(rq_pdu().encode())
    try:
        e = p.step() or p.step()
    except s2.WouldBlockForever as x:
        e = x
    if e or not sock.sent or sock.sent[-1][0] != 7:
        return ('A-ASSOCIATE-RQ in Sta13: exc %r, sent %r (expected A-ABORT)'
                % (e, [b[:1].hex() for b in sock.sent]))


def D4():
    p, sock = _to_sta13_by_reject()
    if not p.timer.running:
        return 'ARTIM not running in Sta13 after A-ASSOCIATE-RJ was sent'


def _established(role):
    if role == 'acc':
        p, sock = _to_sta2()
        sock.feed(rq_pdu().encode())
        p.step()
        p.drain_user()
        p.send(pdu.AAssociateAcPDU('CALLED', 'CALLING', rq_pdu().variable_items[:1]))
        p.step()
    else:
        p = s2.requester()
        r = rq_pdu()
        r.called_presentation_address = ('h', 1)
        p.send(r)
        p.step()
        sock = s2.LAST['sock']
        p.step()
        sock.feed(pdu.AAssociateAcPDU('CALLED', 'CALLING', rq_pdu().variable_items[:1]).encode())
        p.step()
        p.drain_user()
    assert p.state == 6, p.state
    del sock.sent[:]
    return p, sock


def D5():
    out = []
    for role, want in (('acc', 10), ('req', 9)):
        p, sock = _established(role)
        p.send(pdu.AReleaseRqPDU())
        p.step()
        assert p.state == 7
        sock.feed(pdu.AReleaseRqPDU().encode())
        e = p.step()
        if e or p.state != want:
            out.append('release collision (%s): exc %r state Sta%d, expected Sta%d' % (role, e, p.state, want))
    return '; '.join(out) or None


def D6():
    p, sock = _established('acc')
    sock.feed('EOF')
    p.step()
    ind = p.drain_user()
    if not ind or getattr(ind[-1], 'source', None) != 2:
        return ('transport closed in Sta6: indication %r has source %r, expected 2 (A-P-ABORT)'
                % (ind, getattr(ind[-1], 'source', None) if ind else None))


def D7():
    s2.install()
    sock = s2.FakeSocket()
    sock.feed(rq_pdu().encode() + pdu.AAbortPDU(0, 0).encode())   # both waiting at start
    p = s2.Stepped(sock)
    seen = []
    for _ in range(6):
        e = p.step()
        seen += p.drain_user()
        if e:
            return 'exception %r' % (e,)
    kinds = [getattr(x, 'pdu_type', None) for x in seen]
    if kinds[:1] != [1]:
        return 'RQ||A-ABORT waiting at start: user indications %r, expected the A-ASSOCIATE-RQ first' % (kinds,)


def D8():
    p, sock = _to_sta2()
    raw = rq_pdu().encode()[:40]
    raw = raw[:2] + struct.pack('>I', len(raw) - 6) + raw[6:]     # truncated, length fixed up
    sock.feed(raw)
    e = p.step()
    if e:
        return 'truncated A-ASSOCIATE-RQ (40 bytes, length fixed up) in Sta2: %r escapes run()' % (e,)


def D9():
    p, sock = _to_sta13_by_reject()
    try:
        e = p.step()
    except s2.WouldBlockForever as x:   # pragma: no cover
        e = x
    if isinstance(e, s2.WouldBlockForever):
        return 'Sta13 with a silent peer: blocking recv(1) (%s); ARTIM is never consulted' % (e,)


def D10():
    p, sock = _established('acc')
    bad = pdu.PDataTfPDU([pdu.PresentationDataValueItem(1, b'')]).encode()   # PDV without control header
    sock.feed(bad)
    e = p.step()
    if e:
        return 'P-DATA-TF with an empty PDV in Sta6: %r escapes run()' % (e,)


def D11():
    out = []
    m = dm.CEchoRQMessage(); m.message_id = 1; m.sop_class_uid = '1.2.840.10008.1.1'; m.set_length()
    n = len(list(m.encode(1, 0)))
    if n == 0:
        out.append('encode(pc, max_pdu_length=0) yields no P-DATA-TF at all')
    acc = ap.AssociationAcceptor.__new__(ap.AssociationAcceptor)
    acc.max_pdu_length = 16384
    acc.ae = types.SimpleNamespace(supported_scp={}, supported_ts=frozenset())
    acc.sop_classes_as_scp = {}; acc.accepted_contexts = {}
    acc.dul = types.SimpleNamespace(send=lambda x: None, accepted_contexts=None)
    acc.accept(rq_pdu(maxlen=0))
    if acc.max_pdu_length == 0:
        out.append('acceptor (local 16384) facing a peer that announces 0 adopts 0 as its own limit')
    return '; '.join(out) or None


def _group_length_ok(m):
    raw = dsutils.encode(m.command_set, True, True)
    tag = struct.unpack('<HH', raw[:4]); ln = struct.unpack('<I', raw[4:8])[0]
    val = struct.unpack('<I', raw[8:8 + ln])[0] if ln == 4 else None
    return tag == (0, 0) and val == len(raw) - 12, val, len(raw) - 12


def D12():
    m = dm.CEchoRQMessage(); m.message_id = 1; m.sop_class_uid = '1.2.840.10008.1.1'
    m.set_length(); a = _group_length_ok(m)
    m.set_length(); b = _group_length_ok(m)
    if not (a[0] and b[0]):
        return 'C-ECHO-RQ group length: first send %r, second send %r, bytes that follow %d' % (a[1], b[1], a[2])


def D13():
    m = dm.CFindRSPMessage(); m.message_id_being_responded_to = 1; m.sop_class_uid = '1.2'; m.status = 0xFF00
    m.data_set = b'\x08\x00\x05\x00\x02\x00\x00\x00AB'
    m.data_set = None
    m.set_length()
    pdus = list(m.encode(1, 16384))
    data_frags = [p for p in pdus if p.data_value_items[0].data_value[0] in (0, 2)]
    if m.command_set.CommandDataSetType != 0x0101 and not data_frags:
        return 'data set set then unset: CommandDataSetType=%#06x but no data fragments follow' % m.command_set.CommandDataSetType


class MockAsce(object):
    def __init__(self, ae):
        self.ae = ae; self.sent = []; self.remote_ae = 'REMOTE'
    def send(self, msg, pc_id):
        msg.set_length()
        self.sent.append((dsutils.decode(dsutils.encode(msg.command_set, True, True), True, True), pc_id, msg))


def D14():
    rq = dm.CEchoRQMessage(); rq.message_id = 7; rq.sop_class_uid = '1.2.840.10008.1.1'
    a = MockAsce(types.SimpleNamespace(on_receive_echo=lambda ctx: statuses.SUCCESS))
    sc.verification_scp(a, ap.PContextDef(3, '1.2.840.10008.1.1', None), rq)
    cs = a.sent[0][0]
    if cs.get((0, 2)) is None or cs[(0, 2)].value != '1.2.840.10008.1.1':
        return 'C-ECHO-RSP Affected SOP Class UID is %r, request had 1.2.840.10008.1.1' % (cs[(0, 2)].value if (0, 2) in cs else None,)


def D15():
    import pydicom
    out = []
    for fail in (False, True):
        rq = dm.NEventReportRQMessage(); rq.message_id = 9; rq.sop_class_uid = sc.STORAGE_COMMITMENT_SOP_CLASS
        rq.affected_sop_instance_uid = '1.2.840.10008.1.20.1.1'; rq.event_type_id = 1
        ds = pydicom.Dataset(); ds.TransactionUID = '1.2.3'
        rq.data_set = dsutils.encode(ds, True, True)
        def handler(t, s, f, fail=fail):
            if fail: raise exceptions.EventHandlingError('x')
        a = MockAsce(types.SimpleNamespace(on_commitment_response=handler))
        from pydicom import uid as _u
        sc.StorageCommitment.n_event_report(a, ap.PContextDef(5, sc.STORAGE_COMMITMENT_SOP_CLASS, _u.ImplicitVRLittleEndian), rq)
        if not a.sent:
            out.append('N-EVENT-REPORT-RQ with failing handler is not answered')
        elif a.sent[0][0][(0, 0x120)].value != 9:
            out.append('N-EVENT-REPORT-RSP Message ID Being Responded To is %r, request id 9' % (a.sent[0][0][(0, 0x120)].value,))
    return '; '.join(out) or None


def D16():
    import pydicom, contextlib
    from pydicom import uid as _u
    out = []
    for n in (0, 2):
        rq = dm.CMoveRQMessage(); rq.message_id = 4; rq.sop_class_uid = sc.PATIENT_ROOT_MOVE_SOP_CLASS
        rq.move_destination = 'DEST'; rq.data_set = dsutils.encode(pydicom.Dataset(), True, True) or b''
        dss = []
        for i in range(n):
            d = pydicom.Dataset(); d.SOPClassUID = '1.2.840.10008.5.1.4.1.1.7'; d.SOPInstanceUID = '1.2.%d' % i; dss.append(d)
        class Sub(object):
            def get_scu(self, u): return lambda ds, mid: statuses.SUCCESS
        @contextlib.contextmanager
        def request_association(remote):
            if remote is None: raise TypeError('no destination')
            yield Sub()
        ae = types.SimpleNamespace(on_receive_move=lambda ctx, ds, dest: (({'aet': 'D'} if n else None), n, iter(dss)),
                                   request_association=request_association)
        a = MockAsce(ae)
        rq.data_set = b'\x08\x00\x52\x00\x06\x00\x00\x00STUDY '
        try:
            sc.qr_move_scp(a, ap.PContextDef(1, sc.PATIENT_ROOT_MOVE_SOP_CLASS, _u.ImplicitVRLittleEndian), rq)
            exc = None
        except Exception as e:
            exc = e
        finals = [cs for cs, _, _ in a.sent if cs[(0, 0x900)].value != 0xFF00]
        pend = [(cs[(0, 0x1021)].value, cs[(0, 0x1020)].value) for cs, _, _ in a.sent if cs[(0, 0x900)].value == 0xFF00]
        if exc or len(finals) != 1 or pend != [(k, n - k) for k in range(1, n + 1)]:
            out.append('C-MOVE with %d sub-operations: exc %r, %d final responses, pending (completed, remaining) = %r'
                       % (n, exc, len(finals), pend))
    return '; '.join(out) or None


def D17():
    import pydicom
    from pydicom import uid as _u
    d = tempfile.mkdtemp(prefix='vp_d17_')
    try:
        cs = pydicom.Dataset(); cs.AffectedSOPClassUID = '1.2.840.10008.5.1.4.1.1.7'; cs.AffectedSOPInstanceUID = '1.2.3.4'
        ctx = ap.PContextDef(1, cs.AffectedSOPClassUID, _u.ImplicitVRLittleEndian)
        f1, s1 = pynetdicom2._get_storage_file(ctx, cs, d); f1.write(b'FIRST-PAYLOAD'); f1.close()
        before = {n: open(os.path.join(d, n), 'rb').read() for n in os.listdir(d)}
        f2, s2_ = pynetdicom2._get_storage_file(ctx, cs, d); f2.write(b'SECOND'); f2.close()
        after = {n: open(os.path.join(d, n), 'rb').read() for n in os.listdir(d)}
        bad = [n for n in before if after.get(n) != before[n]]
        if bad or len(after) != 2:
            return 'second store of instance 1.2.3.4: files %r, overwritten %r' % (sorted(after), bad)
    finally:
        import shutil; shutil.rmtree(d, ignore_errors=True)


def D18():
    ae = aem.ClientAE('X')
    ae.add_scu(sc.storage_scu, ['1.2.%d' % i for i in range(129)])
    mx = max(ae.context_def_list)
    if mx > 255:
        return '129 configured SOP classes: presentation context id %d' % mx


def D19():
    # the message object is changed after send() but before the provider thread consumes the fragments
    m = dm.CFindRSPMessage(); m.message_id_being_responded_to = 1; m.sop_class_uid = '1.2'
    m.status = 0xFF00; m.data_set = b'\x08\x00\x05\x00\x02\x00\x00\x00AA'
    m.set_length()
    gen = m.encode(1, 16384)              # what Association.send hands to the provider thread
    m.status = 0x0000; m.data_set = None  # the service goes on to build its next response
    pdus = list(gen)
    cmd = b''.join(p.data_value_items[0].data_value[1:] for p in pdus if p.data_value_items[0].data_value[0] in (1, 3))
    st = dsutils.decode(cmd, True, True)[(0, 0x900)].value
    ndata = len([p for p in pdus if p.data_value_items[0].data_value[0] in (0, 2)])
    if st != 0xFF00 or ndata != 1:
        return ('message sent with status FF00 and a data set, then changed before the provider consumed it: '
                'wire carries status %#06x and %d data fragment(s)' % (st, ndata))


def D20():
    # the peer is gone; the provider finds out when a send fails
    p, sock = _established('acc')
    def boom(b): raise OSError(32, 'Broken pipe')
    sock.sendall = boom
    m = dm.CEchoRSPMessage(); m.message_id_being_responded_to = 1; m.sop_class_uid = '1.2.840.10008.1.1'; m.status = 0
    m.set_length()
    p.send(m.encode(1, 16384))
    e = None
    for _ in range(4):
        e = p.step()
        if e: break
    if e or p.state != 1 or not sock.closed:
        return 'send fails (EPIPE) in Sta6: exc %r escapes run(), state Sta%d, socket closed=%s' % (e, p.state, sock.closed)


def D21():
    # the peer disconnects while a multi-fragment message is being sent
    p, sock = _established('acc')
    m = dm.CStoreRQMessage(); m.message_id = 1; m.sop_class_uid = '1.2.3'; m.affected_sop_instance_uid = '1.2.3.4'
    m.priority = 0; m.data_set = b'x' * 300
    m.set_length()
    p.send(m.encode(1, 64))
    e = p.step()                    # first fragment goes out
    sock.feed('EOF')
    seen = []
    for _ in range(5):
        e = p.step()
        seen += p.drain_user()
        if e: break
    if e or len(seen) != 1 or p.state != 1:
        return ('peer closes after the first of several fragments: exc %r escapes run(), user indications %r, state Sta%d'
                % (e, [getattr(x, 'source', x) for x in seen], p.state))


def D22():
    # a User Identity (AC) sub-item whose server response is not pure ASCII
    from pynetdicom2 import userdataitems as ud
    s = ud.UserIdentityNegotiationSubItemAc('tick\u00e9')
    b = s.encode()
    if len(b) != s.total_length or b[2] * 256 + b[3] != len(b) - 4:
        return ('UserIdentityNegotiationSubItemAc("tick\\u00e9"): %d bytes emitted, total_length %d, item length field %d'
                % (len(b), s.total_length, b[2] * 256 + b[3]))


def D23():
    # an accepting entity (real TCP): the peer connects and never sends its first PDU; the entity's own timeout is
    # longer than ARTIM, so only the provider's AA-2 can close the connection in time
    import socket, time
    s2.uninstall()

    class Srv(aem.AE):
        pass
    srv = Srv('SRV', 0)
    srv.timeout = 40
    srv.add_scp(sc.verification_scp)
    with srv:
        c = socket.create_connection(('127.0.0.1', srv.server_address[1]), timeout=5)
        t0 = time.time()
        c.settimeout(14)
        try:
            got = c.recv(16)
        except socket.timeout:
            got = None
        except OSError:
            got = b''
        took = time.time() - t0
        c.close()
    if got is None:
        return ('accepting entity, peer silent after connecting: ARTIM (10 s) expired, the provider went idle, but the '
                'transport connection was still open after %.0f s (the handler\'s file object keeps the socket alive)' % took)


def D24():
    # a healthy, fast peer on loopback TCP asks a real entity for 100 matches.  The provider sends one PDU per 50 ms poll
    # (it waits for the network before it looks at its own output queue), so the answer takes ~10 s to leave; the entity's
    # idle timeout (3 s here; with the default of 15 s the same happens from ~160 matches, or with a C-STORE above ~4.8 MB
    # at 16 KiB PDUs) runs meanwhile and the association is cut with the answer half sent
    import pydicom
    s2.uninstall()
    n = 100

    class Srv(aem.AE):
        def on_receive_find(self, context, ds):
            def gen():
                for j in range(n):
                    d = pydicom.Dataset(); d.PatientID = 'P%d' % j
                    yield d, statuses.C_FIND_PENDING
            return gen()
    srv = Srv('SRV', 0)
    srv.timeout = 3
    srv.add_scp(sc.qr_find_scp)
    got, exc = [], None
    with srv:
        q = pydicom.Dataset(); q.PatientID = '*'; q.QueryRetrieveLevel = 'PATIENT'
        try:
            for d, st in pynetdicom2.c_find({'aet': 'SRV', 'address': '127.0.0.1', 'port': srv.server_address[1]}, 'CLI', q):
                got.append(int(st))
        except Exception as e:  # pylint: disable=broad-except
            exc = e
    if len(got) != n + 1 or exc is not None:
        return ('C-FIND with %d matches against a real entity, healthy peer: %d of %d responses arrived, then %r'
                % (n, len(got), n + 1, exc))


ALL = ['D%d' % i for i in range(1, 25)]

if __name__ == '__main__':
    sel = sys.argv[1:] or ALL
    present = 0
    for name in sel:
        try:
            r = globals()[name]()
        except s2.WouldBlockForever as e:
            r = 'blocking call: %s' % e
        except Exception as e:  # pylint: disable=broad-except
            import traceback; r = 'repro raised %r\n%s' % (e, traceback.format_exc())
        print('%-4s %s' % (name, 'ok' if r is None else 'DEFECT: ' + r))
        present += r is not None
    sys.exit(1 if present else 0)
