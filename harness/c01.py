"""C01 — PDU encode/decode round trip: Lean theorems + correspondence with pdu.py / userdataitems.py."""
from . import common, pdugen


def decode_impl(raw):
    """PDU_TYPES dispatch + decode, as _process_incoming does; returns object or None (raises)"""
    from pynetdicom2 import dulprovider
    try:
        cls, _ = dulprovider.PDU_TYPES[raw[0]]
        return cls.decode(raw)
    except Exception:  # pylint: disable=broad-except
        return None


def oracle(p):
    """decode(encode(p)) == p field by field, and re-encoding reproduces the bytes"""
    raw = p.encode()
    d = type(p).decode(raw)
    if pdugen.canon(d) != pdugen.canon(p):
        return 'decode(encode(p)) differs from p', raw
    if d.encode() != raw:
        return 're-encoding the decoded PDU does not reproduce the bytes', raw
    im = pdugen.intent_mismatch(p, d)
    if im:
        return 'a field does not survive: ' + im, raw
    if p.total_length() != len(raw):
        return 'total_length() says %d, %d bytes emitted' % (p.total_length(), len(raw)), raw
    return None, raw


def replay(case):
    import pickle, base64
    p = pickle.loads(base64.b64decode(case['pickle']))
    if case.get('reassigned'):
        touched, fresh = p
        a, b = touched.encode(), fresh.encode()
        return None if a == b else 'the re-used item encodes %s, a fresh one %s' % (a.hex()[:80], b.hex()[:80])
    return oracle(p)[0]


def run(chk):
    import pickle, base64
    chk.rule = ('PDU objects built from the public classes: all 7 PDU types, all 9x9 ordered adjacencies of user-information '
                'sub-item kinds (each also alone, last, and embedded), AE titles of every length 0..16, UIDs of length 0, 1, '
                '63, 64, item lists of length 0..7, integer fields at 0/1/mid/max, PDV payloads 0..70000 bytes, 0..5 PDVs, '
                'plus seeded random values; oracle: real decode(encode(p)) = p (against the object and against the values its constructors were given) and re-encoding = bytes; correspondence: the '
                'Lean model decodes the real bytes to the same canonical value, re-encodes to the same bytes and computes the '
                'same total length; items built with default arguments; items re-used (values assigned through the public attributes '
                'must be the values encoded); a second stream of mutated encodings compares ok/error classification; non-trivial = '
                'PDUs with at least one variable item or PDV')
    chk.trusted += ['harness/pdugen.py canonical forms (injective text of the field values)']
    rnd = common.rng('c01')
    cases = pdugen.systematic(rnd, chk.tier)
    ops, want, keep = [], [], []
    for label, p in cases:
        try:
            fail, raw = oracle(p)
        except Exception as e:  # pylint: disable=broad-except
            fail, raw = 'round trip raised %r' % (e,), None
        c = pdugen.canon(p)
        chk.case(c, ('[' in c and '[]' not in c) or 'random' in label, {'case': label, 'value': c[:160]})
        chk.count(label.split()[0])
        if fail:
            chk.violation('C01:' + label, '%s: %s  [%s]' % (label, fail, c[:200]),
                          {'label': label, 'pickle': base64.b64encode(pickle.dumps(p)).decode()})
        elif raw is not None:
            ops.append('dec-pdu ' + raw.hex()); want.append('%s | %s | %d' % (c, raw.hex(), p.total_length())); keep.append(label)
    res = common.driver(ops)
    for label, w, g in zip(keep, want, res):
        if w != g:
            chk.broke('correspondence decodePdu/Pdu.enc (%s)' % label, 'impl  %s\nmodel %s' % (w[:400], g[:400]))
            break
    # second use of an object: values assigned through the public attributes are the values encoded
    for label, touched, fresh in pdugen.reassigned(rnd, chk.tier):
        try:
            a, b = touched.encode(), fresh.encode()
        except Exception as e:  # pylint: disable=broad-except
            a, b = repr(e), None
        chk.case(label + ':' + (b.hex() if b else '?'), True, None)
        chk.count('reassigned')
        if a != b:
            chk.violation('C01:' + label, '%s: an item given new values through its public attributes encodes %s; a fresh item with '
                          'those values encodes %s' % (label, a.hex()[:120] if isinstance(a, bytes) else a, b.hex()[:120] if b else b),
                          {'label': label, 'reassigned': True,
                           'pickle': base64.b64encode(pickle.dumps((touched, fresh))).decode()})
    # malformed stream: ok/error classification and, when both decode, the same value
    mops, mimpl = [], []
    n = 1500 if chk.tier == 'quick' else 60000
    raws = [p.encode() for _, p in cases[:400]]
    for i in range(n):
        raw = pdugen.mutate(rnd.choice(raws), rnd)
        if not raw:
            continue
        d = decode_impl(raw)
        chk.count('malformed:' + ('decodes' if d is not None else 'rejected'))
        chk.evaluations += 1
        mops.append('dec-pdu ' + raw.hex())
        mimpl.append('error' if d is None else pdugen.canon(d))
    res = common.driver(mops)
    for op, w, g in zip(mops, mimpl, res):
        g0 = g.split(' | ')[0]
        if w != g0:
            chk.broke('correspondence decodePdu on malformed input', '%s\nimpl  %s\nmodel %s' % (op[:300], w[:300], g0[:300]))
            break
    chk.lean(['Dicom.Props.C01'])
