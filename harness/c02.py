"""C02 — wire format = PS3.8/PS3.7 layouts: Lean strict reader as theorem and oracle, both directions."""
from . import common, pdugen, refenc, msgs, extract


def gen_descriptions(rnd, tier):
    """standard-conformant PDUs as plain data, including shapes the library never emits itself"""
    def uid(n=None):
        return msgs.uid_of_len(rnd.choice([1, 2, 17, 64]) if n is None else n, rnd).encode()

    def b8():
        return rnd.choice([0, 1, 127, 255])

    def title():
        return pdugen.title(rnd).strip().encode()

    def sub(k):
        if k == 'maxLen':
            return ('maxLen', b8(), pdugen.ints(rnd, 32))
        if k == 'implClass':
            return ('implClass', b8(), uid())
        if k == 'asyncOps':
            return ('asyncOps', b8(), pdugen.ints(rnd, 16), pdugen.ints(rnd, 16))
        if k == 'role':
            return ('role', b8(), uid(), rnd.choice([0, 1]), rnd.choice([0, 1]))
        if k == 'implVersion':
            return ('implVersion', b8(), pdugen.text(rnd, rnd.randrange(1, 17)).encode())
        if k == 'extNeg':
            return ('extNeg', b8(), uid(), bytes(rnd.randrange(256) for _ in range(rnd.choice([0, 1, 2, 6]))))
        if k == 'userId':
            return ('userId', b8(), rnd.choice([1, 2, 3, 4, 5]), rnd.choice([0, 1]), pdugen.utext(rnd, rnd.choice([0, 1, 9])).encode(),
                    pdugen.utext(rnd, rnd.choice([0, 4])).encode())
        if k == 'userIdAc':
            return ('userIdAc', b8(), pdugen.utext(rnd, rnd.choice([0, 7])).encode())
        return ('generic', rnd.choice([0x57, 0x5A, 0x60, 0x7F, 0xFF, 0x01]), b8(),
                bytes(rnd.randrange(256) for _ in range(rnd.choice([0, 1, 5, 40]))))

    out = []
    kinds = pdugen.SUB_KINDS
    for a in kinds:                       # every ordered adjacency, also around other sub-items
        for b in kinds:
            rq = (len(a) + len(b)) % 2 == 0
            ctx = [('pcRq', b8(), 1, b8(), b8(), b8(), b8(), uid(), [(b8(), uid()) for _ in range(rnd.choice([1, 2, 3]))])] if rq \
                else [('pcAc', b8(), 1, b8(), rnd.choice([0, 1, 2, 3, 4]), b8(), (b8(), uid()))]
            out.append(('sub %s then %s' % (a, b),
                        ('rq' if rq else 'ac', b8(), pdugen.ints(rnd, 16), pdugen.ints(rnd, 16), title(), title(),
                         [pdugen.ints(rnd, 32) for _ in range(8)],
                         [('appCtx', b8(), uid())] + ctx + [('userInfo', b8(), [sub(a), sub(b), sub(rnd.choice(kinds))])])))
    for n in range(0, 6):                 # several transfer syntaxes, several contexts
        out.append(('%d transfer syntaxes' % n, ('rq', 0, 1, 0, b'CALLED', b'CALLING', [0] * 8,
                    [('appCtx', 0, uid()), ('pcRq', 0, 1 + 2 * n, 0, 0, 0, 0, uid(), [(0, uid()) for _ in range(n)]),
                     ('userInfo', 0, [sub('maxLen')])])))
    for n in range(1, 6):                 # several PDVs
        out.append(('%d pdvs' % n, ('pdata', b8(), [(rnd.choice([1, 3, 255]), bytes(rnd.randrange(256) for _ in range(rnd.choice([0, 1, 2, 300]))))
                                                    for _ in range(n)])))
    out.append(('no pdv', ('pdata', 0, [])))
    for v in (0, 1, 255):
        out.append(('rj', ('rj', v, 255 - v, v, (v + 3) % 256, 7)))
        out.append(('abort', ('abort', v, v, 255 - v, 2, v)))
        out.append(('rlrq', ('rlrq', v, [0, 1, 2 ** 32 - 1][v % 3])))
        out.append(('rlrp', ('rlrp', v, [2 ** 31, 5, 0][v % 3])))
    for _ in range(200 if tier == 'quick' else 40000):
        subs = [sub(rnd.choice(kinds)) for _ in range(rnd.randrange(0, 7))]
        rq = rnd.random() < 0.5
        items = [('appCtx', b8(), uid())] if rnd.random() < 0.9 else []
        for c in range(rnd.randrange(0, 4)):
            items.append(('pcRq', b8(), 2 * c + 1, b8(), b8(), b8(), b8(), uid(), [(b8(), uid()) for _ in range(rnd.randrange(0, 4))]) if rq
                         else ('pcAc', b8(), 2 * c + 1, b8(), rnd.choice([0, 1, 3]), b8(), (b8(), uid())))
        if rnd.random() < 0.9:
            items.append(('userInfo', b8(), subs))
        out.append(('random', ('rq' if rq else 'ac', b8(), 1, 0, title(), title(), [0] * 8, items)))
    return out


def strict_emittable(label, p):
    """PDUs whose stored lengths are the standard's and whose context kinds fit the PDU type"""
    if p.pdu_type in (1, 2):
        for it in p.variable_items:
            n = type(it).__name__
            if (n == 'PresentationContextItemRQ' and p.pdu_type != 1) or (n == 'PresentationContextItemAC' and p.pdu_type != 2):
                return False
            if n == 'UserInformationItem':
                for s in it.user_data:
                    if getattr(s, '_verif_nonstd', False):
                        return False            # the generator asked for a non-standard stored length on purpose
                    if type(s).__name__ == 'GenericUserDataSubItem' and s.item_type in (0x51, 0x52, 0x53, 0x54, 0x55, 0x56, 0x58, 0x59):
                        return False
    return True


def replay(case):
    if case.get('direction') == 'decode':
        from . import c01
        raw = bytes.fromhex(case['bytes'])
        d = c01.decode_impl(raw)
        if d is None or pdugen.canon(d) != case['expected']:
            return ('a standard-conformant encoding decodes to %s, the encoded values are %s'
                    % ('an exception' if d is None else pdugen.canon(d)[:300], case['expected'][:300]))
        return None
    import pickle, base64
    p = pickle.loads(base64.b64decode(case['pickle']))
    raw = p.encode()
    got = common.driver(['spec-pdu ' + raw.hex()])[0]
    if got != pdugen.canon(p):
        return 'strict PS3.8 reading of the emitted bytes: %s; encoded values: %s' % (got[:300], pdugen.canon(p)[:300])
    if p.total_length() != len(raw):
        return 'total_length() %d, emitted %d bytes' % (p.total_length(), len(raw))
    return None


def run(chk):
    import pickle, base64
    from . import c01
    chk.rule = ('(1) every PDU of the C01 generator whose stored item lengths are the standard\'s is encoded by the library '
                'and read by the strict Lean reader Spec.parsePdu (driver op spec-pdu): it must accept and return exactly the '
                'encoded values, and total_length() must equal the bytes emitted; (2) standard-conformant encodings produced '
                'by an independent reference encoder (all 9x9 sub-item adjacencies in PDUs the library never emits itself, '
                'unknown sub-item types, 0..5 transfer syntaxes, 0..5 PDVs, reserved bytes non-zero) are checked against the '
                'strict reader and then decoded by the library; (3) struct formats and type codes are introspected and proved '
                'equal to the standard\'s; non-trivial = PDUs with variable items or PDVs')
    chk.trusted += ['Dicom/Spec/PduGrammar.lean: transcription of PS3.8 9.3.2-9.3.8 and PS3.7 D.3.3',
                    'harness/refenc.py reference encoder (itself checked against the strict Lean reader on every case)']
    rnd = common.rng('c02')
    cases = [(l, p) for l, p in pdugen.systematic(common.rng('c01'), chk.tier) if strict_emittable(l, p)]
    ops, want, keep = [], [], []
    for label, p in cases:
        raw = p.encode()
        c = pdugen.canon(p)
        chk.case('emit ' + c, '[' in c and '[]' not in c, {'direction': 'library encodes, strict reader reads', 'case': label})
        chk.count('emit')
        if p.total_length() != len(raw):
            chk.violation('C02:length:' + label, '%s: total_length() says %d, %d bytes emitted' % (label, p.total_length(), len(raw)),
                          {'pickle': base64.b64encode(pickle.dumps(p)).decode()})
        ops.append('spec-pdu ' + raw.hex()); want.append(c); keep.append((label, p))
    res = common.driver(ops)
    for (label, p), w, g in zip(keep, want, res):
        if w != g:
            chk.violation('C02:emit:' + label.split()[0],
                          '%s: strict PS3.8 reading of the emitted bytes gives %s; encoded values %s' % (label, g[:250], w[:250]),
                          {'pickle': base64.b64encode(pickle.dumps(p)).decode()})
    # converse direction
    descs = gen_descriptions(rnd, chk.tier)
    ops = []
    for label, d in descs:
        ops.append('spec-pdu ' + refenc.enc_pdu(d).hex())
    res = common.driver(ops)
    for (label, d), g in zip(descs, res):
        raw = refenc.enc_pdu(d)
        want = refenc.canon(d)
        chk.case('decode ' + want, True, {'direction': 'reference encodes, library decodes', 'case': label})
        chk.count('decode')
        if g != want:
            chk.broke('reference encoder vs strict reader (%s)' % label, 'reference %s\nstrict    %s' % (want[:300], g[:300]))
            continue
        dobj = c01.decode_impl(raw)
        got = 'raises' if dobj is None else pdugen.canon(dobj)
        if got != want:
            chk.violation('C02:decode:' + label.split()[0],
                          '%s: standard-conformant encoding decodes to %s; encoded values %s' % (label, got[:250], want[:250]),
                          {'direction': 'decode', 'bytes': raw.hex(), 'expected': want})
    _, changed = extract.gen_layouts()
    chk.extra['layouts_generated_changed'] = changed
    chk.lean(['Dicom.Props.C02'])
