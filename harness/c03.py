"""C03 — framing independent of TCP segmentation: Lean theorem (framing core) + S2 provider runs."""
import itertools

from . import common, scen, s2


# ------------------------------------------------------------------ conversations
def conversations():
    from pynetdicom2 import pdu
    P = scen
    convs = {}
    rq = P.rq_pdu().encode()
    echo = P.wire(P.echo_rq(5), 1, 16384)
    store = P.wire(P.store_rq(6, 300), 3, 128)           # several fragments
    rlrq = pdu.AReleaseRqPDU().encode()
    rlrp = pdu.AReleaseRpPDU().encode()
    abort = pdu.AAbortPDU(0, 0).encode()
    garbage = b'\x09\x00\x00\x00\x00\x04\xde\xad\xbe\xef'
    ac = P.ac_pdu().encode()
    rj = pdu.AAssociateRjPDU(1, 1, 3).encode()
    convs['A1-echo-release'] = ('acceptor', {}, [('peer', [rq]), ('peer', echo), ('peer', [rlrq]), ('eof',)])
    convs['A2-store-multifragment'] = ('acceptor', {}, [('peer', [rq]), ('peer', store), ('peer', [rlrq]), ('eof',)])
    convs['A3-peer-abort'] = ('acceptor', {'eof_burst_ok': True}, [('peer', [rq]), ('peer', echo), ('peer', [abort]), ('eof',)])
    convs['A4-local-reject'] = ('acceptor', {'reject': (1, 1, 1)}, [('peer', [rq]), ('eof',)])
    convs['A5-garbage-tail'] = ('acceptor', {}, [('peer', [rq]), ('peer', echo), ('peer', [garbage]), ('eof',)])
    convs['A6-pipelined-echo-release'] = ('acceptor', {}, [('peer', [rq]), ('peer', echo + [rlrq]), ('eof',)])
    # the peer aborts without waiting for the answer: the local user stays silent here, because its answer would
    # race with the abort (a user primitive consumed after the association ended is outside C03/C05)
    convs['A7-rq-and-abort-at-once'] = ('acceptor', {'silent': True, 'eof_burst_ok': True}, [('peer', [rq, abort]), ('eof',)])
    # a header-only PDU (declared length 0, unknown type) right behind the request, the close right behind it
    convs['A8-header-only-tail'] = ('acceptor', {'silent': True, 'eof_burst_ok': True}, [('peer', [rq, b'\x09\x00\x00\x00\x00\x00']), ('eof',)])
    convs['A9-release-then-more'] = ('acceptor', {'silent': True, 'eof_burst_ok': True}, [('peer', [rlrq, rq, abort]), ('eof',)])
    convs['R1-echo-release'] = ('requester', {}, [('user', 'rq'), ('peer', [ac]), ('user', 'echo'),
                                                  ('peer', P.wire(P.echo_rsp(1), 1, 16384)), ('user', 'rlrq'),
                                                  ('peer', [rlrp]), ('eof',)])
    convs['R2-rejected'] = ('requester', {'eof_burst_ok': True}, [('user', 'rq'), ('peer', [rj]), ('eof',)])
    convs['R3-incoming-store'] = ('requester', {}, [('user', 'rq'), ('peer', [ac]), ('peer', store),
                                                    ('user', 'rlrq'), ('peer', [rlrp]), ('eof',)])
    return convs


def user_prim(name):
    from pynetdicom2 import pdu
    if name == 'rq':
        return scen.rq_pdu()
    if name == 'echo':
        return scen.echo_rq(1).encode(1, 16384)
    if name == 'rlrq':
        return pdu.AReleaseRqPDU()
    raise KeyError(name)


def run_conv(conv, plan):
    """plan: {turn index: (segments list, 'quiescent'|'burst')}, plus 'prequeue': bool.
    Returns the observable summary."""
    role, opts, turns = conv
    react = (lambda x: []) if opts.get('silent') else scen.default_acceptor_user(reject=opts.get('reject'))
    first = ()
    start = 0
    if plan.get('prequeue') and role == 'acceptor' and turns and turns[0][0] == 'peer':
        segs, _ = plan.get(0, (turns[0][1], 'quiescent'))
        first = list(segs)
        start = 1
    r = scen.Runner(role, react, first_segments=first)
    r.settle()
    for i, t in enumerate(turns):
        if i < start:
            continue
        if t[0] == 'peer':
            segs, policy = plan.get(i, (t[1], 'quiescent'))
            if r.sock is None:
                break
            if policy == 'burst':
                for s in segs:
                    r.feed(s)
                if plan.get('eof_burst') and i + 1 < len(turns) and turns[i + 1][0] == 'eof':
                    r.feed('EOF')
                r.settle()
            else:
                for s in segs:
                    r.feed(s)
                    r.settle()
        elif t[0] == 'eof':
            if r.sock is not None and not r.sock.closed:
                r.feed('EOF')
            r.settle()
        elif t[0] == 'user':
            r.user(user_prim(t[1]))
            r.settle()
    s = r.summary()
    return s


def observable(s):
    return (tuple(s['inds']), tuple(s['sent']), s['state'], s['closed'], s['sock_none'], s['crash'], s['blocked'])


def plans_for(conv, tier, rnd):
    """segmentation plans; the reference is the empty plan (one PDU per segment, quiescent feeding)"""
    role, opts, turns = conv
    peer_turns = [(i, b''.join(t[1]), t[1]) for i, t in enumerate(turns) if t[0] == 'peer']
    plans = []
    for i, blob, pdus in peer_turns:
        n = len(blob)
        bounds = list(itertools.accumulate(len(p) for p in pdus))[:-1]
        for policy in ('quiescent', 'burst'):
            plans.append(('all-at-once turn %d %s' % (i, policy), {i: ([blob], policy)}))
            plans.append(('dribble turn %d %s' % (i, policy), {i: ([blob[k:k + 1] for k in range(n)], policy)}))
            plans.append(('pdu-burst turn %d' % i, {i: (pdus, 'burst')}))
            # every single cut
            for c in range(1, n):
                plans.append(('cut %d turn %d %s' % (c, i, policy), {i: (scen.split(blob, [c]), policy)}))
        # pairs of cuts: exhaustive for short turns, around boundaries / headers otherwise
        if n <= (70 if tier == 'quick' else 160):
            pairs = list(itertools.combinations(range(1, n), 2))
        else:
            hot = sorted(set(x for b in [0] + bounds for x in range(b + 1, min(n, b + 13))) |
                         set(x for b in bounds for x in range(max(1, b - 3), b + 1)))
            pairs = list(itertools.combinations(hot, 2))
            extra = 300 if tier == 'quick' else 5000
            pairs += [tuple(sorted(rnd.sample(range(1, n), 2))) for _ in range(extra)]
        if tier == 'quick' and len(pairs) > 700:
            pairs = rnd.sample(pairs, 700)
        for c1, c2 in pairs:
            plans.append(('cuts %d,%d turn %d' % (c1, c2, i), {i: (scen.split(blob, [c1, c2]), 'burst' if (c1 + c2) % 2 else 'quiescent')}))
        for _ in range(20 if tier == 'quick' else 300):
            k = rnd.randrange(3, 9)
            if n > k:
                cuts = rnd.sample(range(1, n), k)
                plans.append(('k-cuts %r turn %d' % (sorted(cuts), i), {i: (scen.split(blob, cuts), rnd.choice(['burst', 'quiescent']))}))
    # the peer's close arrives together with its last PDUs (only where no local reply is pending for them)
    if opts.get('eof_burst_ok') and peer_turns:
        i, blob, pdus = peer_turns[-1]
        plans.append(('last turn and close in one burst', {i: ([blob], 'burst'), 'eof_burst': True}))
        plans.append(('last turn PDU-wise and close in one burst', {i: (pdus, 'burst'), 'eof_burst': True}))
        for c in range(1, len(blob), max(1, len(blob) // 12)):
            plans.append(('cut %d last turn and close in one burst' % c, {i: (scen.split(blob, [c]), 'burst'), 'eof_burst': True}))
    # everything dribbled / everything coalesced
    plans.append(('dribble every turn', {i: ([blob[k:k + 1] for k in range(len(blob))], 'burst') for i, blob, _ in peer_turns}))
    plans.append(('coalesce every turn', {i: ([blob], 'burst') for i, blob, _ in peer_turns}))
    if role == 'acceptor':
        out = []
        for name, p in plans:
            out.append((name, p))
            if (0 in p or not p) and not p.get('eof_burst'):
                q = dict(p); q['prequeue'] = True
                out.append((name + ' prequeued', q))
        out.append(('reference prequeued', {'prequeue': True}))
        plans = out
    return plans


def enc_plan(plan):
    return {str(k): ([s.hex() for s in v[0]], v[1]) if k not in ('prequeue', 'eof_burst') else v for k, v in plan.items()}


def dec_plan(d):
    return {(k if k in ('prequeue', 'eof_burst') else int(k)):
            (v if k in ('prequeue', 'eof_burst') else ([bytes.fromhex(x) for x in v[0]], v[1])) for k, v in d.items()}


def replay(case):
    conv = conversations()[case['conversation']]
    ref = observable(run_conv(conv, {}))
    got = observable(run_conv(conv, dec_plan(case['plan'])))
    if got != ref:
        return 'segmentation %s changes the outcome of %s: %s' % (case['name'], case['conversation'], diff(ref, got))
    return None


def diff(ref, got):
    names = ['indications', 'sent PDUs', 'final state', 'socket closed', 'socket dropped', 'crash', 'blocked']
    out = []
    for n, a, b in zip(names, ref, got):
        if a != b:
            if isinstance(a, tuple):
                out.append('%s: expected %d, got %d (first difference at #%d)' % (
                    n, len(a), len(b), next((i for i, (x, y) in enumerate(zip(a, b)) if x != y), min(len(a), len(b))) + 1))
            else:
                out.append('%s: expected %r, got %r' % (n, a, b))
    return '; '.join(out)


def framing_tie(chk, rnd, tier):
    """the model's frames/feed against the real buffer: PDUs recognised by the real _process_incoming"""
    from pynetdicom2 import pdu as pdumod
    recorded = []
    saved = {}
    classes = [pdumod.AAssociateRqPDU, pdumod.AAssociateAcPDU, pdumod.AAssociateRjPDU, pdumod.PDataTfPDU,
               pdumod.AReleaseRqPDU, pdumod.AReleaseRpPDU, pdumod.AAbortPDU]

    def wrap(cls):
        orig = cls.__dict__['decode'] if 'decode' in cls.__dict__ else None
        base = cls.decode

        def dec(c, raw, _b=base):
            recorded.append(bytes(raw))
            return _b(raw)
        saved[cls] = orig
        cls.decode = classmethod(dec)
    for c in classes:
        wrap(c)
    try:
        convs = conversations()
        ops, got, meta = [], [], []
        for name, conv in sorted(convs.items()):
            role, opts, turns = conv
            blob = b''.join(b''.join(t[1]) for t in turns if t[0] == 'peer')
            trials = [[blob], [blob[k:k + 1] for k in range(len(blob))]]
            for _ in range(6 if tier == 'quick' else 60):
                trials.append(scen.split(blob, rnd.sample(range(1, len(blob)), rnd.randrange(1, 8))))
            # mutated streams: garbage types, partial tail
            trials.append(scen.split(blob + b'\x05\x00\x00', [len(blob) // 2]))
            for segs in trials:
                del recorded[:]
                s2.install()
                sock = s2.FakeSocket()
                p = s2.Stepped(sock)
                p.state_machine.action = lambda evt: None       # framing only: events are discarded
                p.event.clear()
                for sg in segs:
                    sock.feed(sg)
                for _ in range(len(blob) + 30):
                    p.step()
                    p.event.clear()
                ops.append('frames ' + ' '.join(x.hex() for x in segs))
                got.append((list(recorded), bytes(p.raw_pdu)))
                meta.append((name, len(segs)))
        res = common.driver(ops)
        for (name, nseg), line, (rec, residue) in zip(meta, res, got):
            pdus, rest = line.split(' | ')
            want = [bytes.fromhex(x) for x in pdus.split(',') if x]
            want_known = [w for w in want if 1 <= w[0] <= 7]
            chk.count('framing-tie')
            if want_known != rec or bytes.fromhex(rest) != residue:
                chk.broke('correspondence frames/feed (conversation %s, %d segments)' % (name, nseg),
                          'model recognises %d PDUs residue %s; implementation %d PDUs residue %s'
                          % (len(want_known), rest, len(rec), residue.hex()))
                break
    finally:
        for c in classes:
            if saved[c] is None:
                del c.decode
            else:
                c.decode = saved[c]


def run(chk):
    tier = chk.tier
    chk.rule = ('corpus of acceptor- and requester-side conversations run on the real provider loop (S2: simulated '
                'transport, no threads) under every single cut offset of every peer turn, pairs of cuts (all pairs for '
                'short turns, all pairs near PDU boundaries/headers plus seeded pairs otherwise), one-byte dribble, '
                'everything at once, seeded k-cuts, segments fed one per quiescence or in a burst, first turn already '
                'waiting when the provider starts; observables (indications, PDUs sent, final state, socket) compared '
                'with the one-PDU-per-segment run; non-trivial = a cut that does not fall on a PDU boundary')
    chk.trusted += ['harness/s2.py (fake select/recv/clock define "the transport delivers")',
                    'harness/scen.py reactive local user']
    chk.assumptions += ['a peer turn is delivered only after the local replies it depends on were sent '
                        '(conversations are sequences of turns; segmentation is arbitrary within a turn)']
    rnd = common.rng('c03')
    convs = conversations()
    for name in sorted(convs):
        conv = convs[name]
        ref_s = run_conv(conv, {})
        ref = observable(ref_s)
        if ref_s['crash'] or ref_s['blocked']:
            chk.violation('C03:ref:' + name, 'reference run of %s: crash=%r blocked=%r' % (name, ref_s['crash'], ref_s['blocked']),
                          {'conversation': name, 'name': 'reference', 'plan': {}})
            continue
        chk.count('conv:' + name, 0)
        for pname, plan in plans_for(conv, tier, rnd):
            got = observable(run_conv(conv, plan))
            bounds_only = pname.startswith(('pdu-burst', 'reference'))
            chk.case(name + '|' + pname, not bounds_only,
                     {'conversation': name, 'segmentation': pname, 'indications': len(got[0]), 'sent': len(got[1]),
                      'final_state': got[2]})
            chk.count('conv:' + name)
            if got != ref:
                chk.violation('C03:%s:%s' % (name, pname.split()[0]),
                              '%s, segmentation "%s": %s' % (name, pname, diff(ref, got)),
                              {'conversation': name, 'name': pname, 'plan': enc_plan(plan)})
    framing_tie(chk, rnd, tier)
    chk.lean(['Dicom.Props.C03'])
