"""C04 — Table 9-10 in every cell: regenerated observation table + kernel-checked theorems."""
import re

from . import common, extract


def compact(o):
    """Lean `Obs` text -> compact form understood by the driver."""
    o = o.strip()
    if o == '.rejected':
        return 'rejected'
    if o == '.rejectedWithEffects':
        return 'rejectedWithEffects'
    m = re.match(r'\.raised "(.*)"$', o)
    if m:
        return 'raised:' + m.group(1).replace(' ', '_')
    m = re.match(r'\.did \[(.*)\] \.s(\d+)$', o)
    effs = [e.strip().lstrip('.').replace(' .', '.').replace(' ', '.') for e in m.group(1).split(',') if e.strip()]
    return 'did:%s:%s' % (';'.join(effs), m.group(2))


def replay(case):
    o = extract.observe_cell(bool(case['requestor']), case['state'], case['event'], case['variant'])
    r = common.driver(['fsm-cell %d %d %d %d %s' % (1 if case['requestor'] else 0, case['state'], case['event'],
                                                    case['variant'], compact(o))])[0]
    if r != 'ok':
        return 'Sta%d Evt%d (requestor=%s, variant %d): observed %s, %s' % (
            case['state'], case['event'], case['requestor'], case['variant'], compact(o), r)
    return None


def run(chk):
    chk.rule = ('the real StateMachine.action executed on a recording provider for ALL 13 states x 19 events x 2 roles '
                'x 2 primitive variants (988 cells, variants distinguish "passes the PDU through" from "sends a '
                'constant"; variant 1 of Evt17/18/19 leaves a stale primitive); each observation compared with the '
                'Lean transcription of Table 9-10 (driver op fsm-cell) and emitted as Generated/FsmObserved.lean, '
                'on which the kernel re-proves fsm_is_table_9_10; non-trivial = cells Table 9-10 defines')
    chk.trusted += ['harness/extract.py observe_cell (recording provider, socket, timer, queue)',
                    'Dicom/Spec/Table910.lean: transcription of PS3.8 Table 9-10 and Tables 9-6..9-9']
    chk.assumptions += ['restarting ARTIM counts as starting it (AA-1: "start or restart")',
                        "AA-7's A-ABORT source is left open by the standard: any source admitted",
                        'DT-2/AR-6: this library reassembles DIMSE messages below the user, so a P-DATA indication is '
                        'given only for a PDU that completes a message']
    cells, changed = extract.gen_fsm()
    chk.extra['generated_changed'] = changed
    chk.exhaustive = True
    ops = ['fsm-cell %d %d %d %d %s' % (1 if r else 0, s, e, v, compact(o)) for r, s, e, v, o in cells]
    tab = common.driver(['fsm-table %d %d' % (s, e) for r, s, e, v, o in cells])
    res = common.driver(ops)
    for (r, s, e, v, o), out, t in zip(cells, res, tab):
        defined = t != '-'
        chk.case('%s %d %d %d' % (r, s, e, v), defined,
                 {'requestor': r, 'state': s, 'event': e, 'variant': v, 'action': t, 'observed': compact(o)}
                 if defined and len(chk.samples) < 6 and (s * e) % 7 == 0 else None)
        chk.count('defined' if defined else 'undefined')
        if out != 'ok':
            chk.violation('C04:%d:%d:%d:%d' % (r, s, e, v),
                          'Sta%d Evt%d (%s, primitive variant %d, action %s): observed %s; %s'
                          % (s, e, 'requestor' if r else 'acceptor', v, t, compact(o), out),
                          {'requestor': r, 'state': s, 'event': e, 'variant': v})
    chk.lean(['Dicom.Props.C04'])
