"""C05 — provider = PS3.8 machine over event histories: Lean invariants on the loop model + step-by-step
correspondence of the real provider loop with the model over exhaustive and random histories."""
import itertools
import multiprocessing
import os

from . import common, prov

NET = ['rq', 'ac', 'rj', 'pdataDone', 'pdataMore', 'pdataErr', 'rlrq', 'rlrp', 'abort', 'invalid']
USER = ['rq', 'ac', 'rj', 'msg*0', 'msg*2', 'rlrq', 'rlrp', 'abort']
ALPHABET = (['n=' + k for k in NET] + ['n=eof', 'n=err', 'n=part', 'n=idle', 'n=idle,t=1', 'n=idle,t=11', 'n=rq+abort', 'n=pdataDone+rlrq', 'n=rlrq+rq', 'n=invalid+abort', 'n=abort+rq']
            + ['u=' + u for u in USER] + ['u=msg*1,f=1', 'n=rlrq,f=1', 'n=invalid,f=1']
            # full duplex: a PDU arrives and the local user issues a primitive before the same pass
            + ['n=pdataDone,u=msg*0', 'n=rlrq,u=msg*1', 'n=rq,u=abort', 'n=pdataMore,u=rlrq', 'n=abort,u=rlrq'])

# prefixes that bring the provider into each protocol state
BASES = {
    'acc': {
        'Sta2': ['n=idle'],
        'Sta3': ['n=idle', 'n=rq'],
        'Sta6': ['n=idle', 'n=rq', 'u=ac'],
        'Sta7': ['n=idle', 'n=rq', 'u=ac', 'u=rlrq'],
        'Sta8': ['n=idle', 'n=rq', 'u=ac', 'n=rlrq'],
        'Sta10': ['n=idle', 'n=rq', 'u=ac', 'u=rlrq', 'n=rlrq'],
        'Sta12': ['n=idle', 'n=rq', 'u=ac', 'u=rlrq', 'n=rlrq', 'n=rlrp'],
        'Sta13': ['n=idle', 'n=rq', 'u=rj'],
        'Sta6-mid-message': ['n=idle', 'n=rq', 'u=ac', 'n=pdataMore'],
        'Sta6-sending': ['n=idle', 'n=rq', 'u=ac', 'u=msg*3'],
    },
    'req': {
        'Sta1': [],
        'Sta4': ['u=rq'],
        'Sta5': ['u=rq', 'n=idle'],
        'Sta6': ['u=rq', 'n=idle', 'n=ac'],
        'Sta7': ['u=rq', 'n=idle', 'n=ac', 'u=rlrq'],
        'Sta9': ['u=rq', 'n=idle', 'n=ac', 'u=rlrq', 'n=rlrq'],
        'Sta11': ['u=rq', 'n=idle', 'n=ac', 'u=rlrq', 'n=rlrq', 'u=rlrp'],
        'Sta13': ['u=rq', 'n=idle', 'n=ac', 'u=abort'],
    },
}


def sanitize(ticks):
    """after the head of a PDU that is never completed (`n=part`) the peer sends nothing more: later
    network data is turned into silence (time, user and failure parts of the tick are kept)"""
    out, dirty = [], False
    for t in ticks:
        if dirty and 'n=' in t:
            kv = [x for x in t.split(',')]
            kv = [('n=idle' if x.startswith('n=') and x not in ('n=idle', 'n=eof', 'n=err') else x) for x in kv]
            t = ','.join(kv)
        if 'n=part' in t:
            dirty = True
        out.append(t)
    return out


def histories(tier, rnd):
    return sorted(set((r, n, tuple(sanitize(t))) for r, n, t in _histories(tier, rnd)))


def _histories(tier, rnd):
    out = []
    depth = 2 if tier == 'quick' else 3
    for role, bases in BASES.items():
        for name, prefix in bases.items():
            for d in range(1, depth + 1):
                for combo in itertools.product(ALPHABET, repeat=d):
                    out.append((role, name, prefix + list(combo) + ['n=idle', 'n=idle']))
    # exhaustive from the two initial configurations
    d0 = 3 if tier == 'quick' else 4
    for role in ('acc', 'req'):
        for combo in itertools.product(ALPHABET, repeat=d0):
            out.append((role, 'start', list(combo) + ['n=idle']))
    # long seeded random walks
    for i in range(150 if tier == 'quick' else 3000):
        role = rnd.choice(['acc', 'req'])
        n = 200 if i % 3 == 0 else 40
        out.append((role, 'walk', [rnd.choice(ALPHABET) for _ in range(n)]))
    return out


def run_one(args):
    role, name, ticks = args
    ticks = list(ticks)
    try:
        lines, info = prov.run_ticks(role, ticks)
    except Exception as e:  # pylint: disable=broad-except
        return ('harness', common.describe_exc(e), None, None)
    orc = prov.oracle(role, ticks, info)
    return (None, orc, lines, [i['after'] for i in info])


def replay(case):
    lines, info = prov.run_ticks(case['role'], case['ticks'])
    orc = prov.oracle(case['role'], case['ticks'], info)
    if orc:
        return orc
    model = common.driver(['prov %s %s' % (case['role'], ';'.join(case['ticks']))])[0].split(' | ')
    for k, (a, b) in enumerate(zip(lines, model)):
        if prov.channels(a) != prov.channels(b):
            return 'pass %d: provider %s; PS3.8 machine model %s' % (k + 1, a.strip(), b.strip())
    return None


def classify_divergence(role, ticks, k, real, model):
    """a step where the real provider and the model (= Table 9-10 run by the loop) differ is a failure of
    C05 itself when the model is the specification for that step: every observable differs only in
    what the standard prescribes.  Returns a description."""
    return 'history %s, pass %d (%s): provider does [%s]; the PS3.8 machine does [%s]' % (
        role, k + 1, ticks[k], real.strip(), model.strip())


def run(chk):
    tier = chk.tier
    rnd = common.rng('c05')
    chk.rule = ('event histories over the alphabet {each PDU kind, complete / partial / undecodable P-DATA, unrecognised PDU, '
                'transport close, ARTIM expiry, non-expiring time advance, two PDUs in one segment, every user primitive, '
                'transport write failure}, for both roles: exhaustive to depth %d after each of %d state-reaching prefixes, '
                'exhaustive to depth %d from both initial configurations, and seeded random walks of length 40/200; every '
                'history is executed on the real provider loop (S2) and compared pass by pass (state, socket, ARTIM, ordered '
                'effects) with the Lean loop model, whose actions are those C04 proves equal to Table 9-10; the invariants '
                'of C05 are also evaluated directly on the real trace; non-trivial = histories that leave the initial state'
                % (2 if tier == 'quick' else 3, sum(len(b) for b in BASES.values()), 3 if tier == 'quick' else 4))
    chk.trusted += ['harness/s2.py fakes; harness/prov.py concretisation of abstract events into PDUs and primitives',
                    'the model abstracts payloads to kinds and the receive buffer to complete PDUs (justified by C03)']
    chk.assumptions += ['user primitives illegal in the state where they are consumed crash the loop in both the model and '
                        'the code (KeyError); such histories are compared too but are outside the property']
    hs = histories(tier, rnd)
    ops = ['prov %s %s' % (role, ';'.join(t)) for role, name, t in hs]
    model = common.driver(ops)
    with multiprocessing.Pool(min(16, os.cpu_count() or 1)) as pool:
        results = pool.map(run_one, hs, chunksize=64)
    nb = 0
    for (role, name, ticks), m, (err, orc, lines, states) in zip(hs, model, results):
        ticks = list(ticks)
        if err:
            common.raise_for('%s [history %s %r]' % (orc, role, ticks[:30]))
        chk.case(role + ';'.join(ticks), len(set(states)) > 1,
                 {'role': role, 'base': name, 'ticks': ticks[:12], 'states': states[:12]} if name != 'start' or len(chk.samples) < 3 else None)
        chk.count('base:%s:%s' % (role, name))
        for s_ in set(states):
            chk.count('visited:Sta%d' % s_)
        case = {'role': role, 'ticks': ticks}
        if orc:
            chk.violation('C05:oracle:' + orc.split(':')[0][:20], '%s history %s: %s' % (role, ';'.join(ticks)[:200], orc), case)
            continue
        ml = m.split(' | ')
        for k, (a, b) in enumerate(zip(lines, ml)):
            if prov.channels(a) != prov.channels(b):
                # the model is Table 9-10 driven by the loop: a divergence on a history of legal events is a
                # failure of the property; report it with the history as replay
                nb += 1
                chk.violation('C05:diverge:%s' % b.strip().split(' out=')[1][:30],
                              classify_divergence(role, ticks, k, a, b), case)
                break
    chk.lean(['Dicom.Props.C05'])
