"""C06 — DIMSE fragmentation: Lean theorems + correspondence with the real encoder + oracle."""
import io
import os
import tempfile

from . import common, msgs


def oracle(pdus, pc, maxlen, cmd, data):
    """the seven statements of C06 evaluated on the real PDUs; returns a failure text or None"""
    frs = []
    for p in pdus:
        raw = p.encode()
        try:
            pdvs = msgs.parse_pdata(raw)
        except ValueError as e:
            return 'emitted PDU does not parse as P-DATA-TF: %s' % e
        if p.pdu_length != len(raw) - 6:
            return 'pdu_length property %d but %d bytes follow the header' % (p.pdu_length, len(raw) - 6)
        if maxlen and p.pdu_length > maxlen:
            return 'P-DATA-TF of length %d exceeds the maximum length %d' % (p.pdu_length, maxlen)
        for ctx, mch, body in pdvs:
            if ctx != pc:
                return 'fragment on context %d, message sent on %d' % (ctx, pc)
            if len(body) == 0:
                return 'empty fragment (control header %d)' % mch
            if mch not in (0, 1, 2, 3):
                return 'control header %d' % mch
            frs.append((mch, body))
    mchs = [m for m, _ in frs]
    ncmd = len([m for m in mchs if m in (1, 3)])
    if any(m in (1, 3) for m in mchs[ncmd:]):
        return 'a command fragment follows a data fragment: %r' % mchs
    c, d = mchs[:ncmd], mchs[ncmd:]
    if c != [1] * (len(c) - 1) + [3]:
        return 'command fragments flagged %r: need exactly one last (3) and it must be final' % c
    if data:
        if d != [0] * (len(d) - 1) + [2]:
            return 'data fragments flagged %r: need exactly one last (2) and it must be final' % d
    elif d:
        return 'data fragments although there is no data set'
    if b''.join(b for m, b in frs if m in (1, 3)) != cmd:
        return 'command fragments do not concatenate to the encoded command set'
    if b''.join(b for m, b in frs if m in (0, 2)) != (data or b''):
        return 'data fragments do not concatenate to the data set'
    return None


def impl(cls_index, pc, maxlen, data, kind, uid_len=17):
    """run the real encoder; returns (pdus, cmd bytes)"""
    rnd = common.rng('c06-msg-%d' % cls_index)
    m = msgs.fill(msgs.classes()[cls_index](), rnd, uid_len=uid_len, ids=7)
    if data is None:
        m.data_set = None
    elif kind == 'bytes':
        m.data_set = data
    else:
        # a file-like data set is sent from where it is positioned (storage_scu hands over a file positioned behind its
        # preamble and meta header): the bytes before that position are not part of the data set
        prefix = bytes((i * 3 + 1) % 256 for i in range((len(data) * 7 + uid_len) % 211 if (len(data) + cls_index) % 3 else 0))
        f = io.BytesIO() if kind == 'bytesio' else tempfile.TemporaryFile()
        f.write(prefix + data)
        f.seek(len(prefix))
        m.data_set = f
    cmd = []

    def reuse(msg):
        # the application goes on with the message object before the provider thread has sent it: what goes out must be
        # the message as it was when send() was called
        cmd.append(msgs.encoded_command_set(msg))
        if (len(data or b'') + pc + cls_index) % 2:
            msg.data_set = None if (pc % 3 == 0 or data is None) else b'LATER' * 7
            try:
                msg.message_id = 4242
            except Exception:  # pylint: disable=broad-except
                pass
    pdus = msgs.send_via_association(m, pc, maxlen, after=reuse)
    return pdus, cmd[0]


def frag_text(pdus):
    out = []
    for p in pdus:
        for item in p.data_value_items:
            out.append('%d.%d.%s' % (item.context_id, item.data_value[0], item.data_value[1:].hex() or '-'))
    return ' '.join(out)


def run_case(case):
    """returns (oracle failure or None, model line, impl line)"""
    data = bytes.fromhex(case['data']) if case['data'] is not None else None
    pdus, cmd = impl(case['cls'], case['pc'], case['maxlen'], data, case['kind'])
    fail = oracle(pdus, case['pc'], case['maxlen'], cmd, data)
    if fail is None and case['kind'] != 'bytes' and data is not None:
        pdus_b, _ = impl(case['cls'], case['pc'], case['maxlen'], data, 'bytes')
        if [p.encode() for p in pdus_b] != [p.encode() for p in pdus]:
            fail = 'data set supplied as a file fragments differently from the same bytes'
    op = 'frag %s %d %d %s %s' % ('file' if case['kind'] != 'bytes' else 'bytes', case['pc'], case['maxlen'],
                                  cmd.hex(), 'none' if data is None else (data.hex() or '-'))
    return fail, op, frag_text(pdus)


def replay(case):
    fail, op, got = run_case(case)
    if fail:
        return fail
    want = common.driver([op])[0]
    if want != got:
        return 'model and implementation disagree (no property failure on this input)'
    return None


def gen_cases(chk, tier):
    rnd = common.rng('c06')
    ncls = len(msgs.classes())
    cases = []
    kmax = 40 if tier == 'quick' else 120

    def data_of(n):
        return bytes((i * 7 + n) % 251 for i in range(n)).hex()

    # every fragment size k, every length 1..4k+2 (so every length within +-2 of every multiple)
    for k in range(1, kmax + 1):
        for n in range(1, 4 * k + 3):
            kind = ('bytes', 'bytesio')[(n + k) % 2] if tier == 'quick' else None
            for kd in ([kind] if kind else ['bytes', 'bytesio']):
                cases.append({'cls': (k + n) % ncls, 'pc': (1, 3, 127, 255)[(k + n) % 4], 'maxlen': k + 6,
                              'data': data_of(n), 'kind': kd})
    # boundary lengths exactly at multiples, as a real file
    for k in (1, 2, 5, 16, 100):
        for mult in (1, 2, 3):
            for d in (-1, 0, 1):
                n = k * mult + d
                if n >= 1:
                    cases.append({'cls': 0, 'pc': 1, 'maxlen': k + 6, 'data': data_of(n), 'kind': 'tempfile'})
    # every message class, no data set, every maximum length 7..300 (command set fragmentation)
    for mx in range(7, 301 if tier == 'quick' else 1200):
        cases.append({'cls': mx % ncls, 'pc': 1 + 2 * (mx % 128), 'maxlen': mx, 'data': None, 'kind': 'bytes'})
        cases.append({'cls': (mx + 5) % ncls, 'pc': 1, 'maxlen': mx, 'data': data_of((mx * 3) % 700 + 1),
                      'kind': ('bytes', 'bytesio')[mx % 2]})
    # all 23 classes x small limits
    for c in range(ncls):
        for mx in (7, 8, 9, 16, 64, 0):
            cases.append({'cls': c, 'pc': 5, 'maxlen': mx, 'data': data_of(11), 'kind': 'bytes'})
    # powers of two and neighbours, and 0 = no limit
    for e in list(range(3, 33)):
        for d in (-1, 0, 1):
            mx = 2 ** e + d
            if 7 <= mx <= 2 ** 32 - 1:
                n = rnd.choice([1, 5, 70, 300])
                cases.append({'cls': e % ncls, 'pc': 1, 'maxlen': mx, 'data': data_of(n), 'kind': 'bytes'})
    for n in (1, 65529, 65530, 65531, 131060, 131061):
        cases.append({'cls': 0, 'pc': 1, 'maxlen': 0, 'data': data_of(n), 'kind': 'bytes'})
        cases.append({'cls': 0, 'pc': 1, 'maxlen': 65536, 'data': data_of(n), 'kind': 'bytesio'})
    # seeded random
    for _ in range(300 if tier == 'quick' else 5000):
        mx = rnd.choice([rnd.randrange(7, 64), rnd.randrange(64, 2000), 0, 16384])
        n = rnd.choice([None, rnd.randrange(1, 50), rnd.randrange(1, 5000)])
        cases.append({'cls': rnd.randrange(ncls), 'pc': rnd.randrange(1, 256), 'maxlen': mx,
                      'data': None if n is None else data_of(n), 'kind': rnd.choice(['bytes', 'bytesio'])})
    return cases


def run(chk):
    chk.rule = ('real Association.send -> DIMSEMessage.encode on generated messages, each P-DATA-TF re-read by an '
                'independent parser and judged by the C06 statements (oracle), and compared fragment by fragment with '
                'the Lean model encodeMsg/encodeMsgFile through the driver; grid: every fragment size k=1..%s x every '
                'data length 1..4k+2, every maximum length 7..300 with and without data set, 2^e and 2^e+-1 up to '
                '2^32-1, 0 (no limit), all 23 classes, contexts 1..255, data as bytes / BytesIO / temp file; '
                'file-like data positioned behind a prefix; the message object changed between send() and consumption; '
                'non-trivial = more than one fragment in the stream') % (40 if chk.tier == 'quick' else 120)
    chk.trusted += ['harness/c06.py oracle and msgs.parse_pdata (independent P-DATA-TF reader)',
                    'pydicom write_dataset (command set bytes are an input to the model)']
    cases = gen_cases(chk, chk.tier)
    ops, got, keep = [], [], []
    for case in cases:
        try:
            fail, op, g = run_case(case)
        except Exception as e:  # pylint: disable=broad-except
            fail, op, g = 'encoder raised %r' % (e,), None, None
        nfrag = len(g.split()) if g else 0
        chk.case(repr(sorted(case.items())), nfrag > 2,
                 dict(case, data=(case['data'] or '')[:16] + '..' if case['data'] else None, fragments=nfrag))
        chk.count('kind:' + case['kind']); chk.count('fragments:%s' % ('1-2' if nfrag <= 2 else '3-9' if nfrag < 10 else '10+'))
        if fail:
            chk.violation('C06:' + fail[:40], '%s  [class %s pc=%d max=%d data=%s bytes as %s]' % (
                fail, msgs.classes()[case['cls']].__name__, case['pc'], case['maxlen'],
                'no' if case['data'] is None else len(case['data']) // 2, case['kind']), case)
        if op is not None:
            ops.append(op); got.append(g); keep.append(case)
    want = common.driver(ops)
    # where the implementation's stream is not the one with the largest fragments: C06 leaves the fragment size free, so the
    # stream is compared with the model at the size the implementation uses (encodeMsgN; its theorems hold for every size)
    other = [(case, op, g) for case, op, w, g in zip(keep, ops, want, got) if w != g]
    ops2, keep2 = [], []
    for case, op, g in other:
        sizes = [len(x.split('.')[2]) // 2 if x.split('.')[2] != '-' else 0 for x in g.split()]
        n = max(sizes) if sizes else 0
        eff = case['maxlen'] or int(common.driver(['ping']) and __import__('pynetdicom2').dimsemessages.DEFAULT_MAX_PDU_LENGTH)
        if n < 1 or n + 6 > eff:
            chk.broke('correspondence encodeMsg', 'no fragment size fits: largest fragment %d, maximum %d' % (n, eff), case)
            break
        f = op.split(' ')
        ops2.append('fragn %s %s %d %s %s' % (f[1], f[2], n, f[4], f[5])); keep2.append((case, g, n))
    for (case, g, n), w in zip(keep2, common.driver(ops2)):
        chk.count('fragment-size-other-than-largest')
        if w != g:
            chk.broke('correspondence encodeMsg', 'at fragment size %d: model %s...\nimpl  %s...' % (n, w[:200], g[:200]), case)
            break
    chk.lean(['Dicom.Props.C06'])
