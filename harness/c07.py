"""C07 — DIMSE reassembly under any PDV grouping: Lean theorem + correspondence + oracle."""
import io
import itertools

from . import common, msgs


def compositions(n):
    """all ways to cut a list of n items into consecutive non-empty groups (as lists of sizes)"""
    for mask in range(2 ** (n - 1)):
        sizes, run = [], 1
        for i in range(n - 1):
            if mask >> i & 1:
                sizes.append(run); run = 1
            else:
                run += 1
        sizes.append(run)
        yield sizes


def build(case):
    """message, its real fragments (PDV items) and expected content"""
    import pydicom
    from pydicom import uid
    from pynetdicom2 import dsutils
    rnd = common.rng('c07-msg-%d' % case['cls'])
    cls = msgs.classes()[case['cls']]
    m = msgs.fill(cls(), rnd, uid_len=case.get('uid_len', 18), ids=9)
    if case.get('sparse'):
        # a peer that leaves out optional elements this library's own constructors always emit: the message must be
        # handed on as it was sent
        optional = [t for t in (0x00000600, 0x00000700, 0x00001000, 0x00001001, 0x00001002, 0x00001005, 0x00001008, 0x00001020,
                                0x00001021, 0x00001022, 0x00001023, 0x00001030, 0x00001031, 0x00000003)
                    if t in m.command_set]
        for k, t in enumerate(optional):
            if (k + case['sparse']) % 2:
                del m.command_set[t]
    data = None
    ts = [uid.ImplicitVRLittleEndian, uid.ExplicitVRLittleEndian, uid.ExplicitVRBigEndian][case.get('ts', 0)]
    if case['data'] is not None:
        if case.get('file'):
            ds = pydicom.Dataset()
            ds.PatientName = 'P' * case['data']
            ds.PatientID = 'ID%d' % case['data']
            ds.SOPInstanceUID = '1.2.3.4'
            data = dsutils.encode(ds, ts.is_implicit_VR, ts.is_little_endian)
        else:
            data = bytes((i * 5 + 1) % 256 for i in range(case['data']))
        m.data_set = data
    pdus = msgs.send_via_association(m, case['pc'], case['maxlen'])
    items = [it for p in pdus for it in p.data_value_items]
    return m, items, msgs.encoded_command_set(m), data, ts


def verify(case, m, cmd, data, ts, msg, pc_id, sizes):
    """the reassembled message against what was sent; returns a failure text or None"""
    import pydicom
    want_cls = type(m)          # the class the message was built from (its command_field is in the command set)
    if type(msg) is not want_cls:
        return 'reassembled as %s, command field %#06x is %s' % (type(msg).__name__, m.command_field, want_cls.__name__)
    if pc_id != case['pc']:
        return 'presentation context %r, sent on %d' % (pc_id, case['pc'])
    if msgs.encoded_command_set(msg) != cmd:
        return 'command set differs after reassembly'
    got = msg.data_set
    if case.get('file') and data is not None:
        if not hasattr(got, 'read'):
            return 'SOP class configured for file storage but the data set was kept in memory'
        content = got.read()
        got.close()
        try:
            ds = pydicom.dcmread(io.BytesIO(content))
        except Exception as e:  # pylint: disable=broad-except
            return 'file handed to the application is not a readable DICOM file: %r' % (e,)
        if ds.file_meta.TransferSyntaxUID != ts:
            return 'file meta transfer syntax %s, negotiated %s' % (ds.file_meta.TransferSyntaxUID, ts)
        if not content.endswith(data) or len(content) - len(data) < 132:
            return ('file data set is not the transmitted bytes (%d bytes sent, file has %d after the header, grouping %r)'
                    % (len(data), len(content) - 132, sizes))
        from pynetdicom2 import dsutils
        if dsutils.encode(ds, ts.is_implicit_VR, ts.is_little_endian) != data:
            return 'data set read back from the file differs from the transmitted one'
        got_bytes = data
    else:
        got_bytes = got if got is not None else None
        if (got_bytes or b'') != (data or b''):
            return 'data set bytes differ after reassembly (grouping %r)' % (sizes,)
    return None


def run_grouping(case, m, items, cmd, data, ts, sizes):
    """feed the real decoder; returns (failure or None, impl trace text)"""
    from pynetdicom2 import fsm, pdu, asceprovider as ap, applicationentity as aem, dimsemessages as dm
    import pydicom
    sop = m.sop_class_uid
    store = frozenset([sop]) if case.get('file') else frozenset()
    ae = aem.AEBase(None, 65536)
    dec = fsm.DIMSEDecoder({case['pc']: ap.PContextDef(case['pc'], sop, ts)}, store, ae.get_file)
    pos, trace = 0, []
    groups = []
    for k, sz in enumerate(sizes):
        grp = items[pos:pos + sz]; pos += sz
        groups.append(grp)
        wire = pdu.PDataTfPDU(grp).encode()
        p = pdu.PDataTfPDU.decode(wire)
        try:
            dec.process(p)
        except Exception as e:  # pylint: disable=broad-except
            return 'decoder raised %r at PDU %d of grouping %r' % (e, k + 1, sizes), 'error'
        last = k == len(sizes) - 1
        if dec.receiving == last:
            return ('completion signalled %s: receiving=%s after PDU %d of %d (grouping %r)'
                    % ('too late' if last else 'too early', dec.receiving, k + 1, len(sizes), sizes)), 'x'
        trace.append('recv' if dec.receiving else 'done')
    fail = verify(case, m, cmd, data, ts, dec.msg, dec.pc_id, sizes)
    if fail:
        return fail, 'x'
    final = 'recv=false cmdDone=true dataDone=%s pc=%d cmd=%s data=%s' % (
        'true' if data else 'false', dec.pc_id, cmd.hex(), (data or b'').hex())
    return None, ' '.join(trace[:-1] + ['done ' + final])


def machine_case(case):
    """several messages in a row through the REAL provider loop and state machine (DT-2 in Sta6, AR-6 in Sta7):
    every message must be indicated exactly at the pass that processes its last PDU, intact, and the next one
    must start from a clean decoder.  Returns a failure text or None."""
    from pynetdicom2 import pdu, asceprovider as ap, applicationentity as aem
    from . import s2, scen
    built = [build(c) for c in case['msgs']]
    ae = aem.AEBase(None, 65536)
    store = frozenset(b[0].sop_class_uid for c, b in zip(case['msgs'], built) if c.get('file'))
    s2.install()
    s2.Clock.now = 1000.0
    if case['role'] == 'acc':
        p, sock = s2.acceptor(store_in_file=store, get_file_cb=ae.get_file)
        p.step()
        sock.feed(scen.rq_pdu().encode()); p.step(); p.drain_user()
        p.send(scen.ac_pdu()); p.step()
    else:
        p = s2.requester(store_in_file=store, get_file_cb=ae.get_file)
        p.send(scen.rq_pdu()); p.step()
        sock = s2.LAST['sock']
        p.step()
        sock.feed(scen.ac_pdu().encode()); p.step(); p.drain_user()
    if p.state != 6:
        return 'harness could not establish the association (Sta%d)' % p.state
    p.accepted_contexts = {c['pc']: ap.PContextDef(c['pc'], b[0].sop_class_uid, b[4]) for c, b in zip(case['msgs'], built)}
    if case['state'] == 7:
        p.send(pdu.AReleaseRqPDU()); p.step()
        if p.state != 7:
            return 'harness could not reach Sta7 (Sta%d)' % p.state
    del sock.sent[:]
    # the PDUs of all messages, each tagged with (message index, is last PDU of its message)
    plan = []
    for i, (c, b, sizes) in enumerate(zip(case['msgs'], built, case['sizes'])):
        items, pos = b[1], 0
        for k, sz in enumerate(sizes):
            plan.append((i, k == len(sizes) - 1, pdu.PDataTfPDU(items[pos:pos + sz]).encode()))
            pos += sz
    if case['burst']:
        sock.feed(b''.join(x[2] for x in plan))
    done = 0
    for n, (i, last, raw) in enumerate(plan):
        if not case['burst']:
            sock.feed(raw)
        e = p.step()
        if e is not None:
            return 'provider loop died at PDU %d: %r' % (n + 1, e)
        got = p.drain_user()
        where = 'PDU %d (message %d of %d, %s) in Sta%d' % (n + 1, i + 1, len(built), 'its last' if last else 'not its last', case['state'])
        if sock.sent:
            return 'provider sent %s after %s' % (sock.sent[0][:10].hex(), where)
        if p.state != case['state']:
            return 'state Sta%d after %s' % (p.state, where)
        if last != (len(got) == 1) or len(got) > 1:
            return '%d indication(s) after %s' % (len(got), where)
        if last:
            msg, pc_id = got[0]
            m, _, cmd, data, ts = built[i]
            f = verify(case['msgs'][i], m, cmd, data, ts, msg, pc_id, case['sizes'][i])
            if f:
                return 'message %d of %d in Sta%d: %s' % (i + 1, len(built), case['state'], f)
            done += 1
    for _ in range(2):
        p.step()
    if p.drain_user():
        return 'extra indication after the last message'
    return None


def machine_cases(rnd, tier):
    ncls = len(msgs.classes())
    names = [k.__name__ for k in msgs.classes()]
    echo, find_rsp, store = names.index('CEchoRQMessage'), names.index('CFindRSPMessage'), names.index('CStoreRQMessage')
    seqs = [
        [{'cls': echo, 'pc': 1, 'maxlen': 0, 'data': None}] * 2,
        [{'cls': find_rsp, 'pc': 5, 'maxlen': 60, 'data': 30 + 7 * k} for k in range(4)],
        [{'cls': store, 'pc': 7, 'maxlen': 64, 'data': 20, 'file': True, 'ts': 0}, {'cls': store, 'pc': 7, 'maxlen': 64, 'data': 3, 'file': True, 'ts': 0}],
        [{'cls': store, 'pc': 9, 'maxlen': 50, 'data': 90, 'file': True, 'ts': 2}, {'cls': echo, 'pc': 1, 'maxlen': 30, 'data': None},
         {'cls': find_rsp, 'pc': 5, 'maxlen': 44, 'data': 61},
         {'cls': store, 'pc': 7, 'maxlen': 70, 'data': 40, 'file': True, 'ts': 1}],
        [{'cls': (3 * k + 1) % ncls, 'pc': 11 + 2 * k, 'maxlen': 40, 'data': (None, 25)[k % 2]} for k in range(3)],
    ]
    out = []
    for state in (6, 7):
        for role in ('acc', 'req'):
            for si, seq in enumerate(seqs):
                ns = [len(build(c)[1]) for c in seq]
                groupings = [[[1] * n for n in ns], [[n] for n in ns]]
                for _ in range(2 if tier == 'quick' else 12):
                    g = []
                    for n in ns:
                        cuts = sorted(rnd.sample(range(1, n), rnd.randrange(0, min(n - 1, 4) + 1))) if n > 1 else []
                        g.append([b - a for a, b in zip([0] + cuts, cuts + [n])])
                    groupings.append(g)
                for g in groupings:
                    for burst in (False, True):
                        out.append({'machine': True, 'state': state, 'role': role, 'msgs': seq, 'sizes': g, 'burst': burst})
    return out


def model_op(case, items, data, sizes):
    pos, gs = 0, []
    for sz in sizes:
        grp = items[pos:pos + sz]; pos += sz
        gs.append(','.join('%d.%d.%s' % (it.context_id, it.data_value[0], it.data_value[1:].hex() or '-') for it in grp))
    return 'dec %d %s' % (0 if data else 1, ' '.join(gs))


def replay(case):
    if case.get('machine'):
        return machine_case(case)
    m, items, cmd, data, ts = build(case)
    fail, _ = run_grouping(case, m, items, cmd, data, ts, case['sizes'])
    return fail


def run(chk):
    tier = chk.tier
    chk.rule = ('real encoder output (C06) regrouped into P-DATA-TF PDUs, sent through PDataTfPDU.encode/decode and fed '
                'to the real DIMSEDecoder: ALL 2^(n-1) compositions for fragment lists up to n=%d, seeded random '
                'compositions beyond; in memory and file-backed (AEBase.get_file, file re-read with pydicom.dcmread); '
                'all 23 command fields; receiving checked after every PDU; traces compared with the Lean model Dec.run; '
                'sequences of 2-4 messages back to back through the real provider loop in Sta6 (DT-2) and Sta7 (AR-6), both '
                'roles, one PDU per segment and everything in one burst: one indication exactly at each last PDU; '
                'non-trivial = grouping with at least one PDU carrying several PDVs' % (8 if tier == 'quick' else 12))
    chk.trusted += ['harness/c07.py oracle', 'pydicom dcmread / write_file_meta_info (file readability)']
    chk.assumptions += ['the command-set decoder (pydicom) is a parameter of the model: noDs is the flag the sender set']
    rnd = common.rng('c07')
    nmax = 8 if tier == 'quick' else 12
    ncls = len(msgs.classes())
    cases = []
    for c in range(ncls):
        cases.append({'cls': c, 'pc': 1 + 2 * c, 'maxlen': 30, 'data': None})            # several command fragments
        cases.append({'cls': c, 'pc': 255 - 2 * c, 'maxlen': 0, 'data': 5})
        cases.append({'cls': c, 'pc': 5, 'maxlen': 0, 'data': None, 'sparse': 1})
        cases.append({'cls': c, 'pc': 9, 'maxlen': 38, 'data': 12, 'sparse': 2})
        cases.append({'cls': c, 'pc': 3, 'maxlen': 40 + c, 'data': 37 + c})
        cases.append({'cls': c, 'pc': 11, 'maxlen': 46, 'data': 85})
    store = [i for i, k in enumerate(msgs.classes()) if k.__name__ == 'CStoreRQMessage'][0]
    for mx, n, ts in ((64, 10, 0), (50, 60, 1), (128, 200, 2), (0, 30, 0), (70, 40, 1), (90, 1, 0)):
        cases.append({'cls': store, 'pc': 7, 'maxlen': mx, 'data': n, 'file': True, 'ts': ts})
    for k in (1, 2, 3, 7):
        for n in (k - 1, k, k + 1, 2 * k, 2 * k + 1, 3 * k):
            if n >= 1:
                cases.append({'cls': (k + n) % ncls, 'pc': 9, 'maxlen': 60 + k, 'data': n * 10})
    ops, got, keep = [], [], []
    for case in cases:
        m, items, cmd, data, ts = build(case)
        n = len(items)
        if n == 0:
            # nothing to regroup: the encoder (C06) produced no fragment at all for this message
            chk.broke('precondition: the encoder produced no fragments', 'class %s, maximum length %d' % (
                msgs.classes()[case['cls']].__name__, case['maxlen']), case)
            continue
        if n <= nmax:
            groupings = list(compositions(n))
        else:
            groupings = [[1] * n, [n]]
            for _ in range(40 if tier == 'quick' else 3000):
                cuts = sorted(rnd.sample(range(1, n), rnd.randrange(1, min(n - 1, 12) + 1)))
                groupings.append([b - a for a, b in zip([0] + cuts, cuts + [n])])
        for sizes in groupings:
            try:
                fail, tr = run_grouping(case, m, items, cmd, data, ts, sizes)
            except Exception as e:  # pylint: disable=broad-except
                fail, tr = 'harness error %r' % (e,), 'x'
            key = dict(case, sizes=sizes)
            chk.case(repr(sorted(key.items(), key=str)), max(sizes) > 1,
                     {'class': msgs.classes()[case['cls']].__name__, 'fragments': n, 'grouping': sizes,
                      'file': bool(case.get('file'))})
            chk.count('file' if case.get('file') else 'memory'); chk.count('n=%s' % (n if n < 10 else '10+'))
            if fail:
                chk.violation('C07:' + fail[:30], '%s  [%s pc=%d max=%d]' % (
                    fail, msgs.classes()[case['cls']].__name__, case['pc'], case['maxlen']), key)
            else:
                ops.append(model_op(case, items, data, sizes)); got.append(tr); keep.append(key)
    want = common.driver(ops)
    for key, w, g in zip(keep, want, got):
        if w != g:
            chk.broke('correspondence Dec.run', 'model %s\nimpl  %s' % (w[:300], g[:300]), key)
            break
    # several messages in a row through the real loop and state machine, in Sta6 (DT-2) and Sta7 (AR-6)
    for mc in machine_cases(rnd, tier):
        try:
            fail = machine_case(mc)
        except Exception as e:  # pylint: disable=broad-except
            common.raise_for(common.describe_exc(e))
        chk.case(repr(mc), True, {'through': 'provider loop', 'state': mc['state'], 'role': mc['role'], 'messages': len(mc['msgs']),
                                  'burst': mc['burst']} if mc['burst'] and len(mc['msgs']) > 2 and mc['state'] == 7 and len(chk.samples) < 12 else None)
        chk.count('machine:Sta%d' % mc['state']); chk.count('machine:messages=%d' % len(mc['msgs']))
        if fail:
            chk.violation('C07:machine:' + fail[:24], fail, mc)
    from . import extract
    rows, changed = extract.gen_message_types()
    chk.extra['message_types_generated_changed'] = changed
    chk.lean(['Dicom.Props.C07'])
