"""C08 — transmitted command sets are well formed: Lean theorems + correspondence + spec-reader oracle."""
from . import common, msgs, extract


def elems_of(msg):
    """[(tag int, value bytes)] in insertion order, header of pydicom's element encoding verified"""
    from pynetdicom2 import dsutils
    out = []
    for e in msg.command_set.values():
        raw = dsutils.encode_element(e, True, True)
        tag = (e.tag.group << 16) | e.tag.element
        hdr = e.tag.group.to_bytes(2, 'little') + e.tag.element.to_bytes(2, 'little') + (len(raw) - 8).to_bytes(4, 'little')
        if raw[:8] != hdr:
            raise ValueError('pydicom element header %s for tag %08x' % (raw[:8].hex(), tag))
        out.append((tag, raw[8:]))
    return out


def value_bytes(msg, tag):
    from pynetdicom2 import dsutils
    return dsutils.encode_element(msg.command_set[tag], True, True)[8:]


def play(case):
    """run one history on a real message object; returns (sends, model line, expected cf)"""
    cls = msgs.classes()[case['cls']]
    rnd = common.rng('c08-%r' % (case['seed'],))
    m = msgs.fill(cls(), rnd, uid_len=case['uid_len'], ids=case['ids'])
    for tag in case.get('unset', ()):
        # optional fields the application never set keep the constructor's empty value
        if tag in m.command_set:
            m.command_set[tag].value = ''
    init = elems_of(m)
    ops, sends = [], []
    queued = []

    def drain():
        # the provider thread gets round to what was queued only now - after the application has gone on changing the
        # message object: what goes out must be the message as it was when send() was called
        while queued:
            pdus = list(queued.pop(0))
            cmd = b''.join(it.data_value[1:] for p in pdus for it in p.data_value_items if it.data_value[0] in (1, 3))
            dfr = ['%d.%d.%s' % (it.context_id, it.data_value[0], it.data_value[1:].hex()) for p in pdus
                   for it in p.data_value_items if it.data_value[0] in (0, 2)]
            sends.append((cmd, dfr))
    for op in case['ops']:
        if op[0] == 'send':
            drain()
            a = msgs.stub_association(op[2])
            a.send(m, op[1])
            queued.append(a.dul.sent[0])
            ops.append('S:%d:%d' % (op[1], op[2]))
        elif op[0] == 'data':
            v = None if op[1] is None else bytes.fromhex(op[1])
            m.data_set = v
            ops.append('D:none' if v is None else 'D:%s' % (v.hex() or '-'))
        elif op[0] == 'field':
            tag = op[1]
            if tag not in m.command_set:
                continue            # this message type has no such field
            elem = m.command_set[tag]
            if op[2] == 0:
                elem.value = ''     # the field is unset again
            elif elem.VR == 'UI':
                elem.value = msgs.uid_of_len(op[2], rnd)
            elif elem.VR == 'US':
                elem.value = op[2] % 65536
            else:
                continue
            ops.append('F:%d:%s' % (tag, value_bytes(m, tag).hex() or '-'))
    drain()
    line = 'msg-run none %s -- %s' % (' '.join('%d:%s' % (t, v.hex() or '-') for t, v in init), ' '.join(ops))
    return sends, line, cls.__name__


def oracle(sends, views, want_cf):
    for k, ((cmd, dfr), view) in enumerate(zip(sends, views)):
        if not view.startswith('ok '):
            return 'send #%d: command set is not a well-formed implicit-VR-LE command group' % (k + 1)
        f = dict(x.split('=') for x in view.split()[1:])
        if f['gl'] != f['follow']:
            return 'send #%d: Command Group Length says %s but %s bytes follow' % (k + 1, f['gl'], f['follow'])
        if f['asc'] != 'true' or f['g0'] != 'true':
            return 'send #%d: elements not in ascending tag order within group 0000' % (k + 1)
        if f['cf'] != want_cf:
            return 'send #%d: Command Field %s, PS3.7 code of the message type is %s' % (k + 1, f['cf'], want_cf)
        if (f['ds'] == str(0x0101)) != (len(dfr) == 0):
            return ('send #%d: Command Data Set Type %#06x but %d data set fragments follow'
                    % (k + 1, int(f['ds']), len(dfr)))
    return None


def replay(case):
    sends, line, name = play(case)
    views = common.driver(['spec-cmd ' + c.hex() for c, _ in sends])
    cf = common.driver(['cf-of ' + name])[0]
    return oracle(sends, views, cf)


def gen_cases(tier, rnd):
    ncls = len(msgs.classes())
    cases = []
    seed = 0
    # every class x every UID length 1..64 (odd/even padding) x boundary ids, one send
    for c in range(ncls):
        for ul in range(1, 65):
            if tier == 'quick' and (ul + c) % 4 and ul not in (1, 2, 63, 64):
                continue
            ids = [0, 1, 255, 256, 65535][(ul + c) % 5]
            seed += 1
            cases.append({'cls': c, 'uid_len': ul, 'ids': ids, 'seed': seed,
                          'ops': [['send', 1 + 2 * (ul % 128), 16384]]})
    # histories: the same object sent 1..4 times with changing fields and data sets
    for c in range(ncls):
        for h in range(6 if tier == 'quick' else 300):
            seed += 1
            ops = []
            nsend = rnd.randrange(1, 5)
            for k in range(nsend):
                for _ in range(rnd.randrange(0, 3)):
                    tag = rnd.choice([0x00000002, 0x00000003, 0x00000110, 0x00000120, 0x00000900, 0x00001000,
                                      0x00001020, 0x00001021])
                    ops.append(['field', tag, rnd.choice([0, 1, 2, 17, 18, 64, rnd.randrange(1, 65)])])
                r = rnd.random()
                if r < 0.3:
                    ops.append(['data', bytes(rnd.randrange(256) for _ in range(rnd.choice([1, 2, 30, 200]))).hex()])
                elif r < 0.45:
                    ops.append(['data', None])
                elif r < 0.55:
                    ops.append(['data', ''])
                ops.append(['send', rnd.choice([1, 3, 255]), rnd.choice([0, 16384, 64, 30])])
            cases.append({'cls': c, 'uid_len': rnd.randrange(1, 65), 'ids': rnd.randrange(65536), 'seed': seed, 'ops': ops,
                          'unset': sorted(t for t in (0x00000002, 0x00000003, 0x00000110, 0x00000120, 0x00000600, 0x00000700,
                                                      0x00001000, 0x00001001, 0x00001002, 0x00001005, 0x00001008,
                                                      0x00001030, 0x00001031) if rnd.random() < 0.3)})
    # the C-FIND / C-MOVE provider patterns, and set-then-unset
    for c in range(ncls):
        seed += 1
        cases.append({'cls': c, 'uid_len': 17, 'ids': 3, 'seed': seed, 'ops': [
            ['data', '0800050002000000' + '4141'], ['send', 1, 16384], ['field', 0x00000900, 0xFF00], ['send', 1, 16384],
            ['data', ''], ['send', 1, 16384], ['data', None], ['field', 0x00000900, 0], ['send', 1, 16384]]})
        seed += 1
        cases.append({'cls': c, 'uid_len': 16, 'ids': 3, 'seed': seed, 'ops': [
            ['send', 1, 16384], ['field', 0x00000002, 33], ['field', 0x00001000, 64], ['send', 1, 16384], ['send', 1, 16384]]})
    return cases


def run(chk):
    chk.rule = ('all 23 message classes x UID lengths 1..64 x boundary ids, and histories of field changes / data set '
                'set, replaced, emptied, removed / optional fields set, left unset and unset again / 1..4 sends of the same object, executed on real message objects through '
                'the real Association.send; every transmitted command set read by the strict Lean reader (driver op '
                'spec-cmd: group length = bytes that follow, ascending tags, command field = PS3.7 code, data-set type '
                '<-> data fragments) and compared byte for byte with the Lean model Msg.run; non-trivial = histories '
                'with more than one send or a data-set change')
    chk.trusted += ['pydicom element value encoding (an input to the model); element headers are verified by the harness',
                    'Dicom/Spec/CmdSetGrammar.lean strict reader (PS3.5 7.1, PS3.7 6.3)']
    rnd = common.rng('c08')
    cases = gen_cases(chk.tier, rnd)
    lines, all_sends, names, keep = [], [], [], []
    for case in cases:
        try:
            sends, line, name = play(case)
        except Exception as e:  # pylint: disable=broad-except
            chk.violation('C08:raised', 'history raised %r' % (e,), case)
            continue
        nsend = len(sends)
        chk.case(repr(case), nsend > 1 or any(o[0] == 'data' for o in case['ops']),
                 {'class': name, 'ops': [o[0] if o[0] != 'field' else 'field %08x' % o[1] for o in case['ops']][:12]})
        chk.count('sends:%d' % nsend)
        lines.append(line); all_sends.append(sends); names.append(name); keep.append(case)
    views = common.driver(['spec-cmd ' + c.hex() for sends in all_sends for c, _ in sends])
    cfs = dict(zip(sorted(set(names)), common.driver(['cf-of ' + n for n in sorted(set(names))])))
    model = common.driver(lines)
    pos = 0
    broke = False
    for case, sends, name, mline in zip(keep, all_sends, names, model):
        v = views[pos:pos + len(sends)]; pos += len(sends)
        fail = oracle(sends, v, cfs[name])
        if fail:
            chk.violation('C08:' + fail.split(':')[1][:30], '%s  [%s]' % (fail, name), case)
        got = ' | '.join('cmd=%s data=%s' % (c.hex(), ' '.join(d)) for c, d in sends)
        if got != mline and not broke and not fail:
            broke = True
            chk.broke('correspondence Msg.run', 'class %s\nmodel %s\nimpl  %s' % (name, mline[:300], got[:300]), case)
    rows, changed = extract.gen_message_classes()
    chk.extra['message_classes_generated_changed'] = changed
    chk.lean(['Dicom.Props.C08'])
