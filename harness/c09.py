"""C09 — the acceptor answers every proposed presentation context correctly."""
import itertools
import multiprocessing
import os
import types

from . import common, msgs

ABS = ['1.2.840.10008.1.1', '1.2.840.10008.5.1.4.1.1.2', '1.2.840.10008.5.1.4.1.1.7']     # A1, A2 may be served; A3 never
TS = ['1.2.840.10008.1.2', '1.2.840.10008.1.2.1', '1.2.840.10008.1.2.2', '1.2.840.10008.1.2.4.50']


def h(u):
    return u.encode().hex() or '-'


def echo_fields(ctxs):
    """AE titles and application context name of the request, varied with the request (the reply must repeat them)"""
    k = sum(c[0] for c in ctxs) + len(ctxs)
    called = ['SRV', 'S', 'SIXTEEN_CHARS_AE', 'A B'][k % 4]
    calling = ['CLI', 'SIXTEEN_CHARS_XX', 'C', 'X_1'][(k // 4) % 4]
    appctx = ['1.2.840.10008.3.1.1.1', '1.2.840.10008.3.1.1.1', '1.2.826.0.1.3680043.2.1', '1.2.3'][(k // 2) % 4]
    return called, calling, appctx


def build_rq(ctxs, called='SRV', calling='CLI', appctx='1.2.840.10008.3.1.1.1'):
    from pynetdicom2 import pdu, userdataitems as ud
    items = [pdu.ApplicationContextItem(appctx)]
    for cid, a, tss in ctxs:
        items.append(pdu.PresentationContextItemRQ(cid, pdu.AbstractSyntaxSubItem(a), [pdu.TransferSyntaxSubItem(t) for t in tss]))
    items.append(pdu.UserInformationItem([ud.MaximumLengthSubItem(16384), ud.ImplementationClassUIDSubItem('1.2.3')]))
    return pdu.AAssociateRqPDU(called, calling, items)


def run_accept(served, supported, ctxs):
    """real accept() on the wire-decoded request; returns observations"""
    from pynetdicom2 import pdu, asceprovider as ap, exceptions
    calls = []

    def service(asce, ctx, msg):
        calls.append((ctx.id, str(ctx.sop_class), str(ctx.supported_ts)))
    # the entity is configured the way an application does it: the real constructor and the real add_scp
    from pynetdicom2 import applicationentity as aem
    ae = aem.AEBase(list(supported), 16384)
    ae.timeout = 1
    service.sop_classes = list(served)
    if served:
        aem.AE.add_scp(ae, service)
    # every other entity also *uses* (SCU role) the classes it does not serve: that must not make it serve them
    used = sorted(set(a for _, a, _ in ctxs if a not in served))
    if used and (len(ctxs) + len(served)) % 2 == 0:
        def user_service(asce, ctx, *a):
            calls.append(('scu', str(ctx.sop_class)))
        user_service.sop_classes = used
        ae.add_scu(user_service)
    acc = msgs.real_acceptor(ae)          # the real __init__: a new acceptor per association, as the server does
    rq = pdu.AAssociateRqPDU.decode(build_rq(ctxs, *echo_fields(ctxs)).encode())
    acc.accept(rq)
    ac = pdu.AAssociateAcPDU.decode(acc.dul.sent[-1].encode())
    reported = [(i.context_id, i.result_reason, str(i.ts_sub_item.name)) for i in ac.variable_items[1:-1]]
    table = sorted((k, str(v[1]), str(v[2])) for k, v in acc.sop_classes_as_scp.items())
    acctx = sorted((k, str(v.sop_class), str(v.supported_ts)) for k, v in acc.accepted_contexts.items())
    # which contexts does the message loop actually serve?
    served_ids = []
    from . import scen
    for cid, a, _ in ctxs:
        m = scen.echo_rq(1)
        m.sop_class_uid = a
        feed = iter([(m, cid)])

        def receive():
            try:
                return next(feed)
            except StopIteration:
                acc.is_killed = True
                raise exceptions.DCMTimeoutError()
        acc.receive = receive
        acc.is_killed = False
        del calls[:]
        try:
            acc._loop()
        except exceptions.ClassNotSupportedError:
            pass
        except exceptions.DCMTimeoutError:
            pass
        if calls:
            served_ids.append((cid,) + calls[0][1:])
    return {'reported': reported, 'table': table, 'acctx': acctx, 'served': served_ids,
            'titles': (ac.called_ae_title, ac.calling_ae_title), 'appctx': str(ac.variable_items[0].context_name)}


def oracle(served, supported, ctxs, o):
    rep = o['reported']
    if [r[0] for r in rep] != [c[0] for c in ctxs]:
        return 'contexts answered %r, proposed %r (each once, same id, same order)' % ([r[0] for r in rep], [c[0] for c in ctxs])
    for (cid, a, tss), (rid, res, ts) in zip(ctxs, rep):
        should = a in served and any(t in supported for t in tss)
        if (res == 0) != should:
            return 'context %d (%s, %r): result %d, but served=%s and a common transfer syntax %s' % (
                cid, a, tss, res, a in served, 'exists' if any(t in supported for t in tss) else 'does not exist')
        if res == 0 and (ts not in tss or ts not in supported):
            return 'context %d accepted with transfer syntax %s, which is not both proposed %r and supported %r' % (cid, ts, tss, sorted(supported))
    ids = [c[0] for c in ctxs]
    if len(set(ids)) == len(ids):
        want = sorted((cid, a, ts) for (cid, a, tss), (rid, res, ts) in zip(ctxs, rep) if res == 0)
        if o['table'] != want:
            return 'contexts the acceptor will serve %r differ from those it reported as accepted %r' % (o['table'], want)
        if sorted(o['served']) != want:
            return 'contexts actually dispatched to a service %r differ from those reported as accepted %r' % (sorted(o['served']), want)
    called, calling, appctx = echo_fields(ctxs)
    if o['titles'] != (called, calling) or o['appctx'] != appctx:
        return ('reply does not repeat the AE titles / application context of the request: %r %r (request: %r %r)'
                % (o['titles'], o['appctx'], (called, calling), appctx))
    return None


def one(args):
    served, supported, ctxs = args
    try:
        o = run_accept(served, supported, ctxs)
    except Exception as e:  # pylint: disable=broad-except
        return 'accept raised %r' % (e,), None
    model = '%s | %s' % (';'.join('%d:%d:%s' % (i, r, h(t)) for i, r, t in o['reported']),
                         ';'.join('%d:%s:%s' % (i, h(a), h(t)) for i, a, t in sorted(o['table'])))
    return oracle(served, supported, ctxs, o), model


def replay(case):
    v, _ = one((tuple(case['served']), tuple(case['supported']), [tuple([c[0], c[1], tuple(c[2])]) for c in case['ctxs']]))
    return v


def run(chk):
    tier = chk.tier
    rnd = common.rng('c09')
    chk.rule = ('real AssociationAcceptor.accept on wire-decoded requests, exhaustively over a small universe: 0..2 proposed '
                'contexts, abstract syntax from {served-able A1, A2, never served A3}, every ordered list of 1..3 transfer '
                'syntaxes out of 4 (40 lists), against configurations (subsets of {A1,A2} served x subsets of the 4 transfer '
                'syntaxes); larger seeded requests (3..8 contexts, duplicate ids, 5..20 syntaxes); the reply is re-read from '
                'its wire form, the served table and the real message loop dispatch are compared with what was reported, and '
                'everything is diffed with the Lean model accept; non-trivial = requests with at least one context')
    ts_lists = [l for n in (1, 2, 3) for l in itertools.permutations(TS, n)]
    ctx_choices = [(a, l) for a in ABS for l in ts_lists]
    servs = [(), (ABS[0],), (ABS[1],), (ABS[0], ABS[1])]
    sups = [(), (TS[0],), (TS[1], TS[2]), (TS[0], TS[3]), tuple(TS)] if tier == 'quick' else \
        [tuple(c) for n in range(5) for c in itertools.combinations(TS, n)]
    reqs = [[]] + [[(1, a, l)] for a, l in ctx_choices]
    pairs = list(itertools.product(ctx_choices, repeat=2))
    if tier == 'quick':
        pairs = rnd.sample(pairs, 2500)
    reqs += [[(1, a1, l1), (3, a2, l2)] for (a1, l1), (a2, l2) in pairs]
    jobs = [(sv, sp, rq) for sv in servs for sp in sups for rq in reqs]
    if tier == 'quick':
        jobs = [j for k, j in enumerate(jobs) if len(j[2]) < 2 or k % 3 == 0]
    for _ in range(300 if tier == 'quick' else 5000):
        n = rnd.randrange(3, 9)
        ids = [rnd.choice([1, 3, 5, 7, 9, 11, 255]) for _ in range(n)] if rnd.random() < 0.3 else [2 * k + 1 for k in range(n)]
        rq = [(ids[k], rnd.choice(ABS), tuple(rnd.choice(TS + ['1.2.%d' % q for q in range(16)]) for _ in range(rnd.choice([1, 2, 5, 20]))))
              for k in range(n)]
        jobs.append((rnd.choice(servs), rnd.choice(sups), rq))
    with multiprocessing.Pool(min(16, os.cpu_count() or 1)) as pool:
        results = pool.map(one, jobs, chunksize=200)
    ops, got, keep = [], [], []
    for (sv, sp, rq), (v, model) in zip(jobs, results):
        chk.case(repr((sv, sp, rq)), len(rq) > 0,
                 {'served': sv, 'supported_ts': sp, 'contexts': rq} if len(rq) == 2 and len(chk.samples) < 5 else None)
        chk.count('contexts:%d' % min(len(rq), 3))
        case = {'served': list(sv), 'supported': list(sp), 'ctxs': [[c[0], c[1], list(c[2])] for c in rq]}
        if v:
            chk.violation('C09:' + v[:30], v, case)
        elif model is not None:
            ops.append('accept %s %s %s' % ('+'.join(h(a) for a in sv) or '-', '+'.join(h(t) for t in sp) or '-',
                                            ' '.join('%d:%s:%s' % (c[0], h(c[1]), '+'.join(h(t) for t in c[2])) for c in rq)))
            got.append(model); keep.append(case)
    want = common.driver(ops)
    def norm(line):
        # a refusal is a refusal: which non-zero result/reason it carries, and what stands in its transfer-syntax
        # sub-item, is the acceptor's choice (PS3.8 Table 9-18: "not significant"); the served table has no order
        a, _, t = line.partition(' | ')
        items = []
        for x in a.strip().split(';'):
            if x:
                i, r, ts = x.split(':')
                items.append('%s:0:%s' % (i, ts) if r == '0' else '%s:refused' % i)
        return ';'.join(items) + ' | ' + ';'.join(sorted(x for x in t.strip().split(';') if x))
    for case, w, g in zip(keep, want, got):
        if norm(w) != norm(g):
            chk.broke('correspondence accept', 'model %s\nimpl  %s' % (w[:300], g[:300]), case)
            break
    chk.lean(['Dicom.Props.C09'])
