"""C10 — negotiated maximum PDU length honoured in both directions, including 0."""
import types

from . import common, msgs, scen

GRID = [0, 7, 8, 127, 128, 1024, 16384, 65536, 2 ** 31, 2 ** 32 - 1]


def make_acceptor(own):
    from pynetdicom2 import asceprovider as ap
    acc = ap.AssociationAcceptor.__new__(ap.AssociationAcceptor)
    acc.max_pdu_length = own
    acc.ae = types.SimpleNamespace(supported_scp={scen.VERIF_SOP: None, scen.CT_SOP: None},
                                   supported_ts=frozenset([scen.IMPLICIT]), timeout=1)
    acc.sop_classes_as_scp = {}
    acc.accepted_contexts = {}
    acc.dul = msgs.StubDul()
    acc.remote_ae = b''
    acc.association_established = False
    return acc


def accept_with(own, peer):
    """real accept(); returns (acceptor, announced value read back from the encoded A-ASSOCIATE-AC)"""
    from pynetdicom2 import pdu
    acc = make_acceptor(own)
    rq = pdu.AAssociateRqPDU.decode(scen.rq_pdu(peer).encode())       # as it comes off the wire
    acc.accept(rq)
    ac_wire = acc.dul.sent[-1].encode()
    ac = pdu.AAssociateAcPDU.decode(ac_wire)
    announced = ac.variable_items[-1].user_data[0].maximum_length_received
    acc.dul.sent = []
    return acc, announced, ac_wire


def request_with(own, announced_by_peer=None, ac_wire=None):
    """real _request() against a stub provider that answers with an A-ASSOCIATE-AC"""
    from pynetdicom2 import asceprovider as ap, pdu
    req = ap.AssociationRequester.__new__(ap.AssociationRequester)
    req.max_pdu_length = own
    req.ae = types.SimpleNamespace(supported_scp={}, timeout=1, local_ae={'aet': 'LOCAL', 'address': 'x'})
    req.context_def_list = {1: ap.PContextDef(1, scen.VERIF_SOP, [scen.IMPLICIT]),
                            3: ap.PContextDef(3, scen.CT_SOP, [scen.IMPLICIT])}
    req.remote_ae = {'aet': 'REMOTE', 'address': 'h', 'port': 104}
    req.sop_classes_as_scu = {}
    req.accepted_contexts = {}
    req.association_established = False
    wire = ac_wire if ac_wire is not None else scen.ac_pdu(announced_by_peer).encode()
    dul = msgs.StubDul()
    dul.receive = lambda timeout: pdu.AAssociateAcPDU.decode(wire)
    req.dul = dul
    req._request(req.ae.local_ae, req.remote_ae)
    rq_wire = dul.sent[-1].encode()
    rq = pdu.AAssociateRqPDU.decode(rq_wire)
    announced = rq.variable_items[-1].user_data[0].maximum_length_received
    dul.sent = []
    return req, announced, rq_wire


def check_sends(assoc, peer_announced, label):
    """send messages of several sizes with the real Association.send; returns a failure or None"""
    lim = assoc.max_pdu_length
    eff = (lim or 65536) - 6
    sizes = sorted(set(n for n in (1, eff - 1, eff, eff + 1, 3 * eff + 1) if 1 <= n <= 200000))
    import io
    for n, as_file in [(n, f) for n in sizes for f in ((False, True) if n > 2 * eff else (False,))]:
        m = scen.store_rq(3, n)
        data = m.data_set
        if as_file:
            m.data_set = io.BytesIO(data)
        try:
            assoc.dul.sent = []
            assoc.send(m, 3)
            pdus = list(assoc.dul.sent[0])
        except Exception as e:  # pylint: disable=broad-except
            return '%s: sending a %d-byte data set raised %r' % (label, n, e)
        if not pdus:
            return '%s: sending a %d-byte data set produced no P-DATA-TF at all' % (label, n)
        got_cmd, got_data = b'', b''
        for p in pdus:
            raw = p.encode()
            ln = int.from_bytes(raw[2:6], 'big')
            if peer_announced and ln > peer_announced:
                return ('%s: P-DATA-TF of length %d sent although the peer announced a maximum of %d'
                        % (label, ln, peer_announced))
            for ctx, mch, body in msgs.parse_pdata(raw):
                if mch in (1, 3):
                    got_cmd += body
                else:
                    got_data += body
        if got_data != data or got_cmd != msgs.encoded_command_set(m):
            return '%s: a %d-byte data set is not transmitted completely with limit %d' % (label, n, lim)
    return None


def run_pair(own, peer):
    """returns list of (key, failure) and the observed (limit, announce, reqlimit)"""
    fails = []
    acc, ann, _ = accept_with(own, peer)
    if own != 0 and (ann == 0 or ann > own):
        fails.append(('announce', 'acceptor configured with %d announces %d, which it is not prepared to receive' % (own, ann)))
    f = check_sends(acc, peer, 'acceptor (own %d, peer announced %d, adopted %d)' % (own, peer, acc.max_pdu_length))
    if f:
        fails.append(('acceptor-send', f))
    req, rann, _ = request_with(own, announced_by_peer=peer)
    if rann != own:
        fails.append(('rq-announce', 'requester configured with %d announces %d' % (own, rann)))
    f = check_sends(req, peer, 'requester (own %d, peer announced %d, adopted %d)' % (own, peer, req.max_pdu_length))
    if f:
        fails.append(('requester-send', f))
    return fails, (acc.max_pdu_length, ann, req.max_pdu_length)


def run_chain(r, a):
    """one whole negotiation through the wire forms: requester r <-> acceptor a"""
    fails = []
    req0, rann, rq_wire = request_with(r, announced_by_peer=a)      # only to get the RQ as the requester builds it
    from pynetdicom2 import pdu
    acc = make_acceptor(a)
    acc.accept(pdu.AAssociateRqPDU.decode(rq_wire))
    ac_wire = acc.dul.sent[-1].encode()
    aann = pdu.AAssociateAcPDU.decode(ac_wire).variable_items[-1].user_data[0].maximum_length_received
    req, _, _ = request_with(r, ac_wire=ac_wire)
    f = check_sends(acc, rann, 'acceptor in chain (requester %d, acceptor %d)' % (r, a))
    if f:
        fails.append(('chain-acceptor', f))
    f = check_sends(req, aann, 'requester in chain (requester %d, acceptor %d; acceptor announced %d)' % (r, a, aann))
    if f:
        fails.append(('chain-requester', f))
    return fails


def entity_case(case):
    """the application entities as an application builds them - AE, StorageAE, ClientAE, ClientStorageAE with a configured
    maximum length - against a raw peer on loopback TCP: what the entity announces must be its configured maximum (or
    less), whatever the peer announces"""
    import shutil
    import socket
    import tempfile
    import threading
    import pynetdicom2
    from pynetdicom2 import applicationentity as aem, pdu, userdataitems as ud, sopclass as sc
    from . import scen, s3
    own, peer, kind = case['own'], case['peer'], case['entity']
    tmp = tempfile.mkdtemp(prefix='vp_c10_')

    def announced(raw):
        p = (pdu.AAssociateRqPDU if raw[0] == 1 else pdu.AAssociateAcPDU).decode(raw)
        for it in p.variable_items:
            if isinstance(it, pdu.UserInformationItem):
                for sub in it.user_data:
                    if isinstance(sub, ud.MaximumLengthSubItem):
                        return sub.maximum_length_received
        return None

    def read_pdu(sock):
        buf = b''
        sock.settimeout(10)
        while True:
            fr = s3.frames(buf)
            if fr:
                return fr[0][1]
            d = sock.recv(65536)
            if not d:
                return None
            buf += d
    try:
        if kind in ('AE', 'StorageAE'):
            srv = aem.AE('SRV', 0, max_pdu_length=own) if kind == 'AE' else pynetdicom2.StorageAE(tmp, 'SRV', 0, max_pdu_length=own)
            srv.add_scp(sc.verification_scp)
            with srv:
                c = socket.create_connection(('127.0.0.1', srv.server_address[1]), timeout=10)
                c.sendall(scen.rq_pdu(maxlen=peer).encode())
                raw = read_pdu(c)
                c.sendall(pdu.AAbortPDU(0, 0).encode())
                c.close()
            if raw is None or raw[0] != 2:
                return '%s did not answer the request with an A-ASSOCIATE-AC' % kind
            got = announced(raw)
        else:
            lst = socket.socket(); lst.bind(('127.0.0.1', 0)); lst.listen(1)
            cli = aem.ClientAE('CLI', max_pdu_length=own) if kind == 'ClientAE' else pynetdicom2.ClientStorageAE(tmp, 'CLI', max_pdu_length=own)
            cli.add_scu(sc.verification_scu)
            cli.timeout = 5
            box = {}

            def peer_side():
                conn, _ = lst.accept()
                box['raw'] = read_pdu(conn)
                conn.sendall(pdu.AAssociateRjPDU(1, 1, 1).encode())
                conn.close()
            th = threading.Thread(target=peer_side, daemon=True)
            th.start()
            try:
                with cli.request_association({'aet': 'SRV', 'address': '127.0.0.1', 'port': lst.getsockname()[1]}):
                    pass
            except Exception:  # pylint: disable=broad-except
                pass
            th.join(10)
            lst.close()
            if not box.get('raw') or box['raw'][0] != 1:
                return '%s did not send an A-ASSOCIATE-RQ' % kind
            got = announced(box['raw'])
        if got is None:
            return '%s announced no maximum length' % kind
        if own and (got == 0 or got > own):
            return ('%s configured with a maximum length of %d announces %d (peer announced %d): more than it is prepared to receive'
                    % (kind, own, got, peer))
        if not own and kind in ('ClientAE', 'ClientStorageAE') and got != 0:
            return '%s configured with no limit announces %d' % (kind, got)
        return None
    finally:
        shutil.rmtree(tmp, ignore_errors=True)


def replay(case):
    if case.get('entity'):
        return entity_case(case)
    if case.get('chain'):
        fails = run_chain(case['own'], case['peer'])
    else:
        fails, _ = run_pair(case['own'], case['peer'])
    return '; '.join(f for _, f in fails) or None


def run(chk):
    chk.rule = ('all pairs (own configured maximum, value announced by the peer) over the grid %r plus seeded values, both '
                'roles: real AssociationAcceptor.accept and AssociationRequester._request on wire-decoded PDUs with a stub '
                'provider, then real Association.send of messages smaller than, equal to and several times the fragment '
                'size; every P-DATA length field compared with the peer\'s announcement; adopted limit and announcement '
                'compared with the Lean model; whole negotiations chained through the wire forms; the entity classes (AE, '
                'StorageAE, ClientAE, ClientStorageAE) built with a configured maximum and observed by a raw peer over loopback '
                'TCP: what they announce; non-trivial = pairs '
                'with a 0 or with own != peer' % (GRID,))
    chk.trusted += ['harness/c10.py stubs for the provider (dul.send / dul.receive)']
    rnd = common.rng('c10')
    grid = list(GRID)
    extra = [rnd.randrange(7, 2 ** 32) for _ in range(4 if chk.tier == 'quick' else 150)] + [9, 100, 65535, 65537]
    pairs = [(o, p) for o in grid for p in grid] + [(o, p) for o in extra for p in rnd.sample(grid, 3)] + \
            [(o, p) for p in extra for o in rnd.sample(grid, 3)]
    ops, got, keys = [], [], []
    for own, peer in pairs:
        try:
            fails, obs = run_pair(own, peer)
        except Exception as e:  # pylint: disable=broad-except
            fails, obs = [('raised', 'negotiation with own %d, peer %d raised %r' % (own, peer, e))], None
        chk.case('%d %d' % (own, peer), own != peer or own == 0, {'own': own, 'peer_announced': peer, 'observed': obs})
        chk.count('zero-involved' if 0 in (own, peer) else 'non-zero')
        for k, f in fails:
            chk.violation('C10:%s:%d:%d' % (k, own, peer), f, {'own': own, 'peer': peer})
        if obs:
            ops.append('limits %d %d' % (own, peer)); got.append('acc=%d ann=%d req=%d' % obs); keys.append((own, peer))
    for r in grid:
        for a in grid:
            try:
                fails = run_chain(r, a)
            except Exception as e:  # pylint: disable=broad-except
                fails = [('raised', 'chained negotiation requester %d / acceptor %d raised %r' % (r, a, e))]
            chk.case('chain %d %d' % (r, a), True, None)
            chk.count('chain')
            for k, f in fails:
                chk.violation('C10:%s:%d:%d' % (k, r, a), f, {'own': r, 'peer': a, 'chain': True})
    want = common.driver(ops)
    for k, w, g in zip(keys, want, got):
        if w != g:
            chk.broke('correspondence acceptorLimit/requesterLimit', 'own=%d peer=%d model %s impl %s' % (k[0], k[1], w, g),
                      {'own': k[0], 'peer': k[1]})
            break
    # the entities as an application builds them, over loopback TCP with a raw peer
    for kind in ('AE', 'StorageAE', 'ClientAE', 'ClientStorageAE'):
        for own, peer in ((1024, 0), (16384, 65536), (70000, 128), (0, 4096)):
            ec = {'entity': kind, 'own': own, 'peer': peer}
            try:
                r = entity_case(ec)
            except Exception as e:  # pylint: disable=broad-except
                common.raise_for(common.describe_exc(e))
            chk.case(repr(ec), True, ec if own == 1024 else None)
            chk.count('entity:' + kind)
            if r and common.timing_verdict(r) and not (entity_case(ec) and entity_case(ec)):
                continue
            if r:
                chk.violation('C10:entity:' + kind, r, ec)
    chk.lean(['Dicom.Props.C10'])
