"""C11 — requester: well-formed proposal, accepted contexts and service lookup agree."""
import itertools
import types

from . import common, msgs

TS = ['1.2.840.10008.1.2', '1.2.840.10008.1.2.1', '1.2.840.10008.1.2.2']


def h(u):
    return str(u).encode().hex() or '-'


def service_for(classes):
    def svc(asce, ctx, *a):
        return (ctx.id, str(ctx.sop_class), str(ctx.supported_ts))
    svc.sop_classes = list(classes)
    return svc


def build_ae(calls, max_pdu=16384, ae=None, offset=0):
    """a real ClientAE/AE-like entity configured by a sequence of add_scu / add_scp calls (`ae` given: the calls are
    applied to an entity that is already in use)"""
    from pynetdicom2 import applicationentity as aem
    if ae is None:
        ae = aem.ClientAE('LOCALAET', supported_ts=TS[:2], max_pdu_length=max_pdu)
    scu = []
    for n, (kind, classes) in enumerate(calls, offset):
        if kind == 'scu':
            if n % 2 and classes:
                # the documented override: the service's own list is NOT what gets configured
                ae.add_scu(service_for(['1.2.826.0.1.3680043.9.9.%d' % n, '1.2.826.0.1.3680043.9.8.%d' % n]), sop_classes=list(classes))
            else:
                ae.add_scu(service_for(classes))
            scu += classes
        else:                                   # the real add_scp of the full AE, on an entity without listening socket
            aem.AE.add_scp(ae, service_for(classes))
    return ae, scu


def run_request(ae, reply_items, announced=16384):
    """real AssociationRequester (real __init__) and _request() against a stub provider"""
    from pynetdicom2 import pdu, userdataitems as ud, exceptions
    req = msgs.real_requester(ae, {'aet': 'REMOTEAET', 'address': 'host', 'port': 104})
    ac = pdu.AAssociateAcPDU('REMOTEAET', 'LOCALAET',
                             [pdu.ApplicationContextItem('1.2.840.10008.3.1.1.1')] +
                             [pdu.PresentationContextItemAC(i, r, pdu.TransferSyntaxSubItem(t)) for i, r, t in reply_items] +
                             [pdu.UserInformationItem([ud.MaximumLengthSubItem(announced)])])
    wire = ac.encode()
    req.dul.receive = lambda timeout: pdu.AAssociateAcPDU.decode(wire)
    req._request(ae.local_ae, req.remote_ae, users_pdu=None)
    return req, req.dul.sent[-1]


def oracle_rq(ae, calls, rq_obj):
    """the A-ASSOCIATE-RQ, re-read from its wire form by the strict Lean reader"""
    raw = rq_obj.encode()
    return raw


def parse_rq_canon(c):
    import re
    m = re.match(r'rq\((\d+),(\d+),(\d+),([0-9a-f-]+),([0-9a-f-]+),\[[^\]]*\],\[(.*)\]\)$', c)
    if not m:
        return None
    called = bytes.fromhex(m.group(4)).decode() if m.group(4) != '-' else ''
    calling = bytes.fromhex(m.group(5)).decode() if m.group(5) != '-' else ''
    items = m.group(6)
    appctx = re.search(r'appCtx\(\d+,([0-9a-f-]+)\)', items)
    pcs = re.findall(r'pcRq\(\d+,(\d+),\d+,\d+,\d+,abs\(\d+,([0-9a-f-]+)\),\[([^\]]*)\]\)', items)
    ml = re.search(r'maxLen\(\d+,\d+,(\d+)\)', items)
    return {'called': called, 'calling': calling, 'appctx': bytes.fromhex(appctx.group(1)).decode() if appctx else None,
            'pcs': [(int(i), bytes.fromhex(a).decode() if a != '-' else '',
                     [bytes.fromhex(t).decode() for t in re.findall(r'ts\(\d+,([0-9a-f]+)\)', tss)]) for i, a, tss in pcs],
            'maxlen': int(ml.group(1)) if ml else None}


class NeedCanon(Exception):
    pass


CANON = {}


def check_case(calls, reply_pattern, rnd):
    """returns (violation or None, known-finding key or None, model lines)"""
    from pynetdicom2 import exceptions
    entries = [c for _, cl in calls for c in cl]
    max_pdu = [12345, 0, 16384, 4294967295][(len(entries) + len(calls)) % 4]
    if len(calls) >= 2 and len(entries) <= 128:
        # the entity is already in use - an association has been requested - when the rest of the configuration is added
        ae, scu = build_ae(calls[:1], max_pdu=max_pdu)
        if calls[0][1]:
            try:
                run_request(ae, [])
            except Exception:  # pylint: disable=broad-except
                pass
        scu += build_ae(calls[1:], ae=ae, offset=1)[1]
    else:
        ae, scu = build_ae(calls, max_pdu=max_pdu)
    proposed = list(ae.context_def_list.items())
    ids = [i for i, _ in proposed]
    model_ids = 'add-calls ' + ' '.join('+'.join(h(c) for c in cl) or '-' for _, cl in calls)
    got_ids = ';'.join('%d:%s' % (i, h(d.sop_class)) for i, d in proposed)
    if not calls or not entries:
        return None, None, [(model_ids, got_ids)]
    if max(ids) > 255:
        # more than 128 configured classes: the request cannot be encoded (known finding D18)
        try:
            run_request(ae, [])
            return 'context id %d proposed' % max(ids), 'C11:context-id-exceeds-255:total_contexts>128', []
        except Exception:  # pylint: disable=broad-except
            return ('%d configured SOP classes: presentation context id %d does not fit one byte, the request cannot be encoded'
                    % (len(entries), max(ids))), 'C11:context-id-exceeds-255:total_contexts>128', [(model_ids, got_ids)]
    # the reply: (id, result, ts) for a chosen subset/pattern
    reply = []
    for k, (i, d) in enumerate(proposed):
        r = reply_pattern[k % len(reply_pattern)]
        if r is None:
            continue
        reply.append((i, r, rnd.choice(TS) if r == 0 else ''))
    if (len(entries) + len(reply)) % 2 == 0:
        # an earlier association of the same entity, with a peer that refused everything (and an application that asked
        # for every class all the same): what that peer said must not be held against this one
        try:
            req0, _ = run_request(ae, [(i, 3, '') for i, _ in proposed])
            for cls in sorted(set(scu)) + ['1.2.826.0.1.3680043.9.7.1']:
                try:
                    req0.get_scu(cls)
                except exceptions.ClassNotSupportedError:
                    pass
        except Exception as e:  # pylint: disable=broad-except
            return 'an association in which the peer refused every context raised %r' % (e,), None, []
    try:
        req, rq_obj = run_request(ae, reply)
    except Exception as e:  # pylint: disable=broad-except
        return 'request/reply processing raised %r' % (e,), None, []
    raw = rq_obj.encode()
    if raw not in CANON:
        raise NeedCanon(raw)
    canon = CANON[raw]
    v = parse_rq_canon(canon)
    if v is None:
        return 'the A-ASSOCIATE-RQ is not a well-formed PDU (%s)' % canon[:80], None, []
    if v['called'] != 'REMOTEAET' or v['calling'] != 'LOCALAET':
        return 'called/calling AE titles %r/%r, expected REMOTEAET/LOCALAET' % (v['called'], v['calling']), None, []
    if v['appctx'] != '1.2.840.10008.3.1.1.1':
        return 'application context %r' % (v['appctx'],), None, []
    if v['maxlen'] != max_pdu:
        return 'maximum length announced %r, entity configured with %d' % (v['maxlen'], max_pdu), None, []
    want_pcs = [(2 * k + 1, c, list(TS[:2])) for k, c in enumerate(entries)]
    got_pcs = [(i, a, sorted(t)) for i, a, t in v['pcs']]
    if got_pcs != [(i, a, sorted(t)) for i, a, t in want_pcs]:
        return ('proposed contexts %r..., expected one per configured class under ids 1,3,5,... with the configured transfer '
                'syntaxes %r...' % (got_pcs[:3], want_pcs[:3])), None, []
    # usable contexts
    want_usable = sorted((i, str(ae.context_def_list[i].sop_class), t) for i, r, t in reply if r == 0)
    got_usable = sorted((k, str(d.sop_class), str(d.supported_ts)) for k, d in req.accepted_contexts.items())
    if got_usable != want_usable:
        return 'usable contexts %r, the peer accepted %r' % (got_usable[:4], want_usable[:4]), None, []
    scp_only = [c for k, cl in calls if k != 'scu' for c in cl if c not in scu]
    for cls in sorted(set(scu)) + ['1.2.826.0.1.3680043.9.7.1'] + scp_only[:2]:
        acc = [(i, t) for i, r, t in reply if r == 0 and str(ae.context_def_list[i].sop_class) == cls and cls in scu]
        try:
            f = req.get_scu(cls)
            res = f()
        except exceptions.ClassNotSupportedError:
            res = None
        except Exception as e:  # pylint: disable=broad-except
            return ('get_scu(%s) raised %r (a class that cannot be used%s must be refused with ClassNotSupportedError)'
                    % (cls, e, '' if cls in scu else ', here one never configured as SCU')), None, []
        if acc and (res is None or (res[0], res[2]) not in acc or res[1] != cls):
            return 'get_scu(%s) gives %r although the peer accepted contexts %r for it' % (cls, res, acc), None, []
        if not acc and res is not None:
            return 'get_scu(%s) returns a service bound to %r although no context of that class was accepted' % (cls, res), None, []
    model_pa = 'process-ac %s %s %s' % ('+'.join(h(c) for c in sorted(set(scu))) or '-',
                                         '+'.join('%d.%s' % (i, h(d.sop_class)) for i, d in proposed),
                                         ' '.join('%d:%d:%s' % (i, r, h(t)) for i, r, t in reply))
    got_pa = ';'.join('%d:%s:%s' % (i, h(c), h(t)) for i, c, t in sorted(got_usable))
    return None, None, [(model_ids, got_ids), (model_pa, got_pa)]


def shared_service_case():
    """several entities in one process configured with the SAME service object (as every application does with the
    library's own services): what one entity is configured with - an override of the class list - must not show up in
    another"""
    from pynetdicom2 import applicationentity as aem
    svc = service_for(['1.2.826.0.1.3680043.9.5.1', '1.2.826.0.1.3680043.9.5.2'])
    own = list(svc.sop_classes)
    a = aem.ClientAE('ENTITYA', supported_ts=TS[:2])
    a.add_scu(svc, sop_classes=['1.2.826.0.1.3680043.9.6.1'])
    b = aem.ClientAE('ENTITYB', supported_ts=TS[:2])
    b.add_scu(svc)
    got_b = [str(d.sop_class) for _, d in sorted(b.context_def_list.items())]
    got_a = [str(d.sop_class) for _, d in sorted(a.context_def_list.items())]
    if got_a != ['1.2.826.0.1.3680043.9.6.1']:
        return 'entity A, configured with an override list of one class, proposes %r' % (got_a,)
    if got_b != own or sorted(b.supported_scu) != sorted(own):
        return ('entity B was configured with the service\'s own two classes after entity A had used the same service with an '
                'override: B proposes %r and treats %r as usable' % (got_b, sorted(b.supported_scu)))
    if list(svc.sop_classes) != own:
        return 'configuring an entity changed the service object: its class list is now %r' % (list(svc.sop_classes),)
    return None


def replay(case):
    if case.get('shared_service'):
        return shared_service_case()
    calls = [(k, list(c)) for k, c in case['calls']]
    try:
        v, key, _ = check_case(calls, case['pattern'], common.rng('c11-case-%d' % case.get('index', 0)))
    except NeedCanon as e:
        CANON[e.args[0]] = common.driver(['spec-pdu ' + e.args[0].hex()])[0]
        v, key, _ = check_case(calls, case['pattern'], common.rng('c11-case-%d' % case.get('index', 0)))
    return v


def agreement_case(case):
    """both ends of one negotiation with the real code: the request a real AssociationRequester builds is decoded from its
    wire form and answered by a real AssociationAcceptor; its A-ASSOCIATE-AC, again through the wire form, is processed by the
    requester.  Both must end up with the same table of usable contexts (id, abstract syntax, transfer syntax), and it must
    be the one the Lean model `agreed` computes."""
    from pynetdicom2 import pdu
    ae, _ = build_ae([('scu', case['classes'])])
    ae.supported_ts = frozenset(case['req_ts']) if isinstance(ae.supported_ts, (set, frozenset)) else list(case['req_ts'])
    req = msgs.real_requester(ae, {'aet': 'REMOTEAET', 'address': 'host', 'port': 104})
    acc_ae = types.SimpleNamespace(supported_scp={a: (lambda *x: None) for a in case['served']}, supported_ts=frozenset(case['acc_ts']),
                                   timeout=1, store_in_file=set(), get_file=None)
    acc = msgs.real_acceptor(acc_ae)
    state = {}

    def receive(timeout):
        # the request is on the wire now: let the acceptor answer it
        rq = pdu.AAssociateRqPDU.decode(req.dul.sent[-1].encode())
        state['proposed'] = [(i.context_id, str(i.abs_sub_item.name), [str(t.name) for t in i.ts_sub_items])
                             for i in rq.variable_items if isinstance(i, pdu.PresentationContextItemRQ)]
        acc.accept(rq)
        return pdu.AAssociateAcPDU.decode(acc.dul.sent[-1].encode())
    req.dul.receive = receive
    req._request(ae.local_ae, req.remote_ae, users_pdu=None)
    mine = sorted((k, str(v.sop_class), str(v.supported_ts)) for k, v in req.accepted_contexts.items())
    theirs = sorted((k, str(v.sop_class), str(v.supported_ts)) for k, v in acc.accepted_contexts.items())
    if mine != theirs:
        return 'requester holds %r, acceptor serves %r' % (mine, theirs), None
    return None, (state['proposed'], mine)


def run(chk):
    tier = chk.tier
    rnd = common.rng('c11')
    chk.rule = ('application entities configured by sequences of add_scu/add_scp calls with SOP-class lists of sizes 0..140 '
                '(totals around 127, 128, 129); the real AssociationRequester (real __init__, stub provider) builds the '
                'request, which is re-read from its wire form by the strict Lean reader (titles, application context, maximum '
                'length, one context per configured class under ids 1,3,5,.. with the configured transfer syntaxes); the reply '
                'is every accept/reject pattern over result codes 0..4 for proposals of up to 4 contexts and seeded patterns '
                'for large ones; usable contexts and get_scu for every class are judged and diffed with the Lean model; '
                'several requesters are created per process (state shared between associations would show); both ends: a real '
                'requester against a real acceptor through the wire forms of RQ and AC, their tables of usable contexts compared with '
                'each other and with the Lean model; non-trivial = '
                'configurations with at least two classes')
    chk.trusted += ['harness/msgs.py real_requester: provider thread stubbed, everything else is the real constructor']
    v = shared_service_case()
    chk.case('shared-service', True, {'two entities, one service object, one override': True})
    chk.count('shared-service')
    if v:
        chk.violation('C11:shared-service', v, {'shared_service': True})
    cases = []

    def classes(n, base):
        return ['1.2.826.%d.%d' % (base, k) for k in range(n)]
    # exhaustive reply patterns for small proposals
    for n in (1, 2, 3, 4):
        for pat in itertools.product([0, 1, 2, 3, 4, None], repeat=n):
            if tier == 'quick' and n == 4 and hash(pat) % 4:
                continue
            cases.append(([('scu', classes(n, 1))], list(pat)))
    # sequences of calls, sizes around the limits
    for sizes in ([0], [1], [0, 2, 0, 1], [64, 63], [64, 63, 1], [127, 1], [128], [100, 27], [126, 1, 1], [128, 1], [129], [140],
                  [3, 3, 3], [1] * 12, [50, 0, 50, 28]):
        calls = [('scu' if k % 3 != 2 else 'scp', classes(s_, 10 + k)) for k, s_ in enumerate(sizes)]
        for pat in ([0], [0, 1], [3, 0, 0, 4, None], [None]):
            cases.append((calls, pat))
    # the same class in two calls (two contexts of one class)
    cases.append(([('scu', ['1.2.3.4']), ('scu', ['1.2.3.5', '1.2.3.4'])], [0, 0, 0]))
    cases.append(([('scu', ['1.2.3.4']), ('scu', ['1.2.3.5', '1.2.3.4'])], [0, 0, 1]))
    cases.append(([('scu', ['1.2.3.4']), ('scu', ['1.2.3.5', '1.2.3.4'])], [1, 0, 0]))
    for _ in range(60 if tier == 'quick' else 8000):
        sizes = [rnd.choice([0, 1, 2, 5, 20]) for _ in range(rnd.randrange(1, 6))]
        calls = [(rnd.choice(['scu', 'scu', 'scp']), classes(s_, 100 + k)) for k, s_ in enumerate(sizes)]
        cases.append((calls, [rnd.choice([0, 0, 1, 2, 3, 4, None]) for _ in range(rnd.randrange(1, 7))]))
    # order matters for shared state: accept-all first, reject-all later, and back
    ops, got, keep = [], [], []
    # first pass: collect the requests whose strict reading is needed, read them in one batch
    need = []
    for idx, (calls, pat) in enumerate(cases):
        try:
            check_case(calls, pat, common.rng('c11-case-%d' % idx))
        except NeedCanon as e:
            need.append(e.args[0])
        except Exception:  # pylint: disable=broad-except
            pass
    need = sorted(set(need))
    for raw, c in zip(need, common.driver(['spec-pdu ' + r.hex() for r in need])):
        CANON[raw] = c
    for idx, (calls, pat) in enumerate(cases):
        total = sum(len(c) for _, c in calls)
        case = {'calls': [[k, c] for k, c in calls], 'pattern': pat, 'index': idx}
        try:
            v, key, lines = check_case(calls, pat, common.rng('c11-case-%d' % idx))
        except Exception as e:  # pylint: disable=broad-except
            v, key, lines = 'harness/impl raised %r' % (e,), None, []
        chk.case(repr((calls, pat)), total >= 2, {'call_sizes': [len(c) for _, c in calls], 'kinds': [k for k, _ in calls],
                                                   'reply_pattern': pat} if len(chk.samples) < 6 and total > 2 else None)
        chk.count('total:%s' % ('0' if total == 0 else '1-4' if total <= 4 else '5-127' if total < 128 else '128' if total == 128 else '>128'))
        if v:
            chk.violation(key or ('C11:' + v[:30]), v, case)
        for mline, g in lines:
            ops.append(mline); got.append(g); keep.append(case)
    want = common.driver(ops)
    for case, op, w, g in zip(keep, ops, want, got):
        w0 = w.split(' | ')[0].strip()
        if w0 != g.strip():
            chk.broke('correspondence %s' % op.split()[0], 'model %s\nimpl  %s' % (w0[:300], g[:300]), case)
            break
    # both ends of a negotiation, real requester against real acceptor
    uni = ['1.2.840.10008.1.1', '1.2.840.10008.5.1.4.1.1.2', '1.2.840.10008.5.1.4.1.1.7', '1.2.840.10008.5.1.4.1.2.1.1']
    ag_cases = []
    for n in (1, 2, 3, 4):
        for served_mask in range(0, 2 ** n, 1 if tier != 'quick' or n < 4 else 3):
            for req_ts in (TS[:1], TS[:2], [TS[2], TS[0]], TS):
                for acc_ts in (TS[:1], TS[1:2], TS[1:], TS):
                    ag_cases.append({'classes': uni[:n], 'served': [u for k, u in enumerate(uni[:n]) if served_mask >> k & 1],
                                     'req_ts': req_ts, 'acc_ts': acc_ts})
    ops2, keep2 = [], []
    for ac in ag_cases:
        try:
            fail, obs = agreement_case(ac)
        except Exception as e:  # pylint: disable=broad-except
            common.raise_for(common.describe_exc(e))
        chk.case('agree' + repr(ac), len(ac['classes']) > 1, {'both_ends': True, 'classes': len(ac['classes']), 'served': len(ac['served'])}
                 if len(chk.samples) < 14 and len(ac['served']) == 2 else None)
        chk.count('agreement')
        if fail:
            chk.violation('C11:agreement', 'negotiation between a real requester and a real acceptor: ' + fail, ac)
            continue
        proposed, table = obs
        ops2.append('agree %s %s %s' % ('+'.join(h(u) for u in ac['served']) or '-', '+'.join(h(t) for t in ac['acc_ts']) or '-',
                                        ' '.join('%d:%s:%s' % (i, h(a), '+'.join(h(t) for t in tss)) for i, a, tss in proposed)))
        keep2.append((ac, table))
    for (ac, table), line in zip(keep2, common.driver(ops2) if ops2 else []):
        got = ';'.join('%d:%s:%s' % (i, h(a), h(t)) for i, a, t in table)
        if line != got:
            chk.broke('correspondence agreed (both ends)', 'model %s\nimpl  %s' % (line[:300], got[:300]), ac)
            break
    chk.lean(['Dicom.Props.C11'])
