"""C12 — no byte sequence from the peer can crash or hang the provider: Lean theorems on the loop model
(total decoders, no undefined transition on peer-only schedules) + structure-aware fuzzing of the real
loop (S2) in each of six protocol states."""
import multiprocessing
import os

from . import common, scen, s2, pdugen


STATES = ['Sta2', 'Sta3', 'Sta5', 'Sta6', 'Sta7', 'Sta13']


def reach(state):
    """a Runner in the given state; the local user answers nothing by itself"""
    from pynetdicom2 import pdu
    told = {'assoc': False}

    def react(x):
        if getattr(x, 'pdu_type', None) in (1, 2) and not isinstance(x, tuple):
            told['assoc'] = True
        return []
    if state in ('Sta2', 'Sta3', 'Sta6', 'Sta7', 'Sta13'):
        r = scen.Runner('acceptor', react)
        r.settle(4000)
        if state == 'Sta2':
            return r, told
        r.feed(scen.rq_pdu().encode()); r.settle(4000)
        if state == 'Sta3':
            return r, told
        if state == 'Sta13':
            r.user(pdu.AAssociateRjPDU(1, 1, 1)); r.settle(4000)
            told['ended'] = True
            return r, told
        r.user(scen.ac_pdu()); r.settle(4000)
        if state == 'Sta7':
            r.user(pdu.AReleaseRqPDU()); r.settle(4000)
        return r, told
    r = scen.Runner('requester', react)
    r.user(scen.rq_pdu()); r.settle(4000)
    if r.p.state != 5:
        raise common.LibError('lib: a requester that was handed an A-ASSOCIATE-RQ is in Sta%d, not Sta5' % r.p.state)
    told['assoc'] = True          # the user asked for the association
    return r, told


def valid_pdus():
    from pynetdicom2 import pdu
    out = [scen.rq_pdu().encode(), scen.ac_pdu().encode(), pdu.AAssociateRjPDU(1, 1, 1).encode(),
           pdu.AReleaseRqPDU().encode(), pdu.AReleaseRpPDU().encode(), pdu.AAbortPDU(2, 6).encode()]
    out += scen.wire(scen.echo_rq(3), 1, 16384)
    out += scen.wire(scen.store_rq(4, 100), 3, 64)[:3]
    return out


def dimse_mutations(rnd):
    """P-DATA-TF PDUs that are well formed as PDUs but not as DIMSE fragments"""
    from pynetdicom2 import pdu, dsutils
    import pydicom
    P = pdu.PresentationDataValueItem
    cmd = scen.wire(scen.echo_rq(3), 1, 16384)[0]
    good = pdu.PDataTfPDU.decode(cmd).data_value_items[0].data_value
    ds = pydicom.Dataset(); ds.CommandGroupLength = 0; ds.AffectedSOPClassUID = '1.2'; ds.CommandField = 0x7777
    ds.MessageID = 1; ds.CommandDataSetType = 0x0101
    unknown_cf = dsutils.encode(ds, True, True)
    cases = [P(1, b''), P(1, b'\x04' + good[1:]), P(1, b'\xff'), P(1, b'\x03'), P(1, b'\x03' + good[1:20]),
             P(1, b'\x03' + bytes(rnd.randrange(256) for _ in range(30))), P(1, b'\x03' + unknown_cf),
             P(99, good), P(1, b'\x02\x00\x01'), P(1, b'\x01' + good[1:10])]
    return [pdu.PDataTfPDU([c]).encode() for c in cases] + \
        [pdu.PDataTfPDU([P(1, b'\x01' + good[1:10]), P(1, b'')]).encode()]


def run_one(args):
    state, stream, tail_eof = args
    try:
        r, told = reach(state)
        base_sent = len(r.tr.sent)
        base_inds = len(r.tr.inds)
        if r.sock is None:
            return ('harness', 'no socket in %s' % state)
        # deliver in two segments to exercise the buffer
        cut = len(stream) // 2
        if tail_eof == 'gone':
            r.sock.fail_send = True         # the peer is gone already: whatever the provider writes now fails
        for seg in (stream[:cut], stream[cut:]):
            if seg and not r.sock.closed:
                r.feed(seg)
                r.settle(4000)
        mid_state = r.p.state
        if tail_eof and not r.sock.closed:
            r.feed('EOF')
            r.settle(4000)
        if r.p.state in (2, 13) and not r.tr.crash and not r.tr.blocked:
            r.advance(11)
            r.settle(4000)
        s = r.summary()
        return (None, {'crash': s['crash'], 'blocked': s['blocked'], 'state': s['state'], 'closed': s['closed'],
                       'sock_none': s['sock_none'], 'sent': s['sent'][base_sent:], 'inds': s['inds'][base_inds:],
                       'assoc': told['assoc'], 'ended': told.get('ended', False), 'mid_state': mid_state, 'tail': tail_eof})
    except Exception as e:  # pylint: disable=broad-except
        return ('harness', common.describe_exc(e))


def judge(state, stream, res, first_pdu_info):
    """C12's clauses on one real run"""
    if res['blocked']:
        return 'the loop blocks: %s' % res['blocked']
    if res['crash']:
        return 'the loop dies: %s' % res['crash']
    if res['state'] != 1:
        return 'after the peer closed the provider is in Sta%d, not idle' % res['state']
    if not res['closed'] or not res['sock_none']:
        return 'the connection is not closed at the end'
    kinds = [int(x.split(':')[1]) for x in res['inds'] if x.startswith('pdu:')]
    if res['assoc'] and not res['ended'] and not any(k in (3, 6, 7) for k in kinds):
        # the user had been told of (or had asked for) the association and was never told it is gone
        if not any(x.startswith('pdu:5') for x in res['inds']):
            return 'the user was told of the association but never that it is gone (indications %r)' % (kinds,)
    framed, undecodable = first_pdu_info
    if framed and undecodable and res.get('tail') != 'gone':          # (a peer that is gone cannot be sent an A-ABORT)
        if not any(x[:2] == '07' for x in res['sent']):
            return 'an unrecognised / undecodable PDU (%s...) was not answered with an A-ABORT (sent: %r)' % (
                stream[:12].hex(), [x[:20] for x in res['sent']])
        if state in ('Sta3', 'Sta5', 'Sta6', 'Sta7') and 7 not in kinds:
            return 'an undecodable PDU in %s gave the user no provider-abort indication' % state
    return None


def replay(case):
    err, res = run_one((case['state'], bytes.fromhex(case['stream']), case.get('tail_eof', True)))
    if err:
        return 'harness: %s' % res
    lines = common.driver(['frames ' + case['stream'], 'dec-pdu ' + case['stream'][:2 * 70000]])
    first = lines[0].split(' | ')[0].split(',')[0]
    info = (bool(first), False)
    if first:
        info = (True, common.driver(['dec-pdu ' + first])[0] == 'error')
    v = judge(case['state'], bytes.fromhex(case['stream']), res, info)
    if v:
        return v
    bad = [x for x in res['sent'] if common.driver(['spec-pdu ' + x])[0] == 'reject']
    if bad:
        return 'the provider transmitted bytes that are not a well-formed PDU: %s' % bad[0][:60]
    return None


def run(chk):
    tier = chk.tier
    rnd = common.rng('c12')
    chk.rule = ('for each of the six states named by the property (awaiting request, awaiting local response, awaiting '
                'reply, established, releasing, awaiting close) reached by a scripted prefix on the real provider loop (S2): '
                'byte streams obtained from valid PDUs by structure-aware mutation (truncation with and without fixed-up '
                'length, length fields 0/short/overlong/2^32-1, item length corruption, unknown and zero type bytes, bit '
                'flips, invalid UTF-8 in text, PDV length 0/1/oversize), DIMSE-level corruption (empty PDV, invalid control '
                'header, undecodable or truncated command set, unknown command field, unknown context) and random bytes, '
                'delivered in two segments and followed by the peer closing; oracle: no pass blocks, the loop does not die, '
                'every byte string written is accepted by the strict Lean PDU reader, an undecodable first PDU (by the Lean '
                'model decoder) is answered with A-ABORT (+ provider-abort indication where an association had been '
                'indicated), final state idle with the socket closed; non-trivial = streams that are not a valid PDU')
    chk.trusted += ['harness/s2.py blocking detection; the Lean model decoder decides "undecodable" for the A-ABORT clause '
                    '(tied to the Python decoders by the C01 malformed-input correspondence)']
    valids = valid_pdus()
    streams = []
    n = 260 if tier == 'quick' else 6000
    for v in valids:
        streams.append(v)
    for _ in range(n):
        base = rnd.choice(valids)
        m = pdugen.mutate(base, rnd)
        if m:
            streams.append(m)
        if rnd.random() < 0.25:
            streams.append(pdugen.mutate(base, rnd) + rnd.choice(valids))
    streams += dimse_mutations(rnd)
    # boundary lengths in the length field (signedness, huge)
    for ln in (0x7FFFFFFF, 0x80000000, 0x80000004, 0xFFFFFFFA, 0xFFFFFFFF):
        streams.append(b'\x04\x00' + ln.to_bytes(4, 'big') + b'\x00\x00\x00\x02\x01\x03')
        streams.append(b'\x01\x00' + ln.to_bytes(4, 'big') + b'\x00\x01\x00\x00')
    # non-ASCII in text fields of an otherwise intact PDU
    raw = bytearray(scen.rq_pdu().encode()); raw[30] = 0xE9; streams.append(bytes(raw))
    raw = bytearray(scen.rq_pdu().encode()); raw[80] = 0xFF; streams.append(bytes(raw))
    jobs = [(st, s_, True) for st in STATES for s_ in streams]
    # the same streams with the peer going silent instead of closing (judged where ARTIM bounds the wait: Sta2, Sta13)
    # ... and with the peer gone by the time the provider answers: every write fails, then the close is seen
    jobs += [(st, s_, 'gone') for st in STATES for k, s_ in enumerate(streams) if k % (4 if tier == 'quick' else 2) == 1]
    jobs += [(st, s_, False) for st in STATES for k, s_ in enumerate(streams) if k % (4 if tier == 'quick' else 2) == 0]
    # what the Lean model makes of the first PDU of each stream
    fr = common.driver(['frames ' + s_.hex() for s_ in streams])
    firsts = [l.split(' | ')[0].split(',')[0] for l in fr]
    dec = common.driver(['dec-pdu ' + f if f else 'ping' for f in firsts])
    info = {s_: (bool(f), d == 'error') for s_, f, d in zip(streams, firsts, dec)}
    with multiprocessing.Pool(min(16, os.cpu_count() or 1)) as pool:
        results = pool.map(run_one, jobs, chunksize=32)
    sent_all = {}
    for (state, stream, tail_eof), (err, res) in zip(jobs, results):
        if err:
            common.raise_for('%s [state %s, stream %s]' % (res, state, stream[:20].hex()))
        framed, undec = info[stream]
        if not tail_eof and res['mid_state'] not in (2, 13) and not res['crash'] and not res['blocked']:
            chk.count('silent-tail:not-bounded-by-ARTIM')
            continue                      # a silent peer on a live association is not an ending (outside the property)
        chk.case(state + ('gone:' if tail_eof == 'gone' else '' if tail_eof else 'silent:') + stream.hex()[:400], not (framed and not undec),
                 {'state': state, 'stream': stream[:24].hex() + ('..' if len(stream) > 24 else ''), 'first_pdu': 'undecodable' if undec else ('framed' if framed else 'incomplete')}
                 if len(chk.samples) < 8 and undec else None)
        chk.count('state:' + state); chk.count('tail:' + ('gone' if tail_eof == 'gone' else 'close' if tail_eof else 'silence')); chk.count('first-pdu:' + ('undecodable' if undec else 'decodable' if framed else 'not-framed'))
        v = judge(state, stream, res, (framed, undec))
        if v:
            chk.violation('C12:%s:%s' % (state, v[:24]), '%s, stream %s%s: %s' % (state, stream[:30].hex(), '..' if len(stream) > 30 else '', v),
                          {'state': state, 'stream': stream.hex(), 'tail_eof': tail_eof})
        for x in res['sent']:
            sent_all.setdefault(x, (state, stream))
    keys = sorted(sent_all)
    ok = common.driver(['spec-pdu ' + k for k in keys])
    for k, r_ in zip(keys, ok):
        if r_ == 'reject':
            state, stream = sent_all[k]
            chk.violation('C12:illformed-output', '%s: the provider transmitted bytes that are not a well-formed PDU: %s' % (state, k[:80]),
                          {'state': state, 'stream': stream.hex()})
    chk.extra['distinct_byte_strings_written'] = len(keys)
    chk.lean(['Dicom.Props.C12'])
