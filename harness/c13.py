"""C13 — every ending terminates the provider and releases the connection: Lean theorems on the loop
model + fault enumeration on the real loop (S2): disconnection after every byte prefix, peer silence at
every point where ARTIM is armed, transport write failure at every send, stop at quiescent points."""
from . import common, scen, s2, c03


def conversations():
    from pynetdicom2 import pdu
    convs = dict(c03.conversations())
    rq = scen.rq_pdu().encode()
    rlrq = pdu.AReleaseRqPDU().encode()
    rlrp = pdu.AReleaseRpPDU().encode()
    ac = scen.ac_pdu().encode()
    # release started locally, release collision, local abort
    convs['A8-local-release'] = ('acceptor', {}, [('peer', [rq]), ('user', 'rlrq'), ('peer', [rlrp]), ('eof',)])
    convs['A9-release-collision'] = ('acceptor', {}, [('peer', [rq]), ('user', 'rlrq'), ('peer', [rlrq]), ('peer', [rlrp]), ('eof',)])
    convs['A10-local-abort'] = ('acceptor', {}, [('peer', [rq]), ('peer', scen.wire(scen.echo_rq(5), 1, 16384)), ('user', 'abort'), ('eof',)])
    convs['R4-release-collision'] = ('requester', {}, [('user', 'rq'), ('peer', [ac]), ('user', 'rlrq'), ('peer', [rlrq]),
                                                       ('peer', [rlrp]), ('eof',)])
    convs['R6-outgoing-multifragment'] = ('requester', {}, [('user', 'rq'), ('peer', [ac]), ('user', 'store'),
                                                            ('peer', scen.wire(scen.store_rsp(6), 3, 16384)), ('user', 'rlrq'),
                                                            ('peer', [rlrp]), ('eof',)])
    convs['A11-outgoing-multifragment'] = ('acceptor', {}, [('peer', [rq]), ('user', 'store'), ('peer', [rlrq]), ('eof',)])
    convs['R5-local-abort'] = ('requester', {}, [('user', 'rq'), ('peer', [ac]), ('user', 'abort'), ('eof',)])
    return convs


def user_prim(name):
    from pynetdicom2 import pdu
    if name == 'abort':
        return pdu.AAbortPDU(0, 0)
    if name == 'store':
        return scen.store_rq(6, 400).encode(3, 100)        # several P-DATA-TF PDUs
    return c03.user_prim(name)


def _swallow(f):
    try:
        f()
    except BaseException:  # pylint: disable=broad-except
        pass


class Run(object):
    """one conversation with a fault injected; `fault` = (kind, turn index, offset)"""

    def __init__(self, conv, fault):
        role, opts, turns = conv
        self.role = role
        react0 = (lambda x: []) if opts.get('silent') else scen.default_acceptor_user(reject=opts.get('reject'))
        self.user_ended = False
        self.assoc_indicated = False

        self.released_requested = False
        self.deferred_rp = False

        def react(x):
            from pynetdicom2 import pdu as _pdu
            t = getattr(x, 'pdu_type', None)
            if t in (1, 2) and not isinstance(x, tuple):
                self.assoc_indicated = True
            if t == 5 and self.released_requested and role == 'acceptor':
                # release collision, acceptor side: the response is due only after the peer's A-RELEASE-RP
                self.deferred_rp = True
                return []
            if t == 6 and self.deferred_rp:
                self.deferred_rp = False
                self.user_ended = True
                return [_pdu.AReleaseRpPDU()]
            out = react0(x)
            for o in out:
                if getattr(o, 'pdu_type', None) in (3, 6, 7):
                    self.user_ended = True
            return out
        self.r = scen.Runner(role, react)
        self.turns = turns
        self.fault = fault
        self.conv = conv

    def go(self):
        r, (kind, ti, off) = self.r, self.fault
        r.settle()
        for i, t in enumerate(self.turns):
            if kind == 'fail-send' and i == ti and r.sock is not None:
                r.sock.fail_send = True
            if kind == 'stall-send' and i <= ti + 1 and r.sock is not None:
                r.sock.stalled = True      # the peer stops reading for half a minute: nothing fails, it only takes longer
            if t[0] == 'peer':
                blob = b''.join(t[1])
                if kind in ('eof', 'reset') and i == ti:
                    if r.sock is not None and not r.sock.closed:
                        if off:
                            r.feed(blob[:off])
                        r.feed('EOF' if kind == 'eof' else 'ERR')      # orderly close / connection reset (recv raises)
                    r.settle()
                    break
                if r.sock is None or r.sock.closed:
                    break
                for seg in t[1]:
                    r.feed(seg)
                    r.settle()
            elif t[0] == 'user':
                if kind in ('eof', 'reset') and i == ti:
                    if r.sock is not None and not r.sock.closed:
                        r.feed('EOF' if kind == 'eof' else 'ERR')
                    r.settle()
                    break
                if r.p.state in (1, 13) and i > 0:
                    break                  # the association is over: a sensible user issues nothing more
                prim = user_prim(t[1])
                if getattr(prim, 'pdu_type', None) in (3, 6, 7):
                    self.user_ended = True
                if getattr(prim, 'pdu_type', None) == 5:
                    self.released_requested = True
                if r.p.crashed is None:
                    r.user(prim)
                if kind == 'eof-mid-send' and i == ti:
                    for _ in range(off):
                        r.step()           # a few fragments go out ...
                    if r.sock is not None and not r.sock.closed:
                        r.feed('EOF')      # ... and the peer disappears
                    r.settle()
                    break
                r.settle()
            elif t[0] == 'eof':
                if kind == 'silence':
                    pass
                elif r.sock is not None and not r.sock.closed:
                    r.feed('EOF')
                r.settle()
            if r.sock is not None:
                r.sock.fail_send = False
                r.sock.stalled = False
            if kind in ('stop', 'assoc-kill') and i == ti:
                try:
                    return self.stop_test() if kind == 'stop' else self.assoc_kill_test()
                finally:
                    s2.SELECT_SLEEP = 0.0
            if kind == 'stop-dead' and i == ti:
                return self.stop_dead_test()
            if kind == 'silence' and i == ti:
                if r.p.state not in (2, 13):
                    return 'n/a'           # ARTIM is not armed here: silence is outside the property
                # the peer says nothing more and never closes
                r.advance(11)
                r.settle()
                break
        # give ARTIM a chance wherever the run stopped short
        if r.p.state in (2, 13):
            r.advance(11)
            r.settle()
        v = self.verdict()
        if not v and kind == 'stall-send':
            base = Run(self.conv, ('none', -1, 0))
            base.go()
            a, b = base.r.summary(), r.summary()
            if a['sent'] != b['sent'] or a['inds'] != b['inds']:
                return ('a peer that stops reading for half a minute during turn %d (nothing fails, sending only takes longer) '
                        'changes the conversation: %d PDUs sent and %d indications, %d and %d without the stall'
                        % (ti, len(b['sent']), len(b['inds']), len(a['sent']), len(a['inds'])))
        return v

    def stop_test(self):
        """the stop protocol of the real provider at this quiescent point: run() in a real thread; stop() must say
        whether the provider is idle (and then end the loop); kill() must return, whatever the state"""
        import threading
        from pynetdicom2 import dulprovider
        p = self.r.p
        if p.crashed is not None or self.r.tr.blocked:
            return 'n/a'
        state = p.state
        p._budget = 10 ** 15                  # the loop condition is now governed by the termination flag alone
        p._is_killed.clear()
        s2.SELECT_SLEEP = 0.002
        box = {}

        def body():
            try:
                p.run()
            except BaseException as e:  # pylint: disable=broad-except
                box['exc'] = e
        th = threading.Thread(target=body, daemon=True)
        th.start()
        said = dulprovider.DULServiceProvider.stop(p)
        if said:
            th.join(3)
            if th.is_alive():
                p._killed = True
                return 'stop() reported success in Sta%d but the loop kept running' % state
            if state != 1 or (self.r.sock is not None and not self.r.sock.closed):
                return ('stop() ended the loop in Sta%d with the transport %s: the provider did not return to idle with the '
                        'transport closed' % (state, 'open' if self.r.sock is not None and not self.r.sock.closed else 'closed'))
        done = threading.Event()

        def killer():
            dulprovider.DULServiceProvider.kill(p)
            done.set()
        threading.Thread(target=killer, daemon=True).start()
        if not done.wait(3):
            p._killed = True
            p._is_killed.set()
            return 'kill() did not return within 3 s in Sta%d: a request to stop did not complete' % state
        th.join(3)
        if th.is_alive():
            p._killed = True
            return 'kill() returned in Sta%d but the loop is still running' % state
        if 'exc' in box and not isinstance(box['exc'], s2.WouldBlockForever):
            return 'the loop died while being stopped in Sta%d: %r' % (state, box['exc'])
        if 'exc' in box:
            return 'a pass blocked while a stop was pending in Sta%d: %s' % (state, box['exc'])
        return None

    def stop_dead_test(self):
        """a stop requested after the loop has died: the peer disconnects, the association ends, and a careless user
        hands over one more primitive (the loop raises KeyError on it - outside C13); kill() must still return"""
        import threading
        from pynetdicom2 import dulprovider
        r = self.r
        p = r.p
        if r.tr.blocked:
            return 'n/a'
        if p.crashed is None:
            if r.sock is not None and not r.sock.closed:
                r.feed('EOF')
            r.settle()
            if p.crashed is None and p.state == 1:
                r.user(user_prim('rlrq'))
                r.settle()
        if p.crashed is None:
            return 'n/a'
        done = threading.Event()

        def killer():
            dulprovider.DULServiceProvider.kill(p)
            done.set()
        threading.Thread(target=killer, daemon=True).start()
        if not done.wait(3):
            p._is_killed.set()
            return ('kill() did not return within 3 s after the loop had ended with %s: a request to stop did not complete'
                    % type(p.crashed).__name__)
        return None

    def assoc_kill_test(self):
        """Association.kill() - what the library itself calls to stop a provider - at this quiescent point, with run()
        in a real thread: it must return within a bounded time whatever the protocol state"""
        import threading
        from pynetdicom2 import asceprovider as ap
        p = self.r.p
        if p.crashed is not None or self.r.tr.blocked:
            return 'n/a'
        state = p.state
        p._budget = 10 ** 15
        p._is_killed.clear()
        s2.SELECT_SLEEP = 0.002
        th = threading.Thread(target=lambda: _swallow(p.run), daemon=True)
        th.start()
        a = ap.Association.__new__(ap.Association)
        a.dul = p
        a.association_established = True
        done = threading.Event()

        def killer():
            ap.Association.kill(a)
            done.set()
        threading.Thread(target=killer, daemon=True).start()
        if not done.wait(20):
            p._killed = True
            p._is_killed.set()
            return 'Association.kill() did not return within 20 s in Sta%d: a request to stop did not complete' % state
        th.join(3)
        if th.is_alive():
            p._killed = True
            return 'Association.kill() returned in Sta%d but the provider loop is still running' % state
        return None

    def verdict(self):
        r = self.r
        s = r.summary()
        kinds = []
        for x in s['inds']:
            if x.startswith('pdu:'):
                kinds.append(int(x.split(':')[1]))
        told = any(k in (3, 6, 7) for k in kinds) or self.user_ended
        if s['blocked']:
            return 'a pass blocks: %s (a stop request could not complete)' % s['blocked']
        if s['crash']:
            if s['crash'].startswith('KeyError') and s['state'] == 1 and s['sock_none'] and (r.sock is None or s['closed']) \
                    and not r.tr.crash_with_gen:
                return 'late'              # a user primitive consumed after the association had ended (outside C13)
            return 'the loop died: %s' % s['crash']
        if s['state'] != 1:
            return 'provider ends in Sta%d, not idle' % s['state']
        if r.sock is not None and not s['closed']:
            return 'provider is idle but the transport connection is still open'
        if not s['sock_none']:
            return 'provider is idle but still holds its socket'
        if self.assoc_indicated and not told:
            return 'the association had been indicated to the user but the user was never told that it ended (indications %r)' % (kinds,)
        if s['timer_running']:
            return 'ARTIM still running in the idle state'
        return None


def faults_for(conv, tier):
    role, opts, turns = conv
    out = []
    for i, t in enumerate(turns):
        if t[0] == 'peer':
            blob = b''.join(t[1])
            step = 1 if (tier != 'quick' or len(blob) <= 120) else 3
            offs = sorted(set(list(range(0, len(blob), step)) + list(range(0, min(len(blob), 14))) +
                              [len(blob) - k for k in range(1, 8) if len(blob) - k > 0]))
            for off in offs:
                out.append(('eof', i, off))
            for off in sorted(set([0, 3, 6, len(blob) // 2, len(blob) - 1])):
                if 0 <= off < len(blob):
                    out.append(('reset', i, off))
        elif t[0] == 'user':
            out.append(('eof', i, 0))
            out.append(('reset', i, 0))
            if t[1] == 'store':
                for k in range(1, 5):
                    out.append(('eof-mid-send', i, k))
        out.append(('silence', i, 0))
        out.append(('fail-send', i, 0))
        out.append(('stall-send', i, 0))
        out.append(('stop', i, 0))
        if i == 1:
            out.append(('assoc-kill', i, 0))
            out.append(('stop-dead', i, 0))
    out.append(('none', -1, 0))
    return out


ENTITY_SCRIPT = '''
import os, sys, json
sys.path.insert(0, os.environ['REPO']); sys.path.insert(0, %r)
from harness import c20
print(json.dumps(c20.refusals_case({'refused': 6, 'wait': 13}) or c20.silent_peer_case({'busy': 0, 'wait': 14})))
'''


def entity_silent_start():
    """a real accepting entity on loopback TCP whose patience (60 s) is longer than ARTIM; the peer connects and never
    sends its first PDU: the connection must be closed when ARTIM (10 s) is over.  Fresh interpreter (real select, real
    clock), run beside the deterministic cases."""
    import os, subprocess, sys
    return subprocess.Popen([sys.executable, '-c', ENTITY_SCRIPT % os.path.dirname(os.path.dirname(os.path.abspath(__file__)))],
                            env=dict(os.environ, REPO=common.REPO), stdout=subprocess.PIPE, stderr=subprocess.PIPE)


def entity_silent_end(proc):
    import json
    try:
        out, err = proc.communicate(timeout=60)
    except Exception:  # pylint: disable=broad-except
        proc.kill()
        return 'the accepting entity with a silent peer did not finish within 60 s'
    if proc.returncode != 0:
        common.raise_for('lib: the accepting entity with a silent peer failed: ' + err.decode('utf-8', 'replace')[-600:])
    return json.loads(out.decode().strip().split('\n')[-1])


def endless_case(case):
    """a peer whose bytes keep coming without ever completing a PDU (a header announcing 1 GiB, then body for ever): every
    pass must still end, ARTIM must still be looked at (Sta2: the connection is dropped when it expires) and a stop request
    must still be seen"""
    from pynetdicom2 import pdu
    r = scen.Runner('acceptor', scen.default_acceptor_user())
    r.settle()
    if case['state'] == 6:
        r.feed(scen.rq_pdu().encode()); r.settle()
        if r.p.state != 6:
            return None if r.p.state == 1 else 'the association could not be established (Sta%d)' % r.p.state
    reads = {'n': 0}

    def more():
        reads['n'] += 1
        if reads['n'] > 3000:
            raise s2.WouldBlockForever('the pass is still reading after %d segments: it never looks at anything else while '
                                       'bytes keep arriving' % (reads['n'] - 1))
        r.sock.inbox.append(more)
        return b'\x00' * 700
    head = bytes([1 if case['state'] == 2 else 4, 0]) + (1 << 30).to_bytes(4, 'big')
    r.feed(head)
    r.sock.inbox.append(more)
    for k in range(60):
        reads['n'] = 0
        r.step()
        if r.tr.blocked or r.tr.crash:
            break
        if k == 30:
            r.advance(11)
    s = r.summary()
    if s['blocked']:
        return 'Sta%d, endless incomplete PDU: %s' % (case['state'], s['blocked'])
    if s['crash']:
        return 'Sta%d, endless incomplete PDU: the loop died: %s' % (case['state'], s['crash'])
    if case['state'] == 2 and (s['state'] != 1 or not s['closed']):
        return ('Sta2, the peer keeps sending an A-ASSOCIATE-RQ that never ends: ARTIM expired 30 passes ago and the provider is '
                'in Sta%d with the connection %s' % (s['state'], 'closed' if s['closed'] else 'open'))
    return None


def flood_case(case):
    """a user that is slow to read: many requests arrive and nobody takes the indications off the queue; a stop request
    must still complete (run() on a real thread)"""
    import threading
    import time
    from pynetdicom2 import dulprovider
    r = scen.Runner('acceptor', lambda x: [])
    r.settle()
    r.feed(scen.rq_pdu().encode()); r.settle()
    r.user(scen.ac_pdu()); r.settle()
    if r.p.state != 6:
        return 'the association could not be established (Sta%d)' % r.p.state
    for k in range(case['n']):
        for raw in scen.wire(scen.echo_rq(k + 1), 1, 16384):
            r.feed(raw)
    p = r.p
    p._budget = 10 ** 15
    p._is_killed.clear()
    s2.SELECT_SLEEP = 0.002
    try:
        th = threading.Thread(target=lambda: _swallow(p.run), daemon=True)
        th.start()
        t0 = time.time()
        while r.sock.inbox and time.time() - t0 < 3:
            time.sleep(0.01)
        time.sleep(0.1)
        done = threading.Event()

        def killer():
            dulprovider.DULServiceProvider.kill(p)
            done.set()
        threading.Thread(target=killer, daemon=True).start()
        if not done.wait(3):
            p._killed = True
            p._is_killed.set()
            return ('kill() did not return within 3 s: %d requests had arrived and the user had not read the indications yet '
                    '(%d were queued)' % (case['n'], p.to_service_user.qsize()))
        th.join(3)
        if th.is_alive():
            p._killed = True
            return 'kill() returned but the loop is still running (%d unread indications)' % p.to_service_user.qsize()
        return None
    finally:
        s2.SELECT_SLEEP = 0.0


def exact_buffer_case(case):
    """the peer's bytes end exactly where the provider's receive buffer ends (a segment of exactly the size it asks
    recv() for): nothing more is coming, the provider must work with what it has"""
    from pynetdicom2 import userdataitems as ud
    r = scen.Runner('acceptor', scen.default_acceptor_user())
    r.settle()
    base = len(scen.rq_pdu(extra=[ud.SOPClassExtendedNegotiationSubItem('1.2.3', b'')]).encode())
    size = case['size']
    raw = scen.rq_pdu(extra=[ud.SOPClassExtendedNegotiationSubItem('1.2.3', b'p' * (size - base))]).encode()
    if len(raw) != size:
        return 'harness: could not build a request of %d bytes (%d)' % (size, len(raw))
    r.feed(raw)
    r.settle()
    s = r.summary()
    if s['blocked']:
        return 'an A-ASSOCIATE-RQ of exactly %d bytes (the size of the receive buffer) in one segment: %s' % (size, s['blocked'])
    if s['crash']:
        return 'an A-ASSOCIATE-RQ of exactly %d bytes: the loop died: %s' % (size, s['crash'])
    if s['state'] != 6:
        return 'an A-ASSOCIATE-RQ of exactly %d bytes was not accepted: Sta%d' % (size, s['state'])
    return None


def replay(case):
    if case.get('exact_buffer'):
        return exact_buffer_case(case)
    if case.get('flood'):
        return flood_case(case)
    if case.get('endless'):
        return endless_case(case)
    if case.get('entity_silent'):
        return entity_silent_end(entity_silent_start())
    conv = conversations()[case['conversation']]
    v = Run(conv, tuple(case['fault'])).go()
    return None if v in ('n/a', 'late') else v


def run(chk):
    chk.rule = ('scenario corpus (echo, multi-fragment store, release from either side, release collision, abort from either '
                'side, reject, garbage, pipelining; both roles) run on the real provider loop (S2) with one fault each: the '
                'peer disconnecting after every byte prefix of every peer turn and before every local step (orderly close; and a '
                'connection reset, where recv raises, at five offsets of every turn), the peer going '
                'silent for ever after every turn (clock advanced past ARTIM), a transport write failing during every turn, the peer not reading for half a minute during every turn (a blocking send just takes longer), a stop '
                'requested at every quiescent point (run() in a real thread: a stop() that succeeds ends the loop and only in the idle, closed state; kill() returns - also after the loop has ended with an exception); '
                'oracle: no pass blocks, the loop does not die, final state idle, socket closed and dropped, ARTIM stopped, '
                'the user told when an association had been indicated; a peer whose bytes keep coming without ever completing a PDU (Sta2, Sta6); and a real accepting entity on loopback TCP whose peer never sends its first PDU (closed at ARTIM) or stays connected after being refused; non-trivial = faults that strike mid-conversation')
    chk.trusted += ['harness/s2.py: a recv() on a blocking socket with nothing to read is reported as blocking for ever',
                    'OS behaviour assumed: sendall() and connect() return (or raise) in bounded time']
    convs = conversations()
    ent = entity_silent_start()
    for name in sorted(convs):
        for fault in faults_for(convs[name], chk.tier):
            try:
                v = Run(convs[name], fault).go()
            except Exception as e:  # pylint: disable=broad-except
                common.raise_for('%s [conversation %s, fault %r]' % (common.describe_exc(e), name, fault))
            chk.case('%s %r' % (name, fault), fault[0] != 'none' and not (fault[0] == 'eof' and fault[2] == 0 and fault[1] == 0),
                     {'conversation': name, 'fault': fault[0], 'turn': fault[1], 'offset': fault[2]})
            chk.count('fault:' + fault[0]); chk.count('conv:' + name)
            if v in ('n/a', 'late'):
                chk.count('skipped:' + v)
                continue
            if v and fault[0] in ('stop', 'assoc-kill', 'stop-dead') and common.timing_verdict(v):
                # real threads, real seconds: counts only if it reproduces twice more
                if not all(Run(convs[name], fault).go() for _ in range(2)):
                    chk.count('timing-verdict-not-reproduced')
                    continue
            if v:
                chk.violation('C13:%s:%s' % (fault[0], v[:25]),
                              '%s, %s at turn %d offset %d: %s' % (name, fault[0], fault[1], fault[2], v),
                              {'conversation': name, 'fault': list(fault)})
    fc = {'flood': True, 'n': 120}
    try:
        v = flood_case(fc)
    except Exception as e:  # pylint: disable=broad-except
        common.raise_for(common.describe_exc(e))
    chk.case(repr(fc), True, {'120 requests unread, then kill()': True})
    chk.count('flood')
    if v and not (common.timing_verdict(v) and not (flood_case(fc) and flood_case(fc))):
        chk.violation('C13:flood', v, fc)
    for size in (16384, 32768):
        xc = {'exact_buffer': True, 'size': size}
        try:
            v = exact_buffer_case(xc)
        except Exception as e:  # pylint: disable=broad-except
            common.raise_for(common.describe_exc(e))
        if v and v.startswith('harness:'):
            raise common.Infra(v) if hasattr(common, 'Infra') else RuntimeError(v)
        chk.case(repr(xc), True, {'segment of exactly the receive size': size})
        chk.count('exact-buffer')
        if v:
            chk.violation('C13:exact-buffer', v, xc)
    for st in (2, 6):
        ec = {'endless': True, 'state': st}
        try:
            v = endless_case(ec)
        except Exception as e:  # pylint: disable=broad-except
            common.raise_for(common.describe_exc(e))
        chk.case(repr(ec), True, {'endless incomplete PDU': True, 'state': st})
        chk.count('endless')
        if v:
            chk.violation('C13:endless:%d' % st, v, ec)
    v = entity_silent_end(ent)
    chk.case('entity-silent', True, {'entity_silent': 'real accepting entity, peer never sends its first PDU'})
    chk.count('entity-silent')
    if v and not (common.timing_verdict(v) and not all(entity_silent_end(entity_silent_start()) for _ in range(2))):
        chk.violation('C13:entity-silent', v, {'entity_silent': True})
    chk.lean(['Dicom.Props.C13'])
