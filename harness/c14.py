"""C14 — rejection, abort and release reported faithfully: Lean fidelity theorems + runs on real threads (S3)."""
import multiprocessing
import os

from . import common, s3


def make_pair(counter):
    from pynetdicom2 import applicationentity as aem, sopclass as sc, statuses
    srv = s3.ServerAE()

    def echo_scp(asce, ctx, msg):
        counter['served'] += 1
        hook = counter.get('scp_hook')
        if hook and hook(asce, ctx, msg, counter['served']):
            return
        sc.verification_scp(asce, ctx, msg)
    echo_scp.sop_classes = [sc.VERIFICATION_SOP_CLASS]
    srv.add_scp(echo_scp)
    cli = aem.ClientAE('CLI').add_scu(sc.verification_scu)
    cli.timeout = 5
    return srv, cli


def recording_acceptor(counter):
    def hook(base):
        class Rec(base):
            def _loop(self):
                try:
                    super(Rec, self)._loop()
                except BaseException as e:  # pylint: disable=broad-except
                    counter['loop_exc'] = e
                    raise
        return Rec
    return hook


def run_case(case):
    from pynetdicom2 import sopclass as sc, exceptions
    counter = {'served': 0}
    srv, cli = make_pair(counter)
    echo = lambda a, k: a.get_scu(sc.VERIFICATION_SOP_CLASS)(k)      # noqa: E731
    kind = case['kind']
    if kind == 'reject':
        srv.reject = tuple(case['triple'])
        r = s3.run_pair(srv, cli, lambda a: echo(a, 1))
        e = r['client_exc']
        if not isinstance(e, exceptions.AssociationRejectedError):
            return 'refusal %r surfaces at the requestor as %r' % (case['triple'], e)
        got = (e.result, e.source, e.diagnostic)
        if got != tuple(case['triple']):
            return 'application refused with %r, requestor error carries %r' % (tuple(case['triple']), got)
        rj = [b for t, b in r['to_client'] if t == 3]
        if len(rj) != 1 or tuple(rj[0][7:10]) != tuple(case['triple']):
            return 'A-ASSOCIATE-RJ on the wire %r, application gave %r' % ([x.hex() for x in rj], case['triple'])
        if counter['served'] or any(t == 4 for t, _ in r['to_server']):
            return 'a service was invoked on a refused association'
        if r['server_alive']:
            return 'acceptor thread still alive after the refusal'
        return None
    if kind == 'acceptor-abort':
        reason, when = case['reason'], case['when']
        counter['scp_hook'] = lambda asce, ctx, msg, n: (asce.abort(reason) or True) if n == when else False

        def body(a):
            out = []
            for k in range(1, when + 1):
                out.append(int(echo(a, k)))
            return out
        r = s3.run_pair(srv, cli, body)
        e = r['client_exc']
        if not isinstance(e, exceptions.AssociationAbortedError):
            return 'acceptor aborted (reason %d) during exchange %d; requestor got %r' % (reason, when, e)
        if (e.source, e.reason_diag) != (2, reason):
            return 'acceptor aborted with (2, %d); requestor error carries (%r, %r)' % (reason, e.source, e.reason_diag)
        return None
    if kind == 'requestor-abort':
        reason, when = case['reason'], case['when']

        def body(a):
            for k in range(1, when):
                echo(a, k)
            a.abort(reason)
            return 'aborted'
        r = s3.run_pair(srv, cli, body, server_hook=recording_acceptor(counter))
        e = counter.get('loop_exc')
        if r['client_exc'] is not None:
            return 'requestor abort raised %r at the requestor' % (r['client_exc'],)
        if not isinstance(e, exceptions.AssociationAbortedError):
            return 'requestor aborted (reason %d) after %d exchanges; acceptor loop ended with %r' % (reason, when - 1, e)
        if (e.source, e.reason_diag) != (0, reason):
            return 'requestor aborted with (0, %d); acceptor error carries (%r, %r)' % (reason, e.source, e.reason_diag)
        ab = [b for t, b in r['to_server'] if t == 7]
        if len(ab) != 1 or (ab[0][8], ab[0][9]) != (0, reason):
            return 'A-ABORT on the wire %r' % ([x.hex() for x in ab],)
        return None
    if kind == 'raw-peer-abort':
        # the peer is not this library: it writes its last PDU and an A-ABORT in one segment and closes at once
        import socket, threading
        from pynetdicom2 import fsm, pdu
        from . import scen
        src, rsn = case['source'], case['reason']
        from . import s3 as _s3
        a, b = _s3.tcp_pair()
        done = {}

        def peer():
            try:
                buf = b''
                def read_pdu():
                    nonlocal buf
                    while True:
                        fr = s3.frames(buf)
                        if fr:
                            buf = buf[len(fr[0][1]):]
                            return fr[0]
                        d = b.recv(65536)
                        if not d:
                            return None
                        buf += d
                read_pdu()                                               # A-ASSOCIATE-RQ
                ac = pdu.AAssociateAcPDU('SRV', 'CLI', [pdu.ApplicationContextItem('1.2.840.10008.3.1.1.1'),
                     pdu.PresentationContextItemAC(1, 0, pdu.TransferSyntaxSubItem('1.2.840.10008.1.2.1')),
                     pdu.UserInformationItem([__import__('pynetdicom2').userdataitems.MaximumLengthSubItem(16384)])])
                b.sendall(ac.encode())
                read_pdu()                                               # C-ECHO-RQ
                rsp = scen.echo_rsp(1).encode(1, 16384)
                b.sendall(b''.join(p.encode() for p in rsp) + pdu.AAbortPDU(src, rsn).encode())
                b.close()
            except Exception as e:  # pylint: disable=broad-except
                done['peer_exc'] = e
        t = threading.Thread(target=peer)
        tee = s3.Tee(a)
        with s3._LOCK:
            saved = fsm.socket
            fsm.socket = s3.PairSocketModule(tee)
            t.start()
            got = {}
            try:
                try:
                    with cli.request_association({'aet': 'SRV', 'address': 'x', 'port': 0}) as assoc:
                        fsm.socket = saved
                        got['echo'] = int(echo(assoc, 1))
                        echo(assoc, 2)
                        got['second'] = 'answered'
                except BaseException as e:  # pylint: disable=broad-except
                    got['exc'] = e
            finally:
                fsm.socket = saved
        t.join(10)
        e = got.get('exc')
        if got.get('echo') != 0:
            return 'the echo answered before the abort was not delivered (%r, %r)' % (got.get('echo'), e)
        if not isinstance(e, exceptions.AssociationAbortedError) or (e.source, e.reason_diag) != (src, rsn):
            return ('peer sent its response and A-ABORT(%d, %d) in one segment and closed; the requestor surfaces %r %r'
                    % (src, rsn, e, (getattr(e, 'source', None), getattr(e, 'reason_diag', None))))
        return None
    if kind == 'raw-peer-release':
        # the peer (not this library) releases the association: instead of answering the n-th request ('during') or right
        # after answering it ('between').  The requestor must surface AssociationReleasedError; leaving the context manager
        # through that error must abort: A-ABORT on the wire, the peer is not left waiting.
        import socket, threading
        from pynetdicom2 import fsm, pdu
        from . import scen
        from . import s3 as _s3
        a, b = _s3.tcp_pair()
        done = {'types': [], 'eof': False}

        def peer():
            try:
                buf = b''
                b.settimeout(8)

                def read_pdu():
                    nonlocal buf
                    while True:
                        fr = s3.frames(buf)
                        if fr:
                            buf = buf[len(fr[0][1]):]
                            return fr[0]
                        d = b.recv(65536)
                        if not d:
                            return None
                        buf += d
                read_pdu()                                               # A-ASSOCIATE-RQ
                ac = pdu.AAssociateAcPDU('SRV', 'CLI', [pdu.ApplicationContextItem('1.2.840.10008.3.1.1.1'),
                     pdu.PresentationContextItemAC(1, 0, pdu.TransferSyntaxSubItem('1.2.840.10008.1.2.1')),
                     pdu.UserInformationItem([__import__('pynetdicom2').userdataitems.MaximumLengthSubItem(16384)])])
                b.sendall(ac.encode())
                for k in range(1, case['when'] + 1):
                    read_pdu()                                           # C-ECHO-RQ number k
                    if k < case['when'] or case['point'] == 'between':
                        b.sendall(b''.join(p.encode() for p in scen.echo_rsp(k).encode(1, 16384)))
                b.sendall(pdu.AReleaseRqPDU().encode())
                while True:
                    x = read_pdu()
                    if x is None:
                        done['eof'] = True
                        break
                    done['types'].append(x[0])
                    if x[0] == 7:
                        break                    # aborted: a peer closes its side now
                b.close()
            except Exception as e:  # pylint: disable=broad-except
                done['peer_exc'] = e
        t = threading.Thread(target=peer)
        tee = s3.Tee(a)
        with s3._LOCK:
            saved = fsm.socket
            fsm.socket = s3.PairSocketModule(tee)
            t.start()
            got = {'answers': 0}
            try:
                try:
                    with cli.request_association({'aet': 'SRV', 'address': 'x', 'port': 0}) as assoc:
                        fsm.socket = saved
                        for k in range(1, case['when'] + 2):
                            echo(assoc, k)
                            got['answers'] += 1
                except BaseException as e:  # pylint: disable=broad-except
                    got['exc'] = e
            finally:
                fsm.socket = saved
        t.join(12)
        try:
            b.close()
        except OSError:
            pass
        e = got.get('exc')
        want = case['when'] - (1 if case['point'] == 'during' else 0)
        if not isinstance(e, exceptions.AssociationReleasedError):
            return 'peer released the association %s exchange %d; the requestor surfaces %r' % (case['point'], case['when'], e)
        if got['answers'] != want:
            return '%d exchanges answered before the release surfaced, %d expected' % (got['answers'], want)
        after = [t_ for t_ in done['types'] if t_ != 4]
        if after != [7]:
            return ('the requestor left the association through AssociationReleasedError; the peer then saw PDUs %r%s '
                    '(A-ABORT expected: leaving through an error aborts)'
                    % (done['types'], ' and the connection closing' if done['eof'] else ' and nothing more within 8 s: it is left waiting'))
        return None
    if kind == 'exit':
        how = case['how']

        class Boom(Exception):
            pass

        def body(a):
            for k in range(1, case['when']):
                echo(a, k)
            if how == 'normal':
                return 'ok'
            if how == 'ValueError':
                raise ValueError('x')
            if how == 'custom':
                raise Boom()
            if how == 'class-not-supported':
                a.get_scu('1.2.3.4.5')
            if how == 'event-handling':
                raise exceptions.EventHandlingError('x')
            if how == 'timeout':
                raise exceptions.DCMTimeoutError()
            return 'ok'
        r = s3.run_pair(srv, cli, body, server_hook=recording_acceptor(counter))
        types_to_server = [t for t, _ in r['to_server']]
        tail = [t for t in types_to_server if t in (5, 7)]
        if how == 'normal':
            if r['client_exc'] is not None:
                return 'normal exit raised %r' % (r['client_exc'],)
            if tail != [5]:
                return 'leaving the association normally put %r on the wire (A-RELEASE-RQ expected)' % (tail,)
            if not isinstance(counter.get('loop_exc'), exceptions.AssociationReleasedError):
                return 'release surfaces at the acceptor as %r' % (counter.get('loop_exc'),)
            if [t for t, _ in r['to_client'] if t in (6, 7)] != [6]:
                return 'release not confirmed with A-RELEASE-RP'
        else:
            if r['client_exc'] is None:
                return 'the error did not propagate out of the context manager'
            if tail != [7]:
                return 'leaving the association through %s put %r on the wire (A-ABORT expected)' % (how, tail)
            e = counter.get('loop_exc')
            if not isinstance(e, exceptions.AssociationAbortedError) or (e.source, e.reason_diag) != (0, 0):
                return 'abort on error exit surfaces at the acceptor as %r' % (e,)
        if r['server_alive']:
            return 'acceptor thread still alive'
        return None
    raise KeyError(kind)


def guarded(case):
    try:
        return run_case(case)
    except BaseException as e:  # pylint: disable=broad-except
        return 'harness:' + common.describe_exc(e)


def replay(case):
    return common.bounded_map(guarded, [case], 1, 90)[0]      # in a worker: a hang inside the library is a verdict


def run(chk):
    tier = chk.tier
    rnd = common.rng('c14')
    chk.rule = ('two real Association objects with their real provider threads over a TCP connection on loopback, wire traffic teed: '
                'refusals with every standard (result, source, reason) triple (2 x 3 x 10) and seeded triples over the byte '
                'range; aborts by the acceptor (from inside a service, at the 1st..3rd exchange) and by the requestor (before '
                'and between exchanges) with reasons over the byte range; leaving request_association normally and through '
                'ValueError, a custom exception, ClassNotSupportedError, EventHandlingError, DCMTimeoutError, before and after '
                'exchanges; judged: error type and fields at the other side, PDUs on the wire, no service on refusal, acceptor '
                'thread gone; non-trivial = all')
    chk.trusted += ['harness/s3.py loopback pair + tee; OS thread scheduling is whatever it is on this run']
    cases = []
    triples = [(r, s, d) for r in (1, 2) for s in (1, 2, 3) for d in range(1, 11)]
    if tier == 'quick':
        triples = triples[::3]
    triples += [(0, 0, 0), (255, 255, 255)] + [(rnd.randrange(256), rnd.randrange(256), rnd.randrange(256)) for _ in range(10 if tier == 'quick' else 3000)]
    for t in triples:
        cases.append({'kind': 'reject', 'triple': list(t)})
    for reason in [0, 1, 2, 6, 255] + [rnd.randrange(256) for _ in range(2 if tier == 'quick' else 40)]:
        for when in (1, 2, 3):
            cases.append({'kind': 'acceptor-abort', 'reason': reason, 'when': when})
            cases.append({'kind': 'requestor-abort', 'reason': reason, 'when': when})
    for src, rsn in [(0, 0), (2, 1), (2, 6), (0, 255), (1, 7)] + [(rnd.randrange(3), rnd.randrange(256)) for _ in range(2)]:
        cases.append({'kind': 'raw-peer-abort', 'source': src, 'reason': rsn})
    for when in (1, 2):
        for point in ('during', 'between'):
            cases.append({'kind': 'raw-peer-release', 'when': when, 'point': point})
    for how in ('normal', 'ValueError', 'custom', 'class-not-supported', 'event-handling', 'timeout'):
        for when in (1, 2):
            cases.append({'kind': 'exit', 'how': how, 'when': when})
    results = common.bounded_map(guarded, cases, min(8, os.cpu_count() or 1), 90)
    for case, v in zip(cases, results):
        if v and v.startswith('harness:'):
            common.raise_for(v[len('harness:'):])
        chk.case(repr(case), True, case if len(chk.samples) < 8 and hash(repr(case)) % 9 == 0 else None)
        chk.count('kind:' + case['kind'])
        if v:
            # liveness-type verdicts on real threads count only if they reproduce
            if common.timing_verdict(v):
                again = common.bounded_map(guarded, [case, case], 2, 90)
                if not all(again):
                    chk.count('timing-verdict-not-reproduced')
                    continue
            chk.violation('C14:%s:%s' % (case['kind'], v[:25]), v, case)
    chk.lean(['Dicom.Props.C14'])
