"""C15 — C-STORE end to end; stored files never clobbered: Lean theorems (transport identity as the
composition of C06/C01/C03/C07, directory model) + real storage function on a real directory (S1) +
the whole stack on real threads over a socket pair (S3)."""
import io
import multiprocessing
import os
import shutil
import tempfile

from . import common, s3

IMG = '1.2.840.10008.5.1.4.1.1.7'


def make_dataset(rnd, size, uid):
    import pydicom
    ds = pydicom.Dataset()
    ds.SOPClassUID = IMG
    ds.SOPInstanceUID = uid
    ds.PatientName = 'Name^' + 'x' * rnd.choice([0, 1, 2, 7])           # odd / even lengths
    ds.PatientID = 'I' * rnd.choice([1, 2, 3])
    ds.Rows = rnd.randrange(65536)
    blob = rnd.randbytes(size + size % 2) if size > 100000 else bytes(rnd.randrange(256) for _ in range(size + size % 2))
    ds.add_new(0x00420011, 'OB', blob)     # Encapsulated Document
    if rnd.random() < 0.6:
        item = pydicom.Dataset(); item.ReferencedSOPClassUID = IMG; item.ReferencedSOPInstanceUID = '1.2.3.%d' % rnd.randrange(99)
        inner = pydicom.Dataset(); inner.CodeValue = 'C%d' % rnd.randrange(9); item.PurposeOfReferenceCodeSequence = pydicom.Sequence([inner])
        ds.ReferencedImageSequence = pydicom.Sequence([item, item] if rnd.random() < 0.5 else [item])
    return ds


# ------------------------------------------------------------------ S1: the storage function on a real directory
def storage_history(case):
    import pydicom
    import pynetdicom2
    from pynetdicom2 import asceprovider as ap
    from pydicom import uid as _u
    d = tempfile.mkdtemp(prefix='vp_c15_')
    try:
        ts = [_u.ImplicitVRLittleEndian, _u.ExplicitVRLittleEndian][case['ts']]
        before = {}
        ops = []
        for n in case.get('pre', []):        # files an earlier run of the server left in the directory
            with open(os.path.join(d, n), 'wb') as fh:
                fh.write(b'OLD ' + n.encode())
            before[n] = b'OLD ' + n.encode()
        for k, uid in enumerate(case['uids']):
            if isinstance(uid, list):
                # something else (an archiver, an operator) takes one of the stored files away: ['rm', index of the store]
                victim = sorted(before)[uid[1] % len(before)] if before else None
                if victim:
                    victim_body = before[victim][before[victim].index(b'PAYLOAD'):]
                    os.remove(os.path.join(d, victim))
                    del before[victim]
                    ops.append('r@' + victim_body.hex())
                continue
            cs = pydicom.Dataset(); cs.AffectedSOPClassUID = IMG; cs.AffectedSOPInstanceUID = uid
            ctx = ap.PContextDef(1, _u.UID(IMG), ts)
            f, start = pynetdicom2._get_storage_file(ctx, cs, d)
            payload = b'PAYLOAD-%d-' % k + bytes([k % 251]) * (k + 3)
            f.write(payload)
            f.close()
            after = {}
            for n in os.listdir(d):
                with open(os.path.join(d, n), 'rb') as fh:
                    after[n] = fh.read()
            changed = [n for n in before if after.get(n) != before[n]]
            if changed:
                return 'store #%d (instance %s) changed previously stored file(s) %r' % (k + 1, uid, changed)
            new = [n for n in after if n not in before]
            if len(new) != 1:
                return 'store #%d (instance %s) created %d new files %r' % (k + 1, uid, len(new), new)
            if not after[new[0]].endswith(payload) or after[new[0]][128:132] != b'DICM':
                return 'store #%d: the new file does not hold the instance' % (k + 1)
            before = after
            ops.append('s:%s:%s' % (uid, payload.hex()))
        # correspondence with the Lean directory model (Store.applyOps): which instances survive, with which contents
        # (how the files are *named* is the implementation's business and is not compared)
        if not case.get('pre'):
            got = []
            for n in sorted(before):
                body = before[n][before[n].index(b'PAYLOAD'):]
                k = int(body.split(b'-')[1])
                got.append('%s=%s' % (case['uids'][k], body.hex()))
            want = common.driver(['dir-ops ' + ' '.join(ops)])[0]
            model = sorted(x.split('#')[0] + '=' + x.split('=')[1] for x in want.split()) if want != 'bad-op' else ['bad-op']
            if sorted(got) != model:
                return 'model:the directory differs from the model after %r\nimpl  %s\nmodel %s' % (ops, ' '.join(sorted(got))[:300], ' '.join(model)[:300])
        return None
    finally:
        shutil.rmtree(d, ignore_errors=True)


def two_entities_case(case):
    """two entities in one process: X keeps a storage class in files, Y serves the same class in memory.  What Y's
    application is handed must be what Y was configured for (the transmitted bytes, not a file with a header)"""
    from pynetdicom2 import applicationentity as aem
    from . import msgs

    def service_for(classes):
        def svc(asce, ctx, *a):
            return None
        svc.sop_classes = list(classes)
        return svc
    K = '1.2.826.0.1.3680043.9.4.1'
    filed = service_for([K])
    filed.store_in_file = True
    x = aem.ClientAE('ENTITYX')
    aem.AE.add_scp(x, filed)
    y = aem.ClientAE('ENTITYY')
    aem.AE.add_scp(y, service_for([K]))
    if K not in x.store_in_file:
        return 'entity X was configured to keep class %s in files; its store_in_file is %r' % (K, sorted(x.store_in_file))
    if y.store_in_file:
        return ('entity Y serves class %s in memory, but after entity X of the same process was configured to keep that class in '
                'files, Y keeps %r in files too: its handler would be handed a file with a header, not the transmitted data set'
                % (K, sorted(y.store_in_file)))
    kept = getattr(msgs.real_acceptor(y).dul, 'store_in_file', None)
    if kept:
        return 'the acceptor of entity Y tells its provider to keep %r in files' % (sorted(kept),)
    return None


# ------------------------------------------------------------------ S3: the whole stack
def stack_case(case):
    import pydicom
    from pynetdicom2 import applicationentity as aem, sopclass as sc, statuses, exceptions, dsutils
    import pynetdicom2
    from pydicom import uid as _u
    rnd = common.rng('c15-%d' % case['seed'])
    ts = [_u.ImplicitVRLittleEndian, _u.ExplicitVRLittleEndian, _u.ExplicitVRBigEndian][case['ts']]
    d = tempfile.mkdtemp(prefix='vp_c15s_')
    src_dir = tempfile.mkdtemp(prefix='vp_c15f_')
    got = []
    try:
        class Srv(s3.ServerAE):
            def get_file(self, context, command_set):
                if case['sink'] == 'dir':
                    return pynetdicom2._get_storage_file(context, command_set, d)
                return aem.AEBase.get_file(self, context, command_set)

            def on_receive_store(self, context, ds_file):
                content = ds_file.read()
                got.append((str(context.sop_class), str(context.supported_ts), content))
                o = case['outcomes'][len(got) - 1]
                if o == 'err':
                    raise exceptions.EventHandlingError('no')
                return statuses.Status(o, __import__('pynetdicom2').dimsemessages.CStoreRSPMessage)
        srv = Srv('SRV', supported_ts=[ts], max_pdu_length=case['srv_max'])
        svc = sc.storage_scp
        if case['seed'] % 2:
            # the entity also *sends* instances of the class it receives (registered first)
            srv.add_scu(sc.storage_scu, [IMG])
        srv.supported_scp.update({IMG: svc})
        srv.update_context_def_list([IMG], True)
        cli = aem.ClientAE('CLI', supported_ts=[ts], max_pdu_length=case['cli_max']).add_scu(sc.storage_scu, [IMG])
        cli.timeout = case.get('timeout', 10)
        dss = [make_dataset(rnd, case['sizes'][k], case['uids'][k]) for k in range(len(case['uids']))]
        for k, ds in enumerate(dss):
            if (k + case['seed']) % 2 and case['source'] == 'memory':
                # a data set that remembers another syntax (read from a file, or sent before on another context): what
                # counts is the syntax negotiated for this association
                ds.is_implicit_VR = not ts.is_implicit_VR
                ds.is_little_endian = True

        def body(assoc):
            out = []
            store = assoc.get_scu(IMG)
            for k, ds in enumerate(dss):
                if case['source'] == 'file':
                    path = os.path.join(src_dir, 'src%d.dcm' % k)
                    meta = pydicom.dataset.FileMetaDataset()
                    incomplete = (k + case['seed']) % 3 == 2     # a file whose meta header lacks the instance UID
                    meta.MediaStorageSOPClassUID = IMG
                    if not incomplete:
                        meta.MediaStorageSOPInstanceUID = ds.SOPInstanceUID
                    meta.TransferSyntaxUID = ts; meta.ImplementationClassUID = '1.2.3.4'
                    fds = pydicom.dataset.FileDataset(path, ds, file_meta=meta, preamble=b'\0' * 128)
                    fds.is_implicit_VR = ts.is_implicit_VR; fds.is_little_endian = ts.is_little_endian
                    fds.save_as(path, write_like_original=incomplete)
                    out.append(int(store(path, k + 1)))
                else:
                    out.append(int(store(ds, k + 1)))
            return out
        r = s3.run_pair(srv, cli, body)
        if r['client_exc'] is not None:
            return 'storing raised %r at the sender' % (r['client_exc'],)
        want_status = [0xC000 if o == 'err' else o for o in case['outcomes']]
        if r['out'] != want_status:
            return 'handler returned %r, sender got %r' % (['%04x' % x for x in want_status], ['%04x' % x for x in r['out']])
        if len(got) != len(dss):
            return 'handler called %d times for %d stores' % (len(got), len(dss))
        for k, (ds, (cls, tsu, content)) in enumerate(zip(dss, got)):
            rd = pydicom.dcmread(io.BytesIO(content))
            if str(rd.file_meta.MediaStorageSOPClassUID) != IMG or str(rd.file_meta.MediaStorageSOPInstanceUID) != ds.SOPInstanceUID:
                return 'instance %d tagged %s / %s, sent %s / %s' % (k + 1, rd.file_meta.MediaStorageSOPClassUID,
                                                                      rd.file_meta.MediaStorageSOPInstanceUID, IMG, ds.SOPInstanceUID)
            sent = dsutils.encode(ds, ts.is_implicit_VR, ts.is_little_endian)
            if dsutils.encode(rd, ts.is_implicit_VR, ts.is_little_endian) != sent or not content.endswith(sent):
                return 'instance %d (%d bytes, limits %d/%d, %s source): the handler did not receive the data set that was sent' % (
                    k + 1, len(sent), case['cli_max'], case['srv_max'], case['source'])
        # every P-DATA within the announced limits
        if case['sink'] == 'dir':
            names = sorted(os.listdir(d))
            if len(names) != len(dss):
                return '%d stores left %d files in the storage directory: %r' % (len(dss), len(names), names)
            held = []
            for n in names:
                with open(os.path.join(d, n), 'rb') as fh:
                    held.append(fh.read())
            for k, ds in enumerate(dss):
                sent = dsutils.encode(ds, ts.is_implicit_VR, ts.is_little_endian)
                if not any(h.endswith(sent) for h in held):
                    return 'the file of store #%d is gone or was overwritten (files %r)' % (k + 1, names)
        if r['server_alive']:
            return 'acceptor thread still alive'
        return None
    finally:
        shutil.rmtree(d, ignore_errors=True)
        shutil.rmtree(src_dir, ignore_errors=True)


def guarded(case):
    try:
        if case['kind'] == 'two-entities':
            return two_entities_case(case)
        return (storage_history if case['kind'] == 'dir' else stack_case)(case)
    except BaseException as e:  # pylint: disable=broad-except
        return 'harness:' + common.describe_exc(e)


def replay(case):
    return common.bounded_map(guarded, [case], 1, 120)[0]     # in a worker: a hang inside the library is a verdict


def run(chk):
    tier = chk.tier
    rnd = common.rng('c15')
    chk.rule = ('(S1) the real _get_storage_file on a real temporary directory over histories of up to 8 stores with repeated '
                'instance UIDs (the same instance up to 5 times, interleaved with others), directory snapshot compared after '
                'every store, also with files of an earlier run already present; (S3) real storage_scu -> real storage_scp over a socket pair with real provider threads: seeded '
                'data sets (a few bytes to many fragments, nested sequences, odd-length values) x 3 transfer syntaxes x '
                'asymmetric maximum lengths x memory/file source (every third file without the instance UID in its meta header) x temp-file/directory reception x handler outcomes (success, '
                'warning, failure, EventHandlingError) x repeated instance UIDs; the handler\'s bytes are re-read with '
                'pydicom and compared with what was sent; non-trivial = all')
    chk.trusted += ['harness/s3.py; pydicom for data set encoding and file reading']
    cases = []
    for hist in (['1.2.3'], ['1.2.3', '1.2.3'], ['1.2.3'] * 3, ['1.2.3'] * 5, ['1.2.3', '1.2.4', '1.2.3', '1.2.4', '1.2.3'],
                 ['9.1', '9.2', '9.3'], ['7.7', '7.7', '8.8', '7.7', '7.7', '8.8', '8.8', '7.7']):
        for ts in (0, 1):
            cases.append({'kind': 'dir', 'uids': hist, 'ts': ts})
    # an earlier copy is taken away between two stores of the same instance: the copies that remain must survive
    for hist in (['1.2.3', '1.2.3', ['rm', 0], '1.2.3'], ['1.2.3', '1.2.3', '1.2.3', ['rm', 1], '1.2.3', '1.2.3'],
                 ['4.4', '4.4', ['rm', 0], ['rm', 0], '4.4', '4.4'], ['1.2.3', '1.2.4', '1.2.3', ['rm', 0], '1.2.4', '1.2.3']):
        cases.append({'kind': 'dir', 'uids': hist, 'ts': 0})
    # the directory already holds files of an earlier run (another process): they must survive too
    cases.append({'kind': 'dir', 'uids': ['1.2.3'], 'ts': 0, 'pre': ['1.2.3.dcm']})
    cases.append({'kind': 'dir', 'uids': ['1.2.3', '1.2.3'], 'ts': 1, 'pre': ['1.2.3.dcm', '1.2.3.dcm_1']})
    cases.append({'kind': 'dir', 'uids': ['5.5', '1.2.3', '5.5'], 'ts': 0, 'pre': ['1.2.3.dcm', '5.5.dcm', 'other.txt']})
    cases.append({'kind': 'two-entities'})
    seed = 0
    limits = [(16384, 16384), (128, 65536), (65536, 128), (0, 1024), (1024, 0), (24, 300), (300, 64)]
    n = 14 if tier == 'quick' else 400
    for i in range(n):
        seed += 1
        k = rnd.choice([1, 2, 3])
        uids = ['1.2.840.%d.%d' % (i, rnd.randrange(2)) for _ in range(k)] if i % 2 else ['1.2.840.%d.1' % i] * k
        cli_max, srv_max = limits[i % len(limits)]
        lim = min(x for x in (cli_max or 65536, srv_max or 65536))
        # keep each message under ~80 fragments (before repair D24 every fragment cost 50 ms; the one big case below is
        # the one that shows that defect)
        cap = max(0, 80 * (lim - 6) - 400)
        sizes = [min(cap, rnd.choice([0, 1, 5, 200, 3000, 20000])) for _ in range(k)]
        cases.append({'kind': 'stack', 'seed': seed, 'ts': i % 3, 'cli_max': cli_max, 'srv_max': srv_max, 'uids': uids, 'sizes': sizes,
                      'source': ['memory', 'file'][i % 2], 'sink': ['dir', 'tmp'][(i // 2) % 2],
                      'outcomes': [rnd.choice([0, 0, 0xB000, 0xB007, 0xA700, 'err']) for _ in range(k)]})
    # one data set far larger than the rest, with the library's default timeout and a common PDU size: a healthy peer on
    # loopback must get it (400+ fragments)
    seed += 1
    cases.append({'kind': 'stack', 'seed': seed, 'ts': 0, 'cli_max': 16384, 'srv_max': 16384, 'uids': ['1.2.840.99.1'], 'sizes': [6000000],
                  'source': 'memory', 'sink': 'tmp', 'outcomes': [0], 'timeout': 15})
    if tier != 'quick':
        for k, (ts_, cm, sm, src, snk, size) in enumerate([(1, 16384, 4096, 'file', 'dir', 5000000), (2, 0, 0, 'memory', 'tmp', 20000000),
                                                           (0, 4096, 65536, 'file', 'tmp', 3000000), (1, 65536, 16384, 'memory', 'dir', 9000001)]):
            seed += 1
            cases.append({'kind': 'stack', 'seed': seed, 'ts': ts_, 'cli_max': cm, 'srv_max': sm, 'uids': ['1.2.840.98.%d' % k], 'sizes': [size],
                          'source': src, 'sink': snk, 'outcomes': [0], 'timeout': 15})
    results = common.bounded_map(guarded, cases, min(8, os.cpu_count() or 1), 120)
    for case, v in zip(cases, results):
        if v and v.startswith('harness:'):
            common.raise_for(v[len('harness:'):])
        if v and v.startswith('model:'):
            chk.broke('correspondence Store.applyOps (names and contents of the storage directory)', v[len('model:'):], case)
            v = None
        chk.case(repr(case), True, {k: case[k] for k in case if k not in ('seed',)} if len(chk.samples) < 6 else None)
        chk.count('kind:' + case['kind'])
        if case['kind'] == 'stack':
            chk.count('source:' + case['source']); chk.count('sink:' + case['sink'])
        if v:
            if common.timing_verdict(v) and case['kind'] == 'stack':
                # a verdict that depends on real time (threads, 50 ms polls, timeouts) counts only if it reproduces twice more
                again = common.bounded_map(guarded, [case, case], 2, 120)
                if not all(again):
                    chk.count('timing-verdict-not-reproduced'); continue
            chk.violation('C15:%s:%s' % (case['kind'], v[:25]), v, case)
    chk.lean(['Dicom.Props.C15'])
