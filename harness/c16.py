"""C16 — C-FIND returns exactly the matches the SCP produced, in order, then stops."""
import types

from . import common, svc, msgs


def make_ds(rnd, k):
    import pydicom
    ds = pydicom.Dataset()
    ds.PatientName = 'P%d^%s' % (k, 'x' * rnd.choice([0, 1, 5, 40, 300]))
    ds.PatientID = 'ID%d' % k
    if rnd.random() < 0.5:
        ds.StudyInstanceUID = '1.2.%d.%d' % (k, rnd.randrange(1000))
    return ds


def run_case(case):
    """provider and user run against each other through their wire forms; returns failure text or None"""
    import pydicom
    from pynetdicom2 import sopclass as sc, dimsemessages as dm, dsutils, statuses
    rnd = common.rng('c16-%d' % case['seed'])
    ts = svc.TSS[case['ts']]
    n = case['n']
    sts = [0xFF00 if rnd.random() < 0.5 else 0xFF01 for _ in range(n)] if case['mix'] else [case['code']] * n
    empties = set(case.get('empties', ()))      # matches the handler yields with an empty identifier
    matches = [(pydicom.Dataset() if k in empties else make_ds(rnd, k), statuses.Status(sts[k], dm.CFindRSPMessage)) for k in range(n)]
    query = make_ds(rnd, 999)
    seen = {}

    def on_receive_find(context, ds):
        seen['query'] = ds
        seen['ctx'] = context
        return iter(matches)
    provider = {'find': sc.qr_find_scp, 'mwl': sc.modality_work_list_scp}[case['variant'] if case['variant'] != 'wrapper' else 'find']
    user = {'find': sc.qr_find_scu, 'mwl': sc.modality_work_list_scu, 'wrapper': sc.qr_find_scu}[case['variant']]
    sop = sc.PATIENT_ROOT_FIND_SOP_CLASS if case['variant'] != 'mwl' else sc.MODALITY_WORK_LIST_INFORMATION_FIND_SOP_CLASS
    c = svc.ctx(case['pc'], sop, ts)
    # --- user side sends the request
    ua = svc.MockAssociation(types.SimpleNamespace(), max_pdu_length=case['maxlen'])
    gen = user(ua, c, query, case['msgid'])
    # the generator body runs up to the first receive(): feed it lazily
    pa = svc.MockAssociation(types.SimpleNamespace(on_receive_find=on_receive_find), max_pdu_length=case['maxlen'])
    state = {'rsp': None}

    def lazy_receive():
        # first receive(): the request is on the wire; run the provider on it and queue its responses
        if state['rsp'] is None:
            w = ua.wire()
            if len(w) != 1:
                raise AssertionError('user sent %d messages' % len(w))
            f = svc.fields(w[0])
            rq, pc = svc.received(dm.CFindRQMessage, f['ctx'][0], message_id=f['msgid'], sop_class_uid=f['sop_class'], priority=0,
                                  data_set=f['data'])
            provider(pa, c, rq)
            state['rsp'] = []
            for wr in pa.wire():
                ff = svc.fields(wr)
                m, _ = svc.received(dm.CFindRSPMessage, ff['ctx'][0], message_id_being_responded_to=ff['msgid_rsp'],
                                    sop_class_uid=ff['sop_class'], status=ff['status'],
                                    data_set=ff['data'] if ff['dstype'] != 0x0101 else None)
                if ff['dstype'] != 0x0101 and not ff['data']:
                    state['bad'] = 'response says a data set follows but none does'
                state['rsp'].append((m, ff['ctx'][0]))
            state['wire'] = [svc.fields(x) for x in pa.wire()] if False else None
        if not state['rsp']:
            raise RuntimeError('the user asked for another response after the final one')
        return state['rsp'].pop(0)
    ua.receive = lazy_receive
    got = []
    try:
        for item in gen:
            got.append(item)
            if len(got) > n + 5:
                return 'iteration does not end after the final response'
    except RuntimeError as e:
        return str(e)
    if state.get('bad'):
        return state['bad']
    if state['rsp']:
        return 'iteration ended with %d responses unread' % len(state['rsp'])
    # the query reached the handler unchanged
    if 'query' not in seen or dsutils.encode(seen['query'], True, True) != dsutils.encode(query, True, True):
        return 'the query data set did not reach the handler unchanged'
    # an empty identifier travels as "no data set": it reaches the user as None
    want = [(dsutils.encode(d, True, True) or None, int(s)) for d, s in matches] + [(None, 0)]
    have = [(None if d is None else (dsutils.encode(d, True, True) or None), int(s)) for d, s in got]
    if have != want:
        return ('user received %d results %r, provider produced %d matches %r then the final response'
                % (len(have), [(None if d is None else len(d), '%04x' % s) for d, s in have][:6], n,
                   [(None if d is None else len(d), '%04x' % s) for d, s in want][:6]))
    if any(s.is_pending for _, s in got[-1:]):
        return 'the last response yielded is pending'
    return None, sts


def run_scripted(case):
    """the user side against a scripted peer (not this library's provider): k pending responses, then ONE final response
    with any non-pending status - success, failure, cancel, warning-class or unknown code.  The user must yield
    the k matches and the final status and then stop: it must not ask for another response."""
    from pynetdicom2 import sopclass as sc, dimsemessages as dm, dsutils
    rnd = common.rng('c16s-%d' % case['seed'])
    ts = svc.TSS[case['ts']]
    user = {'find': sc.qr_find_scu, 'mwl': sc.modality_work_list_scu}[case['variant']]
    sop = sc.PATIENT_ROOT_FIND_SOP_CLASS if case['variant'] != 'mwl' else sc.MODALITY_WORK_LIST_INFORMATION_FIND_SOP_CLASS
    c = svc.ctx(case['pc'], sop, ts)
    dss = [make_ds(rnd, k) for k in range(case['n'])]
    script = []
    for k, ds in enumerate(dss):
        script.append(svc.received(dm.CFindRSPMessage, case['pc'], message_id_being_responded_to=case['msgid'], sop_class_uid=sop,
                                   status=case['pending'][k % len(case['pending'])],
                                   data_set=dsutils.encode(ds, ts.is_implicit_VR, ts.is_little_endian)))
    final_ds = make_ds(rnd, 777) if case.get('final_ds') else None       # a final response may carry an identifier too
    script.append(svc.received(dm.CFindRSPMessage, case['pc'], message_id_being_responded_to=case['msgid'], sop_class_uid=sop,
                               status=case['final'],
                               data_set=None if final_ds is None else dsutils.encode(final_ds, ts.is_implicit_VR, ts.is_little_endian)))
    ua = svc.MockAssociation(types.SimpleNamespace(), max_pdu_length=16384)

    def receive():
        if not script:
            raise RuntimeError('the user asked for another response after the final one (status %04x)' % case['final'])
        return script.pop(0)
    ua.receive = receive
    got = []
    try:
        for item in user(ua, c, make_ds(rnd, 999), case['msgid']):
            got.append(item)
            if len(got) > case['n'] + 3:
                return 'iteration does not end after the final response (status %04x)' % case['final']
    except RuntimeError as e:
        return str(e)
    if script:
        return 'iteration ended with %d responses unread' % len(script)
    want = [(dsutils.encode(d, True, True), case['pending'][k % len(case['pending'])]) for k, d in enumerate(dss)] + \
        [(None if final_ds is None else dsutils.encode(final_ds, True, True), case['final'])]
    have = [(None if d is None else dsutils.encode(d, True, True), int(st)) for d, st in got]
    if have != want:
        return 'user yielded %r for %d matches then final %04x' % ([(None if d is None else len(d), '%04x' % st) for d, st in have][:6],
                                                                 case['n'], case['final'])
    return None


def run_wrapper(case):
    """the convenience wrapper pynetdicom2.c_find against a real AE on loopback TCP (real threads)"""
    import threading
    import pydicom
    import pynetdicom2
    from pynetdicom2 import applicationentity as aem, sopclass as sc, statuses, dsutils
    n = case['n']
    seen = {}

    class Srv(aem.AE):
        def on_receive_find(self, context, ds):
            seen['pid'] = str(ds.PatientID)
            seen['query'] = dsutils.encode(ds, True, True)
            seen.setdefault('all', []).append(seen['query'])
            ds.PatientID = 'EDITED-BY-HANDLER'          # an application may do what it likes with the query it was handed

            def gen():
                for j in range(n):
                    d = pydicom.Dataset()
                    d.PatientID = 'W%d' % j
                    d.PatientName = 'N' * (j * 37 % 90)
                    yield d, (statuses.C_FIND_PENDING if j % 2 == 0 else statuses.C_FIND_PENDING_WARNING)
            return gen()
    srv = Srv('SRV', 0, max_pdu_length=case['maxlen'])
    srv.timeout = 10
    srv.add_scp(sc.qr_find_scp)
    port = srv.server_address[1]
    box = {}

    def body():
        try:
            q = pydicom.Dataset(); q.PatientID = 'QUERY%d' % n
            if n % 2:
                q.QueryRetrieveLevel = 'PATIENT'        # (even n: the caller's query has no level; it must arrive as it is)
            box['query_before'] = dsutils.encode(q, True, True)
            box['q'] = q
            box['got'] = [(None if d is None else (str(d.PatientID), str(d.PatientName)), int(st))
                          for d, st in pynetdicom2.c_find({'aet': 'SRV', 'address': '127.0.0.1', 'port': port}, 'WRAPPER', q)]
            if n <= 5:
                # the same query once more, on a new association: the handler must be handed the query again, untouched
                box['again'] = [(None if d is None else (str(d.PatientID), str(d.PatientName)), int(st))
                                for d, st in pynetdicom2.c_find({'aet': 'SRV', 'address': '127.0.0.1', 'port': port}, 'WRAPPER', q)]
        except BaseException as e:  # pylint: disable=broad-except
            box['exc'] = e
    with srv:
        th = threading.Thread(target=body, daemon=True)
        th.start()
        th.join(30)
        if th.is_alive():
            return 'c_find() did not finish within 30 s (%d matches)' % n
    if 'exc' in box:
        return 'c_find() raised %r' % (box['exc'],)
    want = [(('W%d' % j, 'N' * (j * 37 % 90)), 0xFF00 if j % 2 == 0 else 0xFF01) for j in range(n)] + [(None, 0)]
    if box.get('got') != want:
        return 'c_find() yielded %r, the handler produced %d matches then the final response' % (box.get('got'), n)
    if 'again' in box and box['again'] != want:
        return 'the same query asked a second time yielded %r' % (box['again'],)
    if any(x != box['query_before'] for x in seen.get('all', [])):
        return ('the same query was asked %d times; the handler was handed %r' %
                (len(seen['all']), ['the query' if x == box['query_before'] else 'something else (%d bytes)' % len(x) for x in seen['all']]))
    if seen.get('pid') != 'QUERY%d' % n:
        return 'the query did not reach the handler (%r)' % (seen.get('pid'),)
    if seen.get('query') != box['query_before']:
        return 'the query data set did not reach the handler unchanged (caller sent %d bytes, handler saw %d)' % (
            len(box['query_before']), len(seen.get('query') or b''))
    if dsutils.encode(box['q'], True, True) != box['query_before']:
        return "c_find() changed the caller's query data set"
    return None


def _cmd_fields(cmd):
    """group-0 elements of an implicit-VR-LE command set: {element: value bytes}"""
    out, pos = {}, 0
    while pos + 8 <= len(cmd):
        g, e, ln = int.from_bytes(cmd[pos:pos + 2], 'little'), int.from_bytes(cmd[pos + 2:pos + 4], 'little'), int.from_bytes(cmd[pos + 4:pos + 8], 'little')
        out[e] = cmd[pos + 8:pos + 8 + ln]
        pos += 8 + ln
    return out


def run_slow_reader(case):
    """a real AE on loopback TCP answering a C-FIND with more data than the socket buffers hold, to a peer that stops
    reading for several seconds and then reads on, while the application is still producing matches (so the entity is not
    idle: its own timeout, shorter than the stall, does not apply).  Nothing has failed, so every match and the final
    response must still arrive, each with its own content (the handler is cursor-style: one Dataset object re-filled for
    every match)."""
    import socket
    import time
    import pydicom
    from pynetdicom2 import applicationentity as aem, sopclass as sc, statuses, pdu, userdataitems as ud, dimsemessages as dm, dsutils
    from . import s3, msgs
    n, size = case['n'], case['size']

    class Srv(aem.AE):
        def on_receive_find(self, context, ds):
            def gen():
                d = pydicom.Dataset()           # a cursor: the same object, re-filled
                for j in range(n):
                    d.PatientID = 'S%d' % j
                    d.PatientComments = chr(65 + j % 26) * size
                    time.sleep(case.get('pace', 0))      # the application takes its time over every match
                    yield d, statuses.C_FIND_PENDING
            return gen()
    srv = Srv('SRV', 0, max_pdu_length=0)
    srv.timeout = case['entity_timeout']
    srv.add_scp(sc.qr_find_scp)
    seen, final, why = [], None, None
    with srv:
        c = socket.socket()
        c.setsockopt(socket.SOL_SOCKET, socket.SO_RCVBUF, 16384)
        c.settimeout(30)
        c.connect(('127.0.0.1', srv.server_address[1]))
        rq = pdu.AAssociateRqPDU('SRV', 'SLOW', [
            pdu.ApplicationContextItem('1.2.840.10008.3.1.1.1'),
            pdu.PresentationContextItemRQ(1, pdu.AbstractSyntaxSubItem(sc.PATIENT_ROOT_FIND_SOP_CLASS),
                                          [pdu.TransferSyntaxSubItem('1.2.840.10008.1.2')]),
            pdu.UserInformationItem([ud.MaximumLengthSubItem(0)])])
        c.sendall(rq.encode())
        buf = b''
        try:
            while not s3.frames(buf):
                d = c.recv(65536)
                if not d:
                    return 'the entity closed the connection instead of answering the request'
                buf += d
            if buf[0] != 2:
                return 'the entity did not accept the association (PDU type %d)' % buf[0]
            buf = buf[len(s3.frames(buf)[0][1]):]
            q = pydicom.Dataset(); q.PatientID = '*'; q.QueryRetrieveLevel = 'PATIENT'
            m = dm.CFindRQMessage(); m.message_id = 5; m.sop_class_uid = sc.PATIENT_ROOT_FIND_SOP_CLASS; m.priority = 0
            m.data_set = dsutils.encode(q, True, True)
            m.set_length()
            for p in m.encode(1, 0):
                c.sendall(p.encode())
            time.sleep(case['stall'])              # ... the peer is busy with something else; then it reads on
            cmd, data, status = b'', b'', None
            t0 = time.time()
            while final is None and why is None and time.time() - t0 < 120:
                fr = s3.frames(buf)
                if not fr:
                    d = c.recv(1 << 20)
                    if not d:
                        why = 'the entity closed the connection'
                        break
                    buf += d
                    continue
                for typ, raw in fr:
                    buf = buf[len(raw):]
                    if typ != 4:
                        why = 'the entity sent a PDU of type %d' % typ
                        break
                    for _, mch, body in msgs.parse_pdata(raw):
                        if mch & 1:
                            cmd += body
                            if mch & 2:
                                f = _cmd_fields(cmd)
                                status = int.from_bytes(f.get(0x0900, b'\xff\xff'), 'little')
                                has_ds = int.from_bytes(f.get(0x0800, b'\x01\x01'), 'little') != 0x0101
                                cmd = b''
                                if not has_ds:
                                    if status in (0xFF00, 0xFF01):
                                        seen.append(None)
                                    else:
                                        final = status
                        else:
                            data += body
                            if mch & 2:
                                try:
                                    ds = dsutils.decode(data, True, True)
                                    seen.append((str(ds.PatientID), str(ds.PatientComments)[:1], len(str(ds.PatientComments))))
                                except Exception:  # pylint: disable=broad-except
                                    seen.append(('not a readable identifier', '', len(data)))
                                data = b''
                    if final is not None:
                        break
        except socket.timeout:
            why = 'nothing more arrived for 30 s'
        finally:
            try:
                c.sendall(pdu.AAbortPDU(0, 0).encode())
            except OSError:
                pass
            c.close()
    want = [('S%d' % j, chr(65 + j % 26), size) for j in range(n)]
    if seen != want or final != 0:
        k = next((i for i, (a, b) in enumerate(zip(seen, want)) if a != b), min(len(seen), len(want)))
        return ('a peer that stopped reading for %d s while the application was producing matches (entity timeout %d s) and then read on received %d of %d matches%s, final '
                'status %s%s' % (case['stall'], case['entity_timeout'], len(seen), n,
                                 '' if seen == want[:len(seen)] else '; match #%d arrived as %r, the handler yielded %r' % (k, seen[k] if k < len(seen) else None, want[k] if k < len(want) else None),
                                 'none' if final is None else '%#06x' % final, '; ' + why if why else ''))
    return None


def run_wrapper_final(case):
    """the c_find wrapper against a provider that ends the query with a non-success final status (a real AE on loopback TCP
    whose find service is the application's own): the matches, then the final status, must be yielded - not raised"""
    import threading
    import pydicom
    import pynetdicom2
    from pynetdicom2 import applicationentity as aem, sopclass as sc, dimsemessages as dm, dsutils
    n, final = case['n'], case['final']

    def find_scp(asce, ctx, msg):
        for j in range(n):
            rsp = dm.CFindRSPMessage()
            rsp.message_id_being_responded_to = msg.message_id
            rsp.sop_class_uid = msg.sop_class_uid
            rsp.status = 0xFF00
            d = pydicom.Dataset(); d.PatientID = 'F%d' % j
            rsp.data_set = dsutils.encode(d, ctx.supported_ts.is_implicit_VR, ctx.supported_ts.is_little_endian)
            asce.send(rsp, ctx.id)
        rsp = dm.CFindRSPMessage()
        rsp.message_id_being_responded_to = msg.message_id
        rsp.sop_class_uid = msg.sop_class_uid
        rsp.status = final
        asce.send(rsp, ctx.id)
    find_scp.sop_classes = list(sc.qr_find_scp.sop_classes)
    srv = aem.AE('SRV', 0)
    srv.timeout = 10
    srv.add_scp(find_scp)
    box = {}

    def body():
        try:
            q = pydicom.Dataset(); q.PatientID = '*'; q.QueryRetrieveLevel = 'PATIENT'
            box['got'] = [(None if d is None else str(d.PatientID), int(st))
                          for d, st in pynetdicom2.c_find({'aet': 'SRV', 'address': '127.0.0.1', 'port': srv.server_address[1]}, 'WRAPPER', q)]
        except BaseException as e:  # pylint: disable=broad-except
            box['exc'] = e
    with srv:
        th = threading.Thread(target=body, daemon=True)
        th.start()
        th.join(30)
        if th.is_alive():
            return 'c_find() did not finish within 30 s (final status %#06x)' % final
    want = [('F%d' % j, 0xFF00) for j in range(n)] + [(None, final)]
    if 'exc' in box:
        return 'c_find() against a provider that ends the query with status %#06x raised %r; it should have yielded %r' % (final, box['exc'], want[-2:])
    if box.get('got') != want:
        return 'c_find() yielded %r; the provider sent %d matches and the final status %#06x' % (box.get('got'), n, final)
    return None


def run_default_entity(case):
    """the provider on an entity that does not override on_receive_find: no matches, exactly one final success"""
    import pydicom
    from pynetdicom2 import sopclass as sc, dimsemessages as dm, dsutils, applicationentity as aem
    provider = {'find': sc.qr_find_scp, 'mwl': sc.modality_work_list_scp}[case['variant']]
    sop = sc.PATIENT_ROOT_FIND_SOP_CLASS if case['variant'] != 'mwl' else sc.MODALITY_WORK_LIST_INFORMATION_FIND_SOP_CLASS
    pa = svc.MockAssociation(aem.AEBase(None, 16384))
    q = pydicom.Dataset(); q.PatientID = '*'
    rq, _ = svc.received(dm.CFindRQMessage, case['pc'], message_id=case['msgid'], sop_class_uid=sop, priority=0,
                         data_set=dsutils.encode(q, True, True))
    try:
        provider(pa, svc.ctx(case['pc'], sop), rq)
    except Exception as e:  # pylint: disable=broad-except
        return 'the provider on an entity with the default on_receive_find raised %r' % (e,)
    w = [svc.fields(x) for x in pa.wire()]
    if [f['status'] for f in w] != [0]:
        return 'a query on an entity with the default on_receive_find is answered with statuses %r (one final success expected)' % (
            [f['status'] for f in w],)
    return None


def replay(case):
    if case.get('wrapper_final'):
        return run_wrapper_final(case)
    if case.get('slow_reader'):
        return run_slow_reader(case)
    if case.get('default_entity'):
        return run_default_entity(case)
    if case.get('wrapper'):
        return run_wrapper(case)
    if 'final' in case:
        return run_scripted(case)
    r = run_case(case)
    return r if isinstance(r, str) else None


def run(chk):
    tier = chk.tier
    rnd = common.rng('c16')
    chk.rule = ('real qr_find_scp / modality_work_list_scp driven against the real qr_find_scu / modality_work_list_scu '
                'through their wire forms (real Association.send on a stub provider whose fragments are consumed only after '
                'the provider finished, as a slow provider thread would): result sequences of length 0..30 with FF00/FF01 in '
                'every mix, three transfer syntaxes, maximum lengths that force multi-fragment responses, boundary message '
                'ids; the yielded (data set, status) pairs are compared with the handler\'s matches, and the status sequence '
                'with the Lean model findScu (findScp ..); and the user side alone against a scripted peer whose single final response '
                'carries each class of non-pending status (success, refused, failed, cancelled, warning-class, unknown) after 0, 1, 3 '
                'pending ones: it must yield them all and then stop; non-trivial = at least one match')
    chk.trusted += ['harness/svc.py mock association (scripted receive, deferred consumption of sent fragments)',
                    'pydicom data set encode/decode']
    cases = []
    seed = 0
    for variant in ('find', 'mwl'):
        for n in list(range(0, 9)) + [15, 30]:
            for code, mix in ((0xFF00, False), (0xFF01, False), (0, True)):
                seed += 1
                cases.append({'variant': variant, 'n': n, 'code': code, 'mix': mix, 'ts': seed % 3, 'pc': [1, 3, 255][seed % 3],
                              'maxlen': [16384, 64, 0, 128][seed % 4], 'msgid': [0, 1, 255, 256, 65535][seed % 5], 'seed': seed})
    for variant in ('find', 'mwl'):
        for n, empties in ((1, [0]), (2, [1]), (3, [1]), (4, [0, 3]), (5, [2, 3])):
            seed += 1
            cases.append({'variant': variant, 'n': n, 'code': 0xFF00, 'mix': True, 'ts': seed % 3, 'pc': 5, 'maxlen': [16384, 64][seed % 2],
                          'msgid': 7, 'seed': seed, 'empties': empties})
    for _ in range(40 if tier == 'quick' else 10000):
        seed += 1
        cases.append({'variant': rnd.choice(['find', 'mwl']), 'n': rnd.randrange(0, 12), 'code': 0xFF00, 'mix': True,
                      'ts': rnd.randrange(3), 'pc': rnd.randrange(1, 256, 2), 'maxlen': rnd.choice([0, 30, 64, 1024, 16384]),
                      'msgid': rnd.randrange(65536), 'seed': seed})
    for variant in ('find', 'mwl'):
        dc = {'default_entity': True, 'variant': variant, 'pc': 3, 'msgid': 9}
        try:
            r = run_default_entity(dc)
        except Exception as e:  # pylint: disable=broad-except
            common.raise_for(common.describe_exc(e))
        chk.case(repr(dc), False, None)
        chk.count('default-entity')
        if r:
            chk.violation('C16:default-entity', r, dc)
    # the convenience wrapper over real loopback TCP
    for n, mx in ((0, 16384), (1, 0), (5, 256), (400, 16384)) if tier == 'quick' else ((0, 16384), (1, 0), (5, 256), (40, 128), (12, 65536), (400, 16384), (3000, 0)):
        wc = {'wrapper': True, 'n': n, 'maxlen': mx}
        try:
            r = run_wrapper(wc)
        except Exception as e:  # pylint: disable=broad-except
            common.raise_for(common.describe_exc(e))
        chk.case(repr(wc), n > 0, {'c_find wrapper over loopback': True, 'n': n})
        chk.count('wrapper')
        if r:
            # a timing verdict on real threads counts only if it reproduces
            if common.timing_verdict(r) and (run_wrapper(wc) is None or run_wrapper(wc) is None):
                chk.count('wrapper:not-reproduced')
            else:
                chk.violation('C16:wrapper:' + r[:20], r, wc)
    # the wrapper against finals other than success
    for n_, final in ((2, 0xC001), (0, 0xA700), (1, 0xFE00), (3, 0xB000)):
        wf = {'wrapper_final': True, 'n': n_, 'final': final}
        try:
            r = run_wrapper_final(wf)
        except Exception as e:  # pylint: disable=broad-except
            common.raise_for(common.describe_exc(e))
        chk.case(repr(wf), True, {'c_find wrapper, final status': '%04x' % final})
        chk.count('wrapper-final')
        if r and not (common.timing_verdict(r) and (run_wrapper_final(wf) is None or run_wrapper_final(wf) is None)):
            chk.violation('C16:wrapper-final', r, wf)
    # a peer that reads slowly (real TCP, more data than the buffers hold)
    sl = {'slow_reader': True, 'n': 60, 'size': 200000, 'stall': 5, 'entity_timeout': 2, 'pace': 0.1}
    try:
        r = run_slow_reader(sl)
    except Exception as e:  # pylint: disable=broad-except
        common.raise_for(common.describe_exc(e))
    chk.case(repr(sl), True, {'slow reader over loopback': True, 'matches': sl['n'], 'bytes each': sl['size']})
    chk.count('slow-reader')
    if r and not (common.timing_verdict(r) and (run_slow_reader(sl) is None or run_slow_reader(sl) is None)):
        chk.violation('C16:slow-reader', r, sl)
    # the user side against a scripted peer: every class of final status
    sseed = 0
    for variant in ('find', 'mwl'):
        for final in (0x0000, 0xA700, 0xA900, 0xC000, 0xC123, 0xFE00, 0x0122, 0xB000, 0x0001, 0x1234):
            for n in (0, 1, 3):
                sseed += 1
                sc_case = {'variant': variant, 'final': final, 'n': n, 'pending': [[0xFF00], [0xFF01], [0xFF00, 0xFF01]][sseed % 3],
                           'ts': sseed % 3, 'pc': [1, 3, 255][sseed % 3], 'msgid': [1, 0, 65535][sseed % 3], 'seed': sseed,
                           'final_ds': sseed % 2 == 0}
                try:
                    r = run_scripted(sc_case)
                except Exception as e:  # pylint: disable=broad-except
                    common.raise_for(common.describe_exc(e))
                chk.case(repr(sc_case), True, {'scripted_peer': True, 'final': '%04x' % final, 'n': n} if final not in (0,) and n == 1 and len(chk.samples) < 10 else None)
                chk.count('final:%04x' % final)
                if r:
                    chk.violation('C16:scripted:' + r[:24], '%s (%s against a scripted peer, %d matches)' % (r, variant, n), sc_case)
    ops, got, keep = [], [], []
    for case in cases:
        try:
            r = run_case(case)
        except Exception as e:  # pylint: disable=broad-except
            import traceback
            r = 'raised %r %s' % (e, traceback.format_exc()[-300:])
        chk.case(repr(case), case['n'] > 0, {k: case[k] for k in ('variant', 'n', 'mix', 'maxlen', 'ts')})
        chk.count('variant:' + case['variant']); chk.count('n:%s' % (case['n'] if case['n'] < 9 else '9+'))
        if isinstance(r, str):
            chk.violation('C16:' + r[:30], '%s (%s, %d matches, max length %d)' % (r, case['variant'], case['n'], case['maxlen']), case)
        else:
            ops.append('svc-find ' + ' '.join(str(s) for s in r[1])); keep.append(case)
            got.append(';'.join(['x:%d' % s for s in r[1]] + ['-:0']))
    want = common.driver(ops) if ops else []
    for case, w, g in zip(keep, want, got):
        w2 = ';'.join(('x:' + t.split(':')[1]) if not t.startswith('-') else t for t in w.split(';'))
        if w2 != g:
            chk.broke('correspondence findScu/findScp', 'model %s\nimpl  %s' % (w2[:200], g[:200]), case)
            break
    chk.lean(['Dicom.Props.C16'])
