"""C17 — every SCP response correlates with its request (message id, UIDs, context, type, status)."""
import contextlib
import types

from . import common, svc, msgs

STORAGE_COMMITMENT_INSTANCE = '1.2.840.10008.1.20.1.1'


def outcome_status(o):
    from pynetdicom2 import statuses
    return None if o == 'err' else statuses.Status(o)


def expect(f, ctx_id, rq_msgid, sop_class, sop_instance, cf, status, what):
    if f['ctx'] != [ctx_id]:
        return '%s sent on presentation context %r, the request arrived on %d' % (what, f['ctx'], ctx_id)
    if f['cf'] != cf:
        return '%s has command field %#06x, expected %#06x' % (what, f['cf'] or 0, cf)
    if f['msgid_rsp'] != rq_msgid:
        return '%s: Message ID Being Responded To %r, request Message ID %d' % (what, f['msgid_rsp'], rq_msgid)
    if f['sop_class'] != sop_class:
        return '%s: SOP class %r, request had %r' % (what, f['sop_class'], sop_class)
    if sop_instance is not None and f['sop_instance'] != sop_instance:
        return '%s: SOP instance %r, request had %r' % (what, f['sop_instance'], sop_instance)
    if status is not None and f['status'] != status:
        return '%s: status %#06x, expected %#06x' % (what, f['status'] if f['status'] is not None else -1, status)
    return None


def run_case(case):
    import pydicom
    from pynetdicom2 import sopclass as sc, dimsemessages as dm, dsutils, statuses, exceptions
    prov, mid, pc, o = case['provider'], case['msgid'], case['pc'], case['outcome']
    rnd = common.rng('c17-%d' % case['seed'])
    cls_uid = msgs.uid_of_len(case['uid_len'], rnd)
    inst_uid = msgs.uid_of_len(max(1, 64 - case['uid_len']), rnd)

    def handler_status(*a):
        if o == 'err':
            raise exceptions.EventHandlingError('no')
        return statuses.Status(o)
    if case.get('default_entity'):
        # an entity that overrides no hook: the library's documented defaults are the application handlers
        from pynetdicom2 import applicationentity as aem
        default_ae = aem.AEBase(None, 16384)
        types_ns = types.SimpleNamespace
        entity = lambda **kw: default_ae
    else:
        entity = lambda **kw: types.SimpleNamespace(**kw)
    if prov == 'echo':
        a = svc.MockAssociation(entity(on_receive_echo=lambda c: handler_status()))
        rq, _ = svc.received(dm.CEchoRQMessage, pc, message_id=mid, sop_class_uid=cls_uid)
        sc.verification_scp(a, svc.ctx(pc, cls_uid), rq)
        w = a.wire()
        if len(w) != 1:
            return 'C-ECHO-RQ answered %d times' % len(w)
        return expect(svc.fields(w[0]), pc, mid, cls_uid, None, 0x8030, 0x0110 if o == 'err' else o, 'C-ECHO-RSP')
    if prov == 'store':
        a = svc.MockAssociation(entity(on_receive_store=lambda c, d: handler_status()))
        rq, _ = svc.received(dm.CStoreRQMessage, pc, message_id=mid, sop_class_uid=cls_uid, affected_sop_instance_uid=inst_uid,
                             priority=0, move_originator_aet='X', move_originator_message_id=0)
        import io
        rq.data_set = io.BytesIO(b'\x08\x00\x05\x00\x02\x00\x00\x00AB')
        sc.storage_scp(a, svc.ctx(pc, cls_uid), rq)
        w = a.wire()
        if len(w) != 1:
            return 'C-STORE-RQ answered %d times' % len(w)
        return expect(svc.fields(w[0]), pc, mid, cls_uid, inst_uid, 0x8001, 0xC000 if o == 'err' else o, 'C-STORE-RSP')
    if prov == 'find':
        n = case['n']
        dss = []
        for k in range(n):
            d = pydicom.Dataset(); d.PatientID = 'I%d' % k; dss.append(d)
        # the handler's statuses differ from match to match: each response must carry its own
        pend = [statuses.C_FIND_PENDING, statuses.C_FIND_PENDING_WARNING]
        a = svc.MockAssociation(types.SimpleNamespace(on_receive_find=lambda c, d: iter((x, pend[(k + mid) % 2]) for k, x in enumerate(dss))))
        q = pydicom.Dataset(); q.PatientID = '*'
        rq, _ = svc.received(dm.CFindRQMessage, pc, message_id=mid, sop_class_uid=cls_uid, priority=0, data_set=dsutils.encode(q, True, True))
        sc.qr_find_scp(a, svc.ctx(pc, cls_uid), rq)
        w = a.wire()
        if len(w) != n + 1:
            return 'C-FIND-RQ with %d matches answered with %d responses' % (n, len(w))
        for k, x in enumerate(w):
            v = expect(svc.fields(x), pc, mid, cls_uid, None, 0x8020, (0xFF00 + (k + mid) % 2) if k < n else 0, 'C-FIND-RSP #%d' % (k + 1))
            if v:
                return v
        return None
    if prov == 'move':
        n = case['n']
        dss = []
        for k in range(n):
            d = pydicom.Dataset(); d.SOPClassUID = '1.2.840.10008.5.1.4.1.1.7'; d.SOPInstanceUID = '1.2.9.%d' % k; dss.append(d)

        class Sub(object):
            def get_scu(self, u):
                return lambda ds, m: statuses.Status(0)

        @contextlib.contextmanager
        def request_association(remote):
            yield Sub()
        ae = types.SimpleNamespace(on_receive_move=lambda c, d, dest: ({'aet': 'D'}, n, iter(dss)), request_association=request_association)
        a = svc.MockAssociation(ae)
        q = pydicom.Dataset(); q.PatientID = '*'
        rq, _ = svc.received(dm.CMoveRQMessage, pc, message_id=mid, sop_class_uid=cls_uid, priority=0, move_destination='DEST',
                             data_set=dsutils.encode(q, True, True))
        sc.qr_move_scp(a, svc.ctx(pc, cls_uid), rq)
        w = a.wire()
        if not w:
            return 'C-MOVE-RQ not answered'
        for k, x in enumerate(w):
            v = expect(svc.fields(x), pc, mid, cls_uid, None, 0x8021, 0xFF00 if k < len(w) - 1 else 0, 'C-MOVE-RSP #%d' % (k + 1))
            if v:
                return v
        return None
    if prov == 'get-store':
        # the C-STORE responses of the C-GET user
        store_pc = case['store_pc']
        ae = types.SimpleNamespace(on_receive_store=lambda c, d: handler_status(),
                                   context_def_list={store_pc: svc.ctx(store_pc, '1.2.840.10008.5.1.4.1.1.7')}, store_in_file=set())
        d = pydicom.Dataset(); d.PatientID = 'Z'
        srq, _ = svc.received(dm.CStoreRQMessage, store_pc, message_id=case['sub_msgid'], sop_class_uid='1.2.840.10008.5.1.4.1.1.7',
                              affected_sop_instance_uid=inst_uid, priority=0, move_originator_aet='X', move_originator_message_id=0,
                              data_set=dsutils.encode(d, True, True))
        final, _ = svc.received(dm.CGetRSPMessage, pc, message_id_being_responded_to=mid, sop_class_uid=cls_uid, status=0,
                                num_of_remaining_sub_ops=0, num_of_completed_sub_ops=1, num_of_failed_sub_ops=0, num_of_warning_sub_ops=0)
        a = svc.MockAssociation(ae, incoming=[(srq, store_pc), (final, pc)])
        q = pydicom.Dataset(); q.PatientID = '*'
        list(sc.qr_get_scu(a, svc.ctx(pc, cls_uid), q, mid))
        w = a.wire()
        if len(w) != 2:
            return 'C-GET user sent %d messages (request + one C-STORE-RSP expected)' % len(w)
        return expect(svc.fields(w[1]), store_pc, case['sub_msgid'], '1.2.840.10008.5.1.4.1.1.7', inst_uid, 0x8001,
                      0xC000 if o == 'err' else o, 'C-STORE-RSP of the C-GET user')
    if prov in ('n-action', 'n-event-report'):
        ds = pydicom.Dataset(); ds.TransactionUID = '1.2.3.77'
        refs = []
        for k in range(case['n']):
            r = pydicom.Dataset(); r.ReferencedSOPClassUID = '1.2.840.10008.5.1.4.1.1.7'; r.ReferencedSOPInstanceUID = '1.2.8.%d' % k
            refs.append(r)
        succ = refs if case['lists'] in ('success', 'mixed') else []
        fail = refs[:1] if case['lists'] in ('failure', 'mixed') else []
        if prov == 'n-action':
            ds.ReferencedSOPSequence = pydicom.Sequence(refs)
            reports = []

            class Sub(object):
                def send(self, m, pcid):
                    reports.append((m, pcid))

                def receive(self):
                    return None, None

            @contextlib.contextmanager
            def request_association(remote):
                if case.get('report_fails'):
                    raise exceptions.AssociationRejectedError(1, 1, 1)
                yield Sub()

            def on_commitment_request(remote, uids):
                list(uids)
                if o == 'err':
                    raise exceptions.EventHandlingError('no')
                return {'aet': 'R'}, [(r.ReferencedSOPClassUID, r.ReferencedSOPInstanceUID) for r in succ], \
                    [(r.ReferencedSOPClassUID, r.ReferencedSOPInstanceUID, 0x0110) for r in fail]
            a = svc.MockAssociation(entity(on_commitment_request=on_commitment_request, request_association=request_association))
            rq, _ = svc.received(dm.NActionRQMessage, pc, message_id=mid, sop_class_uid=cls_uid,
                                 requested_sop_instance_uid=STORAGE_COMMITMENT_INSTANCE, action_type_id=1, data_set=dsutils.encode(ds, True, True))
            try:
                sc.StorageCommitment()(a, svc.ctx(pc, cls_uid), rq)          # through the dispatcher (get_method, message_to_method)
            except exceptions.AssociationRejectedError:
                pass
            w = a.wire()
            if len(w) != 1:
                return 'N-ACTION-RQ answered %d times' % len(w)
            return expect(svc.fields(w[0]), pc, mid, cls_uid, STORAGE_COMMITMENT_INSTANCE, 0x8130, 0x0110 if o == 'err' else 0, 'N-ACTION-RSP')
        if succ:
            ds.ReferencedSOPSequence = pydicom.Sequence(succ)
        if fail:
            for r in fail:
                r.FailureReason = 0x0110
            ds.FailedSOPSequence = pydicom.Sequence(fail)

        def on_commitment_response(t, s, f):
            list(s); list(f)
            if o == 'err':
                raise exceptions.EventHandlingError('no')
        a = svc.MockAssociation(entity(on_commitment_response=on_commitment_response))
        # the response repeats the REQUEST's instance UID: every other request names another one than the well-known
        ev_inst = STORAGE_COMMITMENT_INSTANCE if (mid + pc) % 2 else inst_uid
        rq, _ = svc.received(dm.NEventReportRQMessage, pc, message_id=mid, sop_class_uid=cls_uid,
                             affected_sop_instance_uid=ev_inst, event_type_id=2 if fail else 1,
                             data_set=dsutils.encode(ds, True, True))
        sc.StorageCommitment()(a, svc.ctx(pc, cls_uid), rq)
        w = a.wire()
        if len(w) != 1:
            return 'N-EVENT-REPORT-RQ answered %d times' % len(w)
        return expect(svc.fields(w[0]), pc, mid, cls_uid, ev_inst, 0x8100, 0x0110 if o == 'err' else 0, 'N-EVENT-REPORT-RSP')
    raise KeyError(prov)


def entity_commit_case(case):
    """storage commitment between two real entities over loopback TCP: the N-ACTION is answered on its association; the
    provider then opens an association of its own back to the requester and reports; the requester's application must be
    told, for the transaction it asked about, exactly which instances were committed and which were not (and why)"""
    import threading
    from pydicom import uid
    from pynetdicom2 import applicationentity as aem, sopclass as sc
    ev = threading.Event()
    got = {}
    n, nfail = case['n'], case['fail']
    uids = [(sc.COMPREHENSIVE_SR_STORAGE, '1.2.826.0.1.3680043.9.77.%d.%d' % (case['seed'], k)) for k in range(n)]
    ok = [u for k, u in enumerate(uids) if k % n >= nfail]
    tx = '1.2.826.0.1.3680043.9.78.%d' % case['seed']

    class CAE(aem.AE):
        remote = None

        def on_commitment_request(self, remote_aet, asked):
            asked = list(asked)
            got['asked'] = [(str(c), str(i)) for c, i in asked]
            return (self.remote, [u for u in asked if (str(u[0]), str(u[1])) in ok],
                    [(c, i, sc.StorageCommitment.NO_SUCH_OBJECT_INSTANCE) for c, i in asked if (str(c), str(i)) not in ok])

        def on_commitment_response(self, transaction_uid, success, failure):
            got['response'] = (str(transaction_uid), [(str(c), str(i)) for c, i in success],
                               [(str(c), str(i), int(r)) for c, i, r in failure])
            ev.set()
    ae1 = CAE('AET1', 0).add_scp(sc.StorageCommitment()).add_scu(sc.storage_commitment_scu)
    ae2 = CAE('AET2', 0).add_scp(sc.StorageCommitment()).add_scu(sc.storage_commitment_scu)
    ae2.remote = dict(address='127.0.0.1', port=ae1.server_address[1], aet='AET1')
    r2 = dict(address='127.0.0.1', port=ae2.server_address[1], aet='AET2')
    with ae2, ae1:
        with ae1.request_association(r2) as assoc:
            st = assoc.get_scu(sc.STORAGE_COMMITMENT_SOP_CLASS)(tx, uids, case['msgid'])
            if int(st) != 0:
                return 'N-ACTION for %d instances answered with status %#06x' % (n, int(st))
            if not ev.wait(15):
                return 'the commitment result for transaction %s did not arrive within 15 s of the N-ACTION response' % tx
    if got.get('asked') != uids:
        return 'the provider\'s application was asked about %r, the request named %r' % (got.get('asked'), uids)
    want = (tx, ok, [(c, i, int(sc.StorageCommitment.NO_SUCH_OBJECT_INSTANCE)) for c, i in uids if (c, i) not in ok])
    if got.get('response') != want:
        return 'the requester was told %r; the provider\'s application decided %r' % (got.get('response'), want)
    return None


def entity_job(case):
    try:
        return entity_commit_case(case)
    except BaseException as e:  # pylint: disable=broad-except
        return 'harness:' + common.describe_exc(e)


def replay(case):
    if case.get('entity_commit'):
        return common.bounded_map(entity_job, [case], 1, 90)[0]
    return run_case(case)


def run(chk):
    tier = chk.tier
    rnd = common.rng('c17')
    chk.rule = ('every provider callable of sopclass.py (C-ECHO, C-STORE, C-FIND, C-MOVE, N-ACTION, N-EVENT-REPORT and the '
                'C-STORE responses of the C-GET user) called with requests built from decoded command sets on a mock '
                'association using the real Association.send; responses are consumed lazily and re-read from their wire '
                'form (independent P-DATA reader + command-set decode); message ids 0, 1, 255, 256, 65535 and seeded, UID '
                'lengths 1..64, context ids 1..255, each status class and EventHandlingError, commitment with success-only, '
                'failure-only and mixed lists and with the report association failing; non-trivial = all')
    chk.trusted += ['harness/svc.py mock association; pydicom command-set decoding of the wire form']
    chk.assumptions += ['N-ACTION requests carry the well-known Storage Commitment Push Model instance, as the SCU of this library sends']
    cases, seed = [], 0
    ids = [0, 1, 255, 256, 65535]
    outcomes = {'echo': [0, 0x0122, 'err'], 'store': [0, 0xB000, 0xB006, 0xA700, 0xC123, 'err'], 'get-store': [0, 0xB007, 0xA900, 'err']}
    for prov in ('echo', 'store', 'get-store'):
        for o in outcomes[prov]:
            for mid in ids + [rnd.randrange(65536) for _ in range(2 if tier == 'quick' else 200)]:
                seed += 1
                cases.append({'provider': prov, 'msgid': mid, 'pc': [1, 3, 127, 255][seed % 4], 'outcome': o, 'uid_len': [1, 2, 17, 63, 64][seed % 5],
                              'seed': seed, 'store_pc': [5, 9, 253][seed % 3], 'sub_msgid': [mid, 0, 1, 65535, 7][seed % 5]})
    # an entity that overrides no hook: echo -> success, store -> 'elements discarded' warning, commitment -> not implemented
    from pynetdicom2 import statuses as _st
    for prov, o in (('echo', int(_st.SUCCESS)), ('store', int(_st.C_STORE_ELEMENTS_DISCARDED)), ('n-action', 'err'), ('n-event-report', 'err')):
        for mid in (1, 65535):
            seed += 1
            cases.append({'provider': prov, 'msgid': mid, 'pc': [1, 255][seed % 2], 'outcome': o, 'uid_len': 18, 'seed': seed, 'n': 2,
                          'lists': 'success', 'default_entity': True})
    for prov in ('find', 'move'):
        for n in (0, 1, 2, 5):
            for mid in ids:
                seed += 1
                cases.append({'provider': prov, 'msgid': mid, 'pc': [1, 3, 127, 255][seed % 4], 'outcome': 0, 'uid_len': [1, 18, 64][seed % 3],
                              'seed': seed, 'n': n})
    for prov in ('n-action', 'n-event-report'):
        for lists in ('success', 'failure', 'mixed'):
            for o in (0, 'err'):
                for mid in ids:
                    seed += 1
                    cases.append({'provider': prov, 'msgid': mid, 'pc': [1, 3, 127, 255][seed % 4], 'outcome': o, 'uid_len': [2, 17, 64][seed % 3],
                                  'seed': seed, 'n': 3, 'lists': lists, 'report_fails': seed % 4 == 0})
    for case in cases:
        try:
            v = run_case(case)
        except Exception as e:  # pylint: disable=broad-except
            import traceback
            v = 'provider raised %r %s' % (e, traceback.format_exc()[-400:])
        chk.case(repr(case), True, {k: case[k] for k in ('provider', 'msgid', 'pc', 'outcome')} if len(chk.samples) < 8 and case['seed'] % 37 == 0 else None)
        chk.count('provider:' + case['provider']); chk.count('outcome:%s' % ('err' if case['outcome'] == 'err' else 'status'))
        if v:
            chk.violation('C17:%s:%s' % (case['provider'], v[:25]), '%s  [provider %s, message id %d, context %d, outcome %r]' % (
                v, case['provider'], case['msgid'], case['pc'], case['outcome']), case)
    # storage commitment end to end between two real entities over loopback TCP
    ecs = [{'entity_commit': True, 'n': n_, 'fail': f_, 'msgid': m_, 'seed': k_}
           for k_, (n_, f_, m_) in enumerate([(1, 0, 1), (5, 0, 7), (5, 2, 65535), (4, 4, 0)])]
    for ec, v in zip(ecs, common.bounded_map(entity_job, ecs, 4, 90)):
        if v and v.startswith('harness:'):
            common.raise_for(v[len('harness:'):])
        chk.case(repr(ec), True, {'two entities over loopback': True, 'instances': ec['n'], 'not committed': ec['fail']})
        chk.count('entity-commit')
        if v and not (common.timing_verdict(v) and not all(common.bounded_map(entity_job, [ec, ec], 2, 90))):
            chk.violation('C17:entity-commit', v, ec)
    chk.lean(['Dicom.Props.C17'])
