"""C18 — status classification: regenerated table + kernel-checked theorems + spec oracle."""
from . import common, extract

NAMES = {}


def replay(case):
    from pynetdicom2 import statuses
    cmds = {(0 if c is None else c.command_field): c for c in extract.status_commands()}
    cf, code = case['command_field'], case['code']
    k = extract.classify_impl(statuses, code, cmds[cf])
    allowed = common.driver(['status-allowed %d %d' % (cf, code)])[0].split()
    if k not in allowed:
        return 'Status(0x%04X, command 0x%04X) is %s; the standard admits %s' % (code, cf, k, allowed)
    return None


def run(chk):
    chk.rule = ('Status(code, cmd) evaluated for ALL 65536 codes x all 23 message classes and no class on the '
                'running code, range-compressed into runs; each run checked against the Lean specification '
                '(driver op status-check), the run table emitted as Dicom/Generated/Statuses.lean and the C18 '
                'theorems re-checked by the kernel; distinct non-trivial = distinct (command, run) pairs')
    chk.trusted += ['harness/extract.py tabulation (three nested ranges: commands x codes 0..65535)',
                    'Dicom/Spec/StatusSpec.lean: transcription of PS3.7 Annex C and PS3.4 B.2.3, C.4.1-C.4.3']
    chk.assumptions += ['FE00 (cancel in the standard, unregistered in this library): cancel or failure admitted',
                        '0001, 0107, 0116 (warnings in PS3.7 Annex C): warning or failure admitted']
    table, changed = extract.gen_statuses()
    chk.extra['generated_changed'] = changed
    chk.exhaustive = True
    ops, meta = [], []
    for cf, runs in table:
        for lo, hi, k in runs:
            ops.append('status-check %d %d %d %s' % (cf, lo, hi, k))
            meta.append((cf, lo, hi, k))
    res = common.driver(ops)
    for (cf, lo, hi, k), r in zip(meta, res):
        chk.evaluations += hi - lo + 1 - 1
        chk.case('%d %d %d %s' % (cf, lo, hi, k), True,
                 {'command_field': '0x%04X' % cf, 'codes': '0x%04X..0x%04X' % (lo, hi), 'classified': k})
        chk.count('kind:' + k, hi - lo + 1)
        if r != 'ok':
            code = int(r.split()[1])
            chk.violation('C18:%04X:%04X' % (cf, code),
                          'Status(0x%04X, command field 0x%04X) classified %s; %s' % (code, cf, k, r),
                          {'command_field': cf, 'code': code})
    chk.lean(['Dicom.Props.C18'])
