"""C18 — status classification: regenerated table + kernel-checked theorems + spec oracle."""
from . import common, extract

NAMES = {}


REGISTERED_SCRIPT = r"""
import os, sys, json
sys.path.insert(0, os.environ['REPO'])
import warnings; warnings.simplefilter('ignore')
from pynetdicom2 import statuses, dimsemessages as dm
# an application registers its own codes, as the library documents: the cancel status of the query/retrieve services, a
# general warning, a service-specific pending range and a service-specific success that shadows a general failure
for c in (dm.CFindRSPMessage, dm.CGetRSPMessage, dm.CMoveRSPMessage):
    statuses.add_status(0xFE00, 'Cancel', 'Matching terminated due to Cancel request', command=c)
statuses.add_status(0x0107, 'Warning', 'Attribute list error')
statuses.add_status(0x7000, 'Pending', 'site specific', end=0x7003, command=dm.NActionRSPMessage)
statuses.add_status(0x0110, 'Success', 'site specific', command=dm.NEventReportRSPMessage)
want = {}
for c in (dm.CFindRSPMessage, dm.CGetRSPMessage, dm.CMoveRSPMessage):
    want[(c.command_field, 0xFE00)] = 'cancel'
for code in range(0x7000, 0x7004):
    want[(dm.NActionRSPMessage.command_field, code)] = 'pending'
want[(dm.NEventReportRSPMessage.command_field, 0x0110)] = 'success'
problems = []
classes = [None, dm.CFindRSPMessage, dm.CGetRSPMessage, dm.CMoveRSPMessage, dm.CStoreRSPMessage, dm.NActionRSPMessage,
           dm.NEventReportRSPMessage, dm.CEchoRSPMessage]
for c in classes:
    cf = 0 if c is None else c.command_field
    for code in range(65536):
        st = statuses.Status(code, c)
        flags = [n for n in ('success', 'pending', 'warning', 'cancel', 'failure') if getattr(st, 'is_' + n)]
        if len(flags) != 1:
            problems.append('Status(0x%04X, command 0x%04X) is %r: not exactly one class' % (code, cf, flags)); break
        w = want.get((cf, code)) or ('warning' if code == 0x0107 else None)
        if w and flags[0] != w:
            problems.append('Status(0x%04X, command 0x%04X) registered as %s is classified %s' % (code, cf, w, flags[0])); break
        if int(st) != code:
            problems.append('int(Status(0x%04X)) = %r' % (code, int(st))); break
print(json.dumps(problems))
"""


def registered():
    """classification after an application registered codes of its own (fresh interpreter: the tables are global)"""
    import json, os, subprocess, sys
    p = subprocess.run([sys.executable, '-c', REGISTERED_SCRIPT], env=dict(os.environ, REPO=common.REPO), stdout=subprocess.PIPE,
                       stderr=subprocess.PIPE, timeout=600)
    if p.returncode != 0:
        return ['the registration script failed: ' + p.stderr.decode('utf-8', 'replace')[-400:]]
    return json.loads(p.stdout.decode().strip().split('\n')[-1])


def replay(case):
    if case.get('registered'):
        r = registered()
        return '; '.join(r[:3]) or None
    from pynetdicom2 import statuses
    cmds = {(0 if c is None else c.command_field): c for c in extract.status_commands()}
    cf, code = case['command_field'], case['code']
    k = extract.classify_impl(statuses, code, cmds[cf])
    allowed = common.driver(['status-allowed %d %d' % (cf, code)])[0].split()
    if k not in allowed:
        return 'Status(0x%04X, command 0x%04X) is %s; the standard admits %s' % (code, cf, k, allowed)
    return None


def run(chk):
    chk.rule = ('Status(code, cmd) evaluated for ALL 65536 codes x all 23 message classes and no class on the '
                'running code, range-compressed into runs; each run checked against the Lean specification '
                '(driver op status-check), the run table emitted as Dicom/Generated/Statuses.lean and the C18 '
                'theorems re-checked by the kernel; in a fresh interpreter, after the application registered codes of its own with '
                'add_status() (cancel, a general warning, a service-specific range), every code of 8 classes is again in exactly one '
                'class, the registered ones in theirs; distinct non-trivial = distinct (command, run) pairs')
    chk.trusted += ['harness/extract.py tabulation (three nested ranges: commands x codes 0..65535)',
                    'Dicom/Spec/StatusSpec.lean: transcription of PS3.7 Annex C and PS3.4 B.2.3, C.4.1-C.4.3']
    chk.assumptions += ['FE00 (cancel in the standard, unregistered in this library): cancel or failure admitted',
                        '0001, 0107, 0116 (warnings in PS3.7 Annex C): warning or failure admitted']
    table, changed = extract.gen_statuses()
    chk.extra['generated_changed'] = changed
    chk.exhaustive = True
    ops, meta = [], []
    for cf, runs in table:
        for lo, hi, k in runs:
            ops.append('status-check %d %d %d %s' % (cf, lo, hi, k))
            meta.append((cf, lo, hi, k))
    res = common.driver(ops)
    for (cf, lo, hi, k), r in zip(meta, res):
        chk.evaluations += hi - lo + 1 - 1
        chk.case('%d %d %d %s' % (cf, lo, hi, k), True,
                 {'command_field': '0x%04X' % cf, 'codes': '0x%04X..0x%04X' % (lo, hi), 'classified': k})
        chk.count('kind:' + k, hi - lo + 1)
        if r != 'ok':
            code = int(r.split()[1])
            chk.violation('C18:%04X:%04X' % (cf, code),
                          'Status(0x%04X, command field 0x%04X) classified %s; %s' % (code, cf, k, r),
                          {'command_field': cf, 'code': code})
    probs = registered()
    chk.case('registered-codes', True, {'registered': 'cancel FE00 for C-FIND/GET/MOVE, general warning 0107, pending 7000..7003, success 0110'})
    chk.evaluations += 8 * 65536
    for pr in probs[:5]:
        chk.violation('C18:registered:' + pr[:30], 'after add_status(): ' + pr, {'registered': True})
    chk.lean(['Dicom.Props.C18'])
