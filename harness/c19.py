"""C19 — retrieve: each sub-operation exactly once, true progress (C-GET user, C-MOVE provider)."""
import contextlib
import itertools
import io
import types

from . import common, svc, msgs

IMG = '1.2.840.10008.5.1.4.1.1.7'
OUT = {'s': 0x0000, 'w': 0xB000, 'f': 0xA700}
CLASSES = ['1.2.840.10008.5.1.4.1.1.7', '1.2.840.10008.5.1.4.1.1.2', '1.2.840.10008.5.1.4.1.1.4']


def run_move(case):
    import pydicom
    from pynetdicom2 import sopclass as sc, dimsemessages as dm, dsutils, statuses, exceptions
    outs = case['outcomes']
    n = len(outs)
    dss = []
    for k in range(n):
        # instances of several SOP classes: each goes out through the storage service of ITS class
        d = pydicom.Dataset(); d.SOPClassUID = CLASSES[(k * k + case['msgid']) % len(CLASSES)]; d.SOPInstanceUID = '1.2.9.%d' % k; d.PatientID = 'P%d' % k
        dss.append(d)
    sub_calls, dest = [], {}

    class Sub(object):
        def get_scu(self, u):
            def service(ds, msg_id):
                sub_calls.append((str(ds.SOPInstanceUID), msg_id, str(u)))
                return statuses.Status(OUT[outs[len(sub_calls) - 1]], dm.CStoreRSPMessage)
            return service

    @contextlib.contextmanager
    def request_association(remote):
        dest['remote'] = remote
        if remote is None:
            raise exceptions.AssociationError('no destination')
        yield Sub()
    remote = {'aet': 'DESTAE', 'address': 'h', 'port': 1} if case['dest_known'] else None
    ae = types.SimpleNamespace(on_receive_move=lambda c, d, destination: (dest.setdefault('asked', destination), remote, n, iter(dss))[1:],
                               request_association=request_association)
    a = svc.MockAssociation(ae)
    q = pydicom.Dataset(); q.PatientID = '*'
    rq, _ = svc.received(dm.CMoveRQMessage, case['pc'], message_id=case['msgid'], sop_class_uid=sc.PATIENT_ROOT_MOVE_SOP_CLASS, priority=0,
                         move_destination='DESTAE', data_set=dsutils.encode(q, True, True))
    try:
        sc.qr_move_scp(a, svc.ctx(case['pc'], sc.PATIENT_ROOT_MOVE_SOP_CLASS), rq)
        exc = None
    except Exception as e:  # pylint: disable=broad-except
        exc = e
    w = [svc.fields(x) for x in a.wire()]
    if exc is not None and (n == 0 or case['dest_known']):
        return 'C-MOVE provider raised %r' % (exc,), None
    if n > 0 and not case['dest_known']:
        # nothing can be sent anywhere; at most a failure may be reported, never a sub-operation
        if sub_calls:
            return 'sub-operations performed although the destination is unknown', None
        return None, None
    bad_ids = [c[1] for c in sub_calls if not (isinstance(c[1], int) and 0 <= c[1] <= 65535)]
    if bad_ids:
        return ('C-MOVE request with message id %d, %d sub-operations: a C-STORE sub-operation was given message id %r, which '
                'does not fit the 16-bit field' % (case['msgid'], n, bad_ids[0])), None
    if [c[0] for c in sub_calls] != ['1.2.9.%d' % k for k in range(n)]:
        return 'sub-operations %r, the application supplied instances 0..%d in order' % ([c[0] for c in sub_calls], n - 1), None
    wrong = [(c[0], c[2]) for c, d in zip(sub_calls, dss) if c[2] != str(d.SOPClassUID)]
    if wrong:
        return 'instance %s was sent through the storage service obtained for SOP class %s, it is of another class' % wrong[0], None
    if n and dest.get('remote') != remote:
        return 'sub-association requested with %r, the application designated %r' % (dest.get('remote'), remote), None
    finals = [f for f in w if f['status'] != 0xFF00]
    if len(finals) != 1 or (w and w[-1]['status'] == 0xFF00):
        return '%d final responses among %d (exactly one, last, expected; %d sub-operations)' % (len(finals), len(w), n), None
    pend = w[:-1]
    if len(pend) != n:
        return '%d pending responses for %d sub-operations' % (len(pend), n), None
    for k, f in enumerate(pend, 1):
        if (f['completed'], f['remaining']) != (k, n - k):
            return ('after %d sub-operation(s) the response reports %r performed and %r remaining (total %d)'
                    % (k, f['completed'], f['remaining'], n)), None
    fin = w[-1]
    if (fin['completed'], fin['remaining']) != (n, 0):
        return 'final response reports %r performed, %r remaining of %d' % (fin['completed'], fin['remaining'], n), None
    line = ';'.join('%d:%s:%s:%s:%s' % (f['status'], f['completed'], f['remaining'], f['failed'], f['warning']) for f in w)
    return None, line


def run_move_default(case):
    """an entity that offers the C-MOVE provider without overriding the hook: the documented default says there is nothing
    to move, and the provider must conclude with exactly one final response reporting 0 performed and 0 remaining"""
    import pydicom
    from pynetdicom2 import sopclass as sc, dimsemessages as dm, dsutils, applicationentity as aem
    ae = aem.AEBase(None, 16384)
    a = svc.MockAssociation(ae)
    q = pydicom.Dataset(); q.PatientID = '*'
    rq, _ = svc.received(dm.CMoveRQMessage, case['pc'], message_id=case['msgid'], sop_class_uid=sc.PATIENT_ROOT_MOVE_SOP_CLASS, priority=0,
                         move_destination='DESTAE', data_set=dsutils.encode(q, True, True))
    try:
        sc.qr_move_scp(a, svc.ctx(case['pc'], sc.PATIENT_ROOT_MOVE_SOP_CLASS), rq)
    except Exception as e:  # pylint: disable=broad-except
        return 'C-MOVE provider with the default on_receive_move raised %r: the request is left without a final response' % (e,)
    w = [svc.fields(x) for x in a.wire()]
    if len(w) != 1 or w[0]['status'] == 0xFF00:
        return 'C-MOVE with nothing to move (default hook) answered with %d responses %r' % (len(w), [f['status'] for f in w])
    if (w[0]['completed'] or 0, w[0]['remaining'] or 0) != (0, 0):
        return 'final response of an empty move reports %r performed, %r remaining' % (w[0]['completed'], w[0]['remaining'])
    return None


class _FileLike(io.BytesIO):
    """what the DIMSE layer hands over for a file-backed class: a file object (here it also remembers which instance)"""


def run_get(case):
    import pydicom
    from pynetdicom2 import sopclass as sc, dimsemessages as dm, dsutils, statuses, exceptions
    script = case['script']        # list of ('S', ctx, msgid, outcome) | ('R', status)
    store_ctxs = sorted(set(x[1] for x in script if x[0] == 'S'))
    handled = []

    def on_receive_store(c, d):
        handled.append(1)
        o = [x for x in script if x[0] == 'S'][len(handled) - 1][3]
        if o == 'err':
            raise exceptions.EventHandlingError('no')
        return statuses.Status(o, dm.CStoreRSPMessage)
    # the requesting entity keeps one storage class in files and the others in memory: contexts 7 and 255 carry the
    # file-backed class (the DIMSE layer then hands over a file object), the rest the in-memory one
    OTHER = '1.2.840.10008.5.1.4.1.1.88.33'
    in_file_ctx = lambda c: c in (7, 255)
    ae = types.SimpleNamespace(on_receive_store=on_receive_store, store_in_file={OTHER},
                               context_def_list={c: svc.ctx(c, OTHER if in_file_ctx(c) else IMG) for c in store_ctxs})
    incoming = []
    for k, x in enumerate(script):
        if x[0] == 'S':
            d = pydicom.Dataset(); d.PatientID = 'G%d' % k; d.SOPInstanceUID = '1.2.7.%d' % k
            m, pc = svc.received(dm.CStoreRQMessage, x[1], message_id=x[2], sop_class_uid=OTHER if in_file_ctx(x[1]) else IMG,
                                 affected_sop_instance_uid='1.2.7.%d' % k,
                                 priority=0, move_originator_aet='X', move_originator_message_id=0, data_set=dsutils.encode(d, True, True))
            if in_file_ctx(x[1]):
                f = _FileLike(m.data_set)
                f.SOPInstanceUID = '1.2.7.%d' % k
                m._data_set = f
        else:
            m, pc = svc.received(dm.CGetRSPMessage, case['pc'], message_id_being_responded_to=case['msgid'],
                                 sop_class_uid=sc.PATIENT_ROOT_GET_SOP_CLASS, status=x[1], num_of_remaining_sub_ops=1,
                                 num_of_completed_sub_ops=k, num_of_failed_sub_ops=0, num_of_warning_sub_ops=0)
        incoming.append((m, pc))
    a = svc.MockAssociation(ae, incoming=incoming)
    q = pydicom.Dataset(); q.PatientID = '*'
    try:
        yielded = list(sc.qr_get_scu(a, svc.ctx(case['pc'], sc.PATIENT_ROOT_GET_SOP_CLASS), q, case['msgid']))
    except RuntimeError as e:
        return 'the C-GET user kept reading after the final response (%s)' % e, None
    w = [svc.fields(x) for x in a.wire()]
    before_final = []
    for x in script:
        if x[0] == 'R' and x[1] != 0xFF00:
            break
        before_final.append(x)
    stores = [(k, x) for k, x in enumerate(before_final) if x[0] == 'S']
    rsps = w[1:]
    want = [(x[1], x[2], 0xC000 if x[3] == 'err' else x[3], '1.2.7.%d' % k) for k, x in stores]
    have = [(f['ctx'][0] if len(f['ctx']) == 1 else f['ctx'], f['msgid_rsp'], f['status'], f['sop_instance']) for f in rsps]
    if have != want:
        return ('C-STORE responses (context, message id, status, instance) %r; the requests were %r (each answered once, in order, '
                'on its own context)' % (have, want)), None
    got_inst = [str(d.SOPInstanceUID) for _, d in yielded]
    want_inst = ['1.2.7.%d' % k for k, x in stores if x[3] != 'err']
    if got_inst != want_inst:
        return 'instances handed to the caller %r, received %r' % (got_inst, want_inst), None
    line = '%s | %s' % (';'.join('%s.%s.%s' % (h_[0], h_[1], h_[2]) for h_ in have), ';'.join(str(x[2]) for k, x in stores if x[3] != 'err'))
    return None, line


def entity_move_case(case):
    """a whole C-MOVE over loopback TCP with three real entities: the requester, the move provider (which opens its own
    association to the destination and stores there) and the destination.  Oracle: the destination's handler is handed
    every instance the provider's application supplied, once and in order, with its content; after k sub-operations the
    progress report says k performed and n - k remaining; exactly one final response ends the operation."""
    import threading
    import pydicom
    from pynetdicom2 import applicationentity as aem, sopclass as sc, statuses
    n, size = case['n'], case['size']
    CT = '1.2.840.10008.5.1.4.1.1.2'
    received = []

    class Dest(aem.AE):
        def on_receive_store(self, context, ds_file):
            d = pydicom.dcmread(ds_file, force=True)
            received.append((str(d.SOPInstanceUID), len(d.PatientComments), str(d.PatientComments)[:1]))
            return statuses.SUCCESS
    dest = Dest('DEST', 0)
    dest.add_scp(sc.storage_scp) if False else None
    dest.supported_scp.update({CT: sc.storage_scp})
    dest.update_context_def_list([CT], True)
    dport = dest.server_address[1]

    class Mover(aem.AE):
        def on_receive_move(self, context, ds, destination):
            def gen():
                for j in range(n):
                    d = pydicom.Dataset()
                    d.SOPClassUID = CT
                    d.SOPInstanceUID = '1.2.826.0.1.3680043.9.%d' % j
                    d.PatientID = 'M%d' % j
                    d.PatientComments = chr(65 + j % 26) * size
                    yield d
            return {'aet': 'DEST', 'address': '127.0.0.1', 'port': dport}, n, gen()
    mover = Mover('MOVER', 0)
    mover.add_scp(sc.qr_move_scp)
    mover.add_scu(sc.storage_scu, [CT])
    box = {}

    def body():
        try:
            cli = aem.ClientAE('CLI').add_scu(sc.qr_move_scu)
            q = pydicom.Dataset(); q.PatientID = '*'; q.QueryRetrieveLevel = 'PATIENT'
            out = []
            with cli.request_association({'aet': 'MOVER', 'address': '127.0.0.1', 'port': mover.server_address[1]}) as assoc:
                for status, rsp in assoc.get_scu(sc.PATIENT_ROOT_MOVE_SOP_CLASS)(q, 'DEST', 1):
                    out.append((int(status), rsp.num_of_completed_sub_ops, rsp.num_of_remaining_sub_ops,
                                rsp.num_of_failed_sub_ops, rsp.num_of_warning_sub_ops))
            box['out'] = out
        except BaseException as e:  # pylint: disable=broad-except
            box['exc'] = e
    with dest, mover:
        th = threading.Thread(target=body, daemon=True)
        th.start()
        th.join(case.get('limit', 90))
        if th.is_alive():
            return 'the C-MOVE of %d instances did not finish within %d s (%d had reached the destination)' % (n, case.get('limit', 90), len(received))
    if 'exc' in box:
        return 'the C-MOVE of %d instances raised %r at the requester (%d had reached the destination)' % (n, box['exc'], len(received))
    want = [('1.2.826.0.1.3680043.9.%d' % j, size, chr(65 + j % 26)) for j in range(n)]
    if received != want:
        k = next((i for i, (a, b) in enumerate(zip(received, want)) if a != b), min(len(received), len(want)))
        return ('the destination was handed %d instances, the application supplied %d; first difference at #%d: %r / %r'
                % (len(received), n, k, received[k] if k < len(received) else None, want[k] if k < len(want) else None))
    out = box['out']
    pend, fin = out[:-1], out[-1:]
    if [o[0] for o in pend] != [0xFF00] * n or not fin or fin[0][0] in (0xFF00, 0xFF01):
        return '%d pending responses and final %r for %d sub-operations' % (len(pend), fin, n)
    for k, o in enumerate(pend, 1):
        if (o[1], o[2]) != (k, n - k):
            return 'progress after %d of %d sub-operations: %d performed, %d remaining' % (k, n, o[1], o[2])
    if (fin[0][1], fin[0][2], fin[0][3], fin[0][4]) != (n, 0, 0, 0):
        return 'final response counts %r for %d successful sub-operations' % (fin[0][1:], n)
    return None


def entity_job(case):
    try:
        return entity_move_case(case)
    except BaseException as e:  # pylint: disable=broad-except
        return 'harness:' + common.describe_exc(e)


def replay(case):
    if case.get('entity_move'):
        return common.bounded_map(entity_job, [case], 1, 150)[0]
    if case.get('default_hook'):
        return run_move_default(case)
    v, _ = (run_move if case['kind'] == 'move' else run_get)(case)
    return v


def run(chk):
    tier = chk.tier
    rnd = common.rng('c19')
    chk.rule = ('real qr_move_scp with a mock sub-association and real qr_get_scu with scripted traffic, on a mock association '
                'using the real Association.send with deferred consumption: C-MOVE with 0..8 sub-operations over all '
                'success/warning/failure outcome histories up to length 4 (seeded beyond), destination known/unknown, '
                'boundary message ids; C-GET with pending C-GET responses interleaved at every position among C-STORE requests '
                'on several contexts and traffic after the final response; responses re-read from the wire; diffed with '
                'the Lean models moveScp / getScu; non-trivial = at least one sub-operation')
    chk.trusted += ['harness/svc.py mock association and mock sub-association']
    cases, seed = [], 0
    for n in range(0, 5):
        for outs in itertools.product('swf', repeat=n):
            seed += 1
            cases.append({'kind': 'move', 'outcomes': ''.join(outs), 'dest_known': True, 'pc': [1, 3, 255][seed % 3],
                          'msgid': [0, 1, 255, 256, 65535][seed % 5]})
    for n in (5, 8, 20):
        for _ in range(3):
            cases.append({'kind': 'move', 'outcomes': ''.join(rnd.choice('swf') for _ in range(n)), 'dest_known': True, 'pc': 1, 'msgid': 9})
    for n in (0, 2):
        cases.append({'kind': 'move', 'outcomes': 's' * n, 'dest_known': False, 'pc': 1, 'msgid': 9})
    # C-GET: k stores with a pending response inserted at every position, several contexts, traffic after the end
    for k in range(0, 5):
        for pos in range(0, k + 1):
            script = [('S', [5, 7, 9][i % 3], [1, 2, 65535, 0, 7][i % 5], [0, 0xB000, 'err', 0xA700][(i + k) % 4]) for i in range(k)]
            script.insert(pos, ('R', 0xFF00))
            script += [('R', [0, 0xB000, 0xA702][k % 3]), ('S', 5, 99, 0), ('R', 0)]
            cases.append({'kind': 'get', 'script': script, 'pc': 3, 'msgid': [4, 0, 65535][k % 3]})
    for _ in range(40 if tier == 'quick' else 10000):
        k = rnd.randrange(0, 9)
        script = []
        for i in range(k):
            script.append(('S', rnd.choice([5, 7, 9, 255]), rnd.randrange(65536), rnd.choice([0, 0, 0xB000, 'err', 0xA700])))
            if rnd.random() < 0.4:
                script.append(('R', 0xFF00))
        script += [('R', 0), ('S', 5, 1, 0)]
        cases.append({'kind': 'get', 'script': script, 'pc': rnd.choice([1, 3]), 'msgid': rnd.randrange(65536)})
    ops, got, keep = [], [], []
    for case in cases:
        try:
            v, line = (run_move if case['kind'] == 'move' else run_get)(case)
        except Exception as e:  # pylint: disable=broad-except
            import traceback
            v, line = 'raised %r %s' % (e, traceback.format_exc()[-400:]), None
        nsub = len(case['outcomes']) if case['kind'] == 'move' else len([x for x in case['script'] if x[0] == 'S'])
        chk.case(repr(case), nsub > 0, {k_: case[k_] for k_ in case if k_ != 'script'} if len(chk.samples) < 6 and nsub > 1 else None)
        chk.count('kind:' + case['kind']); chk.count('subops:%s' % (nsub if nsub < 6 else '6+'))
        if v:
            chk.violation('C19:%s:%s' % (case['kind'], v[:25]), v, case)
        elif line is not None:
            if case['kind'] == 'move':
                ops.append('svc-move %d %s' % (len(case['outcomes']), case['outcomes'] or '-'))
            else:
                ops.append('svc-get ' + ' '.join('S.%d.%d.%s' % (x[1], x[2], x[3]) if x[0] == 'S' else 'R.%d' % x[1] for x in case['script']))
            got.append(line); keep.append(case)
    want = common.driver(ops)
    for case, w, g in zip(keep, want, got):
        if w.strip() != g.strip():
            chk.broke('correspondence %s' % ('moveScp' if case['kind'] == 'move' else 'getScu'), 'model %s\nimpl  %s' % (w[:300], g[:300]), case)
            break
    for pc, msgid in ((1, 1), (255, 65535), (7, 0)):
        dc = {'default_hook': True, 'pc': pc, 'msgid': msgid}
        try:
            r = run_move_default(dc)
        except Exception as e:  # pylint: disable=broad-except
            common.raise_for(common.describe_exc(e))
        chk.case(repr(dc), False, dc if pc == 1 else None)
        chk.count('move:default-hook')
        if r:
            chk.violation('C19:move-default-hook', r, dc)
    # a whole C-MOVE over loopback TCP: requester, move provider, destination - three real entities
    em = {'entity_move': True, 'n': 150 if tier == 'quick' else 600, 'size': 20000}
    v = common.bounded_map(entity_job, [em], 1, 150)[0]
    if v and v.startswith('harness:'):
        common.raise_for(v[len('harness:'):])
    chk.case(repr(em), True, {'three entities over loopback': True, 'instances': em['n']})
    chk.count('entity-move')
    if v and not (common.timing_verdict(v) and not all(common.bounded_map(entity_job, [em, em], 2, 150))):
        chk.violation('C19:entity-move', v, em)
    chk.lean(['Dicom.Props.C19'])
