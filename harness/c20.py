"""C20 — concurrent associations on one application entity are isolated: Lean non-interference of the
product system + soak on real loopback TCP with real threads (one server entity, N concurrent clients,
each with its own data, sizes, limits and transfer syntax, some aborting mid-way), repeated over seeds."""
import threading
import time

from . import common, s2, s3

IMG = '1.2.840.10008.5.1.4.1.1.7'


def build_server(max_pdu=16384):
    import pydicom
    from pynetdicom2 import applicationentity as aem, sopclass as sc, statuses, dimsemessages as dm
    from pydicom import uid as _u
    received = []

    class Srv(aem.AE):
        def on_receive_store(self, context, ds_file):
            received.append((threading.get_ident(), str(context.supported_ts), ds_file.read()))
            return statuses.SUCCESS

        def on_receive_find(self, context, ds):
            tag = str(ds.PatientID)
            n = int(tag.split('-')[1])

            def gen():
                for j in range(n):
                    d = pydicom.Dataset()
                    d.PatientID = '%s-%d' % (tag, j)
                    d.PatientName = str(context.supported_ts)          # the transfer syntax the server believes it negotiated
                    d.PatientComments = 'c' * (3000 if j % 2 else 10)     # some answers need several fragments under a small limit
                    yield d, statuses.C_FIND_PENDING
            return gen()
    srv = Srv('SRV', 0, supported_ts=[_u.ImplicitVRLittleEndian, _u.ExplicitVRLittleEndian, _u.ExplicitVRBigEndian],
              max_pdu_length=max_pdu)
    srv.timeout = 10
    srv.add_scp(sc.verification_scp).add_scp(sc.qr_find_scp)
    srv.supported_scp.update({IMG: sc.storage_scp})
    srv.update_context_def_list([IMG], True)
    return srv, received


class RecSock(object):
    """the client's transport with everything received kept (to measure the P-DATA-TF PDUs the server sends to THIS client)"""

    def __init__(self, sock):
        self._s = sock
        self.inbound = bytearray()

    def recv(self, n):
        d = self._s.recv(n)
        self.inbound += d
        return d

    def __getattr__(self, name):
        return getattr(self._s, name)


class Leave(Exception):
    """the client gives up mid-way: leaving request_association through an error aborts the association"""


def client_thread(idx, port, plan, out):
    import pydicom
    import pynetdicom2
    from pynetdicom2 import applicationentity as aem, sopclass as sc, dsutils, exceptions
    from pydicom import uid as _u
    rnd = common.rng('c20-client-%d-%d' % (plan['seed'], idx))
    ts = [_u.ImplicitVRLittleEndian, _u.ExplicitVRLittleEndian, _u.ExplicitVRBigEndian][plan['ts']]
    cli = aem.ClientAE('CLI%d' % idx, supported_ts=[ts], max_pdu_length=plan['max_pdu'])
    cli.timeout = 20
    cli.add_scu(sc.verification_scu).add_scu(sc.qr_find_scu).add_scu(sc.storage_scu, [IMG])
    res = {'problems': [], 'msg_ids': [], 'aborted': plan['abort_after'] is not None}
    remote = {'aet': 'SRV', 'address': '127.0.0.1', 'port': port}
    try:
        with cli.request_association(remote) as assoc:
            res['limit'] = assoc.max_pdu_length
            rec = assoc.dul.dul_socket = RecSock(assoc.dul.dul_socket)
            res['rec'] = rec
            for k in range(plan['ops']):
                if plan['abort_after'] is not None and k == plan['abort_after']:
                    raise Leave()                      # leave through an error: the association is aborted
                mid = pynetdicom2._new_msg_id()
                res['msg_ids'].append(mid)
                kind = plan['kinds'][k % len(plan['kinds'])]
                if kind == 'echo':
                    st = assoc.get_scu(sc.VERIFICATION_SOP_CLASS)(mid)
                    if int(st) != 0:
                        res['problems'].append('echo status %r' % int(st))
                elif kind == 'find':
                    n = (idx + k) % 4
                    q = pydicom.Dataset(); q.PatientID = 'C%d-%d-%d' % (idx, n, k)
                    got = list(assoc.get_scu(sc.PATIENT_ROOT_FIND_SOP_CLASS)(q, mid))
                    ids = [str(d.PatientID) for d, s_ in got if d is not None]
                    tss = set(str(d.PatientName) for d, s_ in got if d is not None)
                    if ids != ['C%d-%d-%d-%d' % (idx, n, k, j) for j in range(n)]:
                        res['problems'].append('find %s answered with %r' % (q.PatientID, ids))
                    if tss - {str(ts)}:
                        res['problems'].append('negotiated %s, the server handled the request with %r' % (ts, sorted(tss)))
                    if not got or got[-1][1].is_pending:
                        res['problems'].append('find did not end with a final response')
                else:
                    ds = pydicom.Dataset(); ds.SOPClassUID = IMG; ds.SOPInstanceUID = '1.2.%d.%d' % (idx, k)
                    ds.PatientID = 'STORE-%d-%d' % (idx, k)
                    ds.add_new(0x00420011, 'OB', bytes((idx * 7 + k + i) % 256 for i in range(plan['size'] + plan['size'] % 2)))
                    st = assoc.get_scu(IMG)(ds, mid)
                    if int(st) != 0:
                        res['problems'].append('store status %r' % int(st))
                    res.setdefault('stored', []).append(dsutils.encode(ds, ts.is_implicit_VR, ts.is_little_endian))
    except Leave:
        pass
    except BaseException as e:  # pylint: disable=broad-except
        res['problems'].append('client raised %r' % (e,))
    rec = res.pop('rec', None)
    if rec is not None and plan['max_pdu']:
        big = [len(b) - 6 for t, b in s3.frames(rec.inbound) if t == 4 and len(b) - 6 > plan['max_pdu']]
        if big:
            res['problems'].append('announced a maximum length of %d, received P-DATA-TF PDUs of up to %d bytes' % (plan['max_pdu'], max(big)))
    out[idx] = res


def run_round(case):
    srv, received = build_server(case['srv_max'])
    port = srv.server_address[1]
    out = {}
    with srv:
        threads = [threading.Thread(target=client_thread, args=(i, port, dict(case['plans'][i], seed=case['seed']), out))
                   for i in range(case['n'])]
        for t in threads:
            t.start()
        for t in threads:
            t.join(60)
        alive = [t for t in threads if t.is_alive()]
    problems = []
    if alive:
        problems.append('%d client threads did not finish' % len(alive))
    stored_all = []
    for i in range(case['n']):
        r = out.get(i)
        if r is None:
            problems.append('client %d produced no result' % i)
            continue
        for p in r['problems']:
            problems.append('client %d (limit %d, ts %d): %s' % (i, case['plans'][i]['max_pdu'], case['plans'][i]['ts'], p))
        if len(set(r['msg_ids'])) != len(r['msg_ids']):
            problems.append('client %d: message ids %r repeat within its thread' % (i, r['msg_ids'][:8]))
        want_limit = min(x for x in (case['plans'][i]['max_pdu'] or 10 ** 12, case['srv_max'] or 10 ** 12))
        if r.get('limit') is not None and (r['limit'] or 10 ** 12) != want_limit:
            problems.append('client %d negotiated limit %r, expected %r' % (i, r.get('limit'), want_limit))
        stored_all += r.get('stored', [])
        # the file handed to the handler says which transfer syntax ITS association negotiated
        import io
        import pydicom
        from pydicom import uid as _u
        want_ts = [_u.ImplicitVRLittleEndian, _u.ExplicitVRLittleEndian, _u.ExplicitVRBigEndian][case['plans'][i]['ts']]
        for s_ in r.get('stored', []):
            for _, _, c in received:
                if c.endswith(s_):
                    try:
                        got_ts = pydicom.dcmread(io.BytesIO(c), stop_before_pixels=True).file_meta.TransferSyntaxUID
                    except Exception as e:  # pylint: disable=broad-except
                        problems.append('client %d: the file handed to the handler is not readable: %r' % (i, e)); break
                    if got_ts != want_ts:
                        problems.append('client %d negotiated %s; the file of its instance is labelled %s' % (i, want_ts, got_ts))
                    break
    got_payloads = [c for _, _, c in received]
    for s_ in stored_all:
        if not any(c.endswith(s_) for c in got_payloads):
            problems.append('a stored data set did not reach the handler intact')
            break
    if len(got_payloads) < len(stored_all):
        problems.append('%d stores acknowledged, handler saw %d' % (len(stored_all), len(got_payloads)))
    return problems


def ids_soak(threads, draws):
    """`threads` threads draw `draws` ids each from the convenience counter, interleaved.  Returns
    (duplicates found, per-thread sequences that are not the model's 1, 2, 3, ...)"""
    import pynetdicom2
    got = {}
    bar = threading.Barrier(threads)

    def work(i):
        bar.wait()
        out = []
        for k in range(draws):
            out.append(pynetdicom2._new_msg_id())
            if k % 4096 == 0:
                time.sleep(0)
        got[i] = out
    ts = [threading.Thread(target=work, args=(i,)) for i in range(threads)]
    for t in ts:
        t.start()
    for t in ts:
        t.join(120)
    dups, off = [], []
    for i in range(threads):
        seq = got.get(i) or []
        seen = {}
        for k, v in enumerate(seq):
            if v in seen:
                dups.append('thread %d: id %r handed out at draws %d and %d' % (i, v, seen[v] + 1, k + 1))
                break
            seen[v] = k
        if seq != list(range(1, draws + 1)):
            k = next((k for k, v in enumerate(seq) if v != k + 1), len(seq))
            off.append('thread %d: draw %d returned %r (model: %d)' % (i, k + 1, seq[k] if k < len(seq) else None, k + 1))
    return dups, off


def interleaved_case(case):
    """the deterministic transport with interleaved stepping: K real providers in ONE process, each playing its own
    conversation, their loop passes interleaved by a seeded schedule.  Each provider must do exactly what it does when it
    runs alone (the Lean theorem `noninterference` says so for the product of the loop models; state shared between
    provider objects - class attributes, module globals - would break it here)."""
    from . import c03, scen
    convs = c03.conversations()
    names = case['convs']
    rnd = common.rng('c20-il-%d' % case['seed'])

    def script(conv):
        role, opts, turns = conv
        steps = []
        for t in turns:
            if t[0] == 'peer':
                steps += [('feed', s_) for s_ in t[1]]
            elif t[0] == 'eof':
                steps.append(('eof',))
            else:
                steps.append(('user', t[1]))
        return steps

    def new_runner(conv):
        role, opts, turns = conv
        react = (lambda x: []) if opts.get('silent') else scen.default_acceptor_user(reject=opts.get('reject'))
        return scen.Runner(role, react)

    def apply(r, st):
        if st[0] == 'feed':
            if r.sock is not None and not r.sock.closed:
                r.feed(st[1])
        elif st[0] == 'eof':
            if r.sock is not None and not r.sock.closed:
                r.feed('EOF')
        else:
            r.user(c03.user_prim(st[1]))
    # reference: each conversation alone
    solo = []
    for n in names:
        r = new_runner(convs[n])
        r.settle()
        for st in script(convs[n]):
            apply(r, st)
            r.settle()
        solo.append(c03.observable(r.summary()))
    # interleaved: one pass of one provider at a time; a provider gets its next input when it is quiescent
    rs = [new_runner(convs[n]) for n in names]
    todo = [script(convs[n]) for n in names]
    live = list(range(len(rs)))
    guard = 0
    while live and guard < 400000:
        guard += 1
        i = rnd.choice(live)
        r = rs[i]
        if r.tr.crash or r.tr.blocked:
            live.remove(i)
            continue
        if not r.step():
            if todo[i]:
                apply(r, todo[i].pop(0))
            else:
                live.remove(i)
    for i, n in enumerate(names):
        rs[i].settle()
        got = c03.observable(rs[i].summary())
        if got != solo[i]:
            k = next((j for j, (a, b) in enumerate(zip(got, solo[i])) if a != b), 0)
            return ('provider %d of %d (conversation %s) behaves differently when its passes are interleaved with the other '
                    'providers\' passes: %s differs: alone %r, interleaved %r'
                    % (i + 1, len(names), n, ['indications', 'PDUs sent', 'state', 'closed', 'socket', 'crash', 'blocked'][k],
                       str(solo[i][k])[:160], str(got[k])[:160]))
    return None


def encode_soak(threads, rounds):
    """several associations' threads encode their own messages at the same time (the encoders are module-level
    functions every association shares): each thread must get ITS bytes.  The expected bytes are computed beforehand,
    single-threaded.  Returns a list of problems."""
    import pydicom
    from pynetdicom2 import dsutils, dimsemessages as dm
    from . import msgs
    work = {}
    for i in range(threads):
        items = []
        for k in range(rounds):
            ds = pydicom.Dataset()
            ds.PatientID = 'T%d-%d' % (i, k)
            ds.PatientName = ('n%d' % i) * (1 + (i * 7 + k) % 40)
            ds.add_new(0x00420011, 'OB', bytes((i * 31 + k + j) % 256 for j in range(2 * ((i + k) % 50))))
            imp = (i + k) % 2 == 0
            items.append((ds, imp, dsutils.encode(ds, imp, True), 1 + (i * 1000 + k) % 65535))
        work[i] = items
    problems = []
    bar = threading.Barrier(threads)

    def body(i):
        bar.wait()
        for k, (ds, imp, want, mid) in enumerate(work[i]):
            got = dsutils.encode(ds, imp, True)
            if got != want:
                problems.append('thread %d, data set %d: encoded to %d bytes that are not its own %d bytes' % (i, k, len(got), len(want)))
                return
            m = dm.CStoreRQMessage()
            m.message_id = mid; m.sop_class_uid = IMG; m.affected_sop_instance_uid = '1.2.%d.%d' % (i, k); m.priority = 0
            m.data_set = got
            pdus = msgs.send_via_association(m, 1 + 2 * (i % 100), 16384)
            cmd = b''.join(it.data_value[1:] for p in pdus for it in p.data_value_items if it.data_value[0] in (1, 3))
            cs = dsutils.decode(cmd, True, True)
            if cs.MessageID != mid or str(cs.AffectedSOPInstanceUID) != '1.2.%d.%d' % (i, k) or cs.CommandGroupLength != len(cmd) - 12:
                problems.append('thread %d, message %d: command set on the wire has id %r, instance %r, group length %r for %d bytes'
                                % (i, k, cs.MessageID, str(cs.AffectedSOPInstanceUID), cs.CommandGroupLength, len(cmd) - 12))
                return
    ts = [threading.Thread(target=body, args=(i,), daemon=True) for i in range(threads)]
    for t in ts:
        t.start()
    for t in ts:
        t.join(120)
    return problems


def dead_peer_case(case):
    """one entity, several requests at once, one of them to a peer that accepts the connection and never answers: the
    healthy associations must not wait for the dead one"""
    import socket
    from pynetdicom2 import applicationentity as aem, sopclass as sc
    srv, _ = build_server(16384)
    port = srv.server_address[1]
    hole = socket.socket(); hole.bind(('127.0.0.1', 0)); hole.listen(8)
    cli = aem.ClientAE('SHARED').add_scu(sc.verification_scu)
    cli.timeout = case['timeout']
    t0 = time.time()
    times, errs = {}, {}

    def dead():
        try:
            with cli.request_association({'aet': 'NOBODY', 'address': '127.0.0.1', 'port': hole.getsockname()[1]}):
                pass
        except BaseException as e:  # pylint: disable=broad-except
            errs['dead'] = e
        times['dead'] = time.time() - t0

    def healthy(i):
        try:
            with cli.request_association({'aet': 'SRV', 'address': '127.0.0.1', 'port': port}) as assoc:
                st = assoc.get_scu(sc.VERIFICATION_SOP_CLASS)(1)
                if int(st) != 0:
                    errs[i] = 'echo status %r' % int(st)
        except BaseException as e:  # pylint: disable=broad-except
            errs[i] = e
        times[i] = time.time() - t0
    with srv:
        ths = [threading.Thread(target=dead, daemon=True)]
        ths[0].start()
        hole.settimeout(10)
        try:
            held, _ = hole.accept()          # the dead request is under way: its TCP connection has arrived
        except OSError:
            held = None
        time.sleep(0.2)
        for i in range(case['healthy']):
            ths.append(threading.Thread(target=healthy, args=(i,), daemon=True))
            ths[-1].start()
        for t in ths:
            t.join(case['timeout'] * 2 + 10)
    hole.close()
    bad = [i for i in range(case['healthy']) if i in errs]
    if bad:
        return 'healthy association %d failed: %r' % (bad[0], errs[bad[0]])
    if 'dead' not in times:
        return None                          # the dead request has not even given up yet: nothing to compare with
    late = [i for i in range(case['healthy']) if times.get(i, 1e9) > times['dead'] - 1.0]
    if late:
        return ('%d of %d healthy associations of the same entity finished only when the request to the dead peer gave up '
                '(%.1f s); they took %s s' % (len(late), case['healthy'], times['dead'], ', '.join('%.1f' % times.get(i, -1) for i in late)))
    return None


def wrapper_ids_case(case):
    """the convenience wrapper pynetdicom2.c_find called several times in each of several threads against one real AE; a
    spy in front of the find provider records the message id of every C-FIND request per calling thread: the ids one
    thread used must be pairwise distinct"""
    import pydicom
    import pynetdicom2
    from pynetdicom2 import applicationentity as aem, sopclass as sc
    seen = {}
    lock = threading.Lock()

    def spy(asce, ctx, msg):
        who = asce.remote_ae
        who = (who.decode('ascii', 'replace') if isinstance(who, bytes) else str(who)).strip()
        with lock:
            seen.setdefault(who, []).append(int(msg.message_id))
        return sc.qr_find_scp(asce, ctx, msg)
    spy.sop_classes = list(sc.qr_find_scp.sop_classes)

    proposals = {}

    class Srv(aem.AE):
        def on_receive_find(self, context, ds):
            return iter(())

        def on_association_request(self, asce, rq):
            who = rq.calling_ae_title
            who = (who.decode('ascii', 'replace') if isinstance(who, bytes) else str(who)).strip()
            with lock:
                proposals.setdefault(who, []).append([(i.context_id, str(i.abs_sub_item.name)) for i in rq.variable_items[1:-1]])
    srv = Srv('SRV', 0)
    srv.timeout = 10
    srv.add_scp(spy)
    port = srv.server_address[1]
    errs = []

    def body(i):
        try:
            for _ in range(case['calls']):
                q = pydicom.Dataset(); q.PatientID = 'T%d' % i; q.QueryRetrieveLevel = 'PATIENT'
                list(pynetdicom2.c_find({'aet': 'SRV', 'address': '127.0.0.1', 'port': port}, 'WRAP%d' % i, q))
        except BaseException as e:  # pylint: disable=broad-except
            errs.append('thread %d: c_find() raised %r' % (i, e))
    with srv:
        ths = [threading.Thread(target=body, args=(i,), daemon=True) for i in range(case['threads'])]
        for t in ths:
            t.start()
        for t in ths:
            t.join(60)
        if any(t.is_alive() for t in ths):
            return 'c_find() calls did not finish within 60 s'
    if errs:
        return errs[0]
    for i in range(case['threads']):
        ids = seen.get('WRAP%d' % i, [])
        if len(ids) != case['calls']:
            return 'thread %d made %d c_find() calls, the provider saw %d requests' % (i, case['calls'], len(ids))
        if len(set(ids)) != len(ids):
            return 'thread %d: consecutive c_find() calls used message ids %r - not unique within the thread' % (i, ids)
        props = proposals.get('WRAP%d' % i, [])
        if any(p != props[0] for p in props[1:]):
            return ('thread %d: consecutive c_find() calls proposed %r contexts - the same call must make the same request '
                    '(first: %r, last: %r)' % (i, [len(p) for p in props], props[0][:3], props[-1][:6]))
    return None


def silent_peer_case(case):
    """one accepting entity, two connections: one peer connects and says nothing, the other runs a whole association
    meanwhile; the silent connection must still be dropped when its own ARTIM period (10 s) is over"""
    import socket
    from pynetdicom2 import applicationentity as aem, sopclass as sc
    srv, _ = build_server(16384)
    srv.timeout = 60                     # the entity's own patience is longer than ARTIM: only ARTIM can drop the connection in time
    port = srv.server_address[1]
    errs = {}
    with srv:
        silent = socket.create_connection(('127.0.0.1', port), timeout=5)
        t0 = time.time()
        time.sleep(0.5)
        for k in range(case['busy']):
            try:
                cli = aem.ClientAE('BUSY%d' % k).add_scu(sc.verification_scu)
                cli.timeout = 10
                with cli.request_association({'aet': 'SRV', 'address': '127.0.0.1', 'port': port}) as assoc:
                    st = assoc.get_scu(sc.VERIFICATION_SOP_CLASS)(1)
                    if int(st) != 0:
                        errs[k] = 'echo status %r' % int(st)
            except BaseException as e:  # pylint: disable=broad-except
                errs[k] = e
            time.sleep(0.3)
        silent.settimeout(max(1.0, case['wait'] - (time.time() - t0)))
        try:
            data = silent.recv(64)
            took = time.time() - t0
            verdict = None if data == b'' or data[:1] == b'\x07' else 'the silent connection received %r' % data[:16]
        except socket.timeout:
            verdict = ('a connection whose peer never spoke was still open %d s after it was made (%d other associations of the '
                       'same entity ran meanwhile): it was not dropped when its ARTIM period (10 s) was over' % (case['wait'], case['busy']))
        except OSError:
            verdict = None               # reset: dropped
        silent.close()
    if errs:
        k = sorted(errs)[0]
        return 'busy association %d failed: %r' % (k, errs[k])
    return verdict


def refusals_case(case):
    """one accepting entity refuses a run of requests (its application raises AssociationRejectedError for them); every
    refused peer keeps its side open after the A-ASSOCIATE-RJ.  Each of those connections must be closed by the entity
    within the ARTIM period, and the entity must go on serving: a good request afterwards is accepted and answered."""
    import socket
    from pynetdicom2 import applicationentity as aem, sopclass as sc, exceptions, pdu
    from . import scen, s3

    class Srv(aem.AE):
        def on_association_request(self, asce, assoc_req):
            if assoc_req.calling_ae_title.strip().startswith('BAD'):
                raise exceptions.AssociationRejectedError(1, 1, 3)
    srv = Srv('SRV', 0)
    srv.timeout = 30
    srv.add_scp(sc.verification_scp)
    port = srv.server_address[1]
    problems = []
    with srv:
        conns = []
        for k in range(case['refused']):
            c = socket.create_connection(('127.0.0.1', port), timeout=10)
            rq = scen.rq_pdu()
            rq.calling_ae_title = 'BAD%d' % k
            c.sendall(rq.encode())
            conns.append(c)
        t0 = time.time()
        for k, c in enumerate(conns):
            buf = b''
            try:
                while not s3.frames(buf):
                    d = c.recv(4096)
                    if not d:
                        break
                    buf += d
            except OSError as e:
                problems.append('refused request %d: %r while waiting for the answer' % (k, e))
                continue
            if not buf or buf[0] != 3:
                problems.append('refused request %d was answered with %s, not an A-ASSOCIATE-RJ' % (k, 'PDU type %d' % buf[0] if buf else 'a close'))
        still = 0
        for k, c in enumerate(conns):
            c.settimeout(max(0.5, case['wait'] - (time.time() - t0)))
            try:
                if c.recv(16) != b'':
                    pass
            except socket.timeout:
                still += 1
            except OSError:
                pass
        if still:
            problems.append('%d of %d refused connections whose peer kept its side open were still open %d s after the refusal'
                            % (still, len(conns), case['wait']))
        try:
            cli = aem.ClientAE('GOOD').add_scu(sc.verification_scu)
            cli.timeout = 10
            with cli.request_association({'aet': 'SRV', 'address': '127.0.0.1', 'port': port}) as assoc:
                st = assoc.get_scu(sc.VERIFICATION_SOP_CLASS)(1)
                if int(st) != 0:
                    problems.append('echo after the refusals: status %r' % int(st))
        except BaseException as e:  # pylint: disable=broad-except
            problems.append('after %d refused requests a good request failed: %r (gave up after 10 s)' % (case['refused'], e))
        for c in conns:
            c.close()
    return '; '.join(problems[:3]) or None


def timeout_none_case(case):
    """entities whose timeout is None ("wait as long as it takes") on both sides: an association is requested, accepted,
    used and released like any other"""
    from pynetdicom2 import applicationentity as aem, sopclass as sc
    srv, _ = build_server(16384)
    srv.timeout = None
    port = srv.server_address[1]
    box = {}

    def body():
        try:
            cli = aem.ClientAE('PATIENT').add_scu(sc.verification_scu)
            cli.timeout = None
            with cli.request_association({'aet': 'SRV', 'address': '127.0.0.1', 'port': port}) as assoc:
                box['st'] = [int(assoc.get_scu(sc.VERIFICATION_SOP_CLASS)(k + 1)) for k in range(3)]
        except BaseException as e:  # pylint: disable=broad-except
            box['exc'] = e
    with srv:
        th = threading.Thread(target=body, daemon=True)
        th.start()
        th.join(20)
        if th.is_alive():
            return 'entities with timeout None: three C-ECHOs did not finish within 20 s'
    if 'exc' in box:
        return 'entities with timeout None: the association raised %r' % (box['exc'],)
    if box.get('st') != [0, 0, 0]:
        return 'entities with timeout None: C-ECHO statuses %r' % (box.get('st'),)
    return None


def entity_job(case):
    """one real-entity case, run in a worker process: a verdict text, a list of problems (rounds), or None"""
    try:
        if 'plans' in case:
            return run_round(case) or None
        return replay(case)
    except BaseException as e:  # pylint: disable=broad-except
        return 'harness:' + common.describe_exc(e)


def replay(case):
    if case.get('timeout_none'):
        return timeout_none_case(case)
    if case.get('refusals'):
        return refusals_case(case)
    if case.get('wrapper_ids'):
        return wrapper_ids_case(case)
    if case.get('silent_peer'):
        return silent_peer_case(case)
    if case.get('encode_soak'):
        p = encode_soak(case['threads'], case['rounds'])
        return '; '.join(p[:3]) or None
    if case.get('interleaved'):
        try:
            return interleaved_case(case)
        finally:
            s2.uninstall()
    if case.get('dead_peer'):
        return dead_peer_case(case)
    if case.get('ids_soak'):
        dups, _ = ids_soak(case['threads'], case['draws'])
        return '; '.join(dups[:3]) or None
    p = run_round(case)
    return '; '.join(p[:4]) or None


def make_case(rnd, n, seed):
    plans = []
    for i in range(n):
        plans.append({'ts': rnd.randrange(3), 'max_pdu': rnd.choice([0, 512, 1024, 4096, 16384, 65536]),
                      'ops': rnd.randrange(2, 6), 'kinds': rnd.sample(['echo', 'find', 'store'], 3),
                      'size': rnd.choice([10, 600, 5000]),
                      'abort_after': rnd.randrange(1, 3) if rnd.random() < 0.25 else None})
    return {'n': n, 'seed': seed, 'srv_max': rnd.choice([0, 2048, 16384]), 'plans': plans}


def run(chk):
    tier = chk.tier
    rnd = common.rng('c20')
    chk.rule = ('one real AE (ThreadingTCPServer on loopback, port 0) serving N concurrent ClientAE threads (N = 4, 16 and 32 '
                'quick; up to 48 thorough), each with its own transfer syntax, maximum length, operation mix (C-ECHO, C-FIND with '
                'client-tagged matches, C-STORE of client-specific data), some leaving through an error (abort) mid-way; every '
                'client checks its own answers (ids, data, the transfer syntax the server used for it, negotiated limit), message '
                'ids from the convenience counter must not repeat within a thread (checked in the rounds and in a soak of 8 x 70 000 / 32 x 300 000 draws, which is also compared with the model sequence 1, 2, 3, ...), every acknowledged store must have reached the '
                'handler intact; repeated over seeds; non-trivial = rounds with at least 4 concurrent clients')
    chk.trusted += ['OS thread scheduling: the interleavings are whatever this run produced (sampled, not enumerated)']
    # the convenience counter alone, far beyond what a round draws (16-bit boundary included)
    th, dr = (8, 70000) if tier == 'quick' else (32, 300000)
    dups, off = ids_soak(th, dr)
    soak = {'ids_soak': True, 'threads': th, 'draws': dr}
    chk.case('ids-soak', True, {'ids_soak': '%d threads x %d draws' % (th, dr)})
    chk.count('ids:draws', th * dr)
    if dups:
        chk.violation('C20:ids:repeat', 'message ids repeat within a thread: ' + '; '.join(dups[:3]), soak)
    elif off:
        chk.broke('correspondence: _new_msg_id vs Dicom.C20.newMsgId', '; '.join(off[:3]), soak)
    # several providers in one process under the deterministic transport, their passes interleaved
    from . import c03
    allnames = sorted(c03.conversations())
    for k in range(12 if tier == 'quick' else 300):
        ic = {'interleaved': True, 'seed': k, 'convs': [allnames[(k * 5 + j * 3) % len(allnames)] for j in range(2 + k % 4)]}
        try:
            r = interleaved_case(ic)
        except Exception as e:  # pylint: disable=broad-except
            common.raise_for(common.describe_exc(e))
        finally:
            s2.uninstall()                   # the rest of this check runs on real sockets, real select and real time
        chk.case(repr(ic), True, {'interleaved_providers': len(ic['convs']), 'conversations': ic['convs']} if k < 3 else None)
        chk.count('interleaved:%d-providers' % len(ic['convs']))
        if r:
            chk.violation('C20:interleaved', r, ic)
    # the shared encoders under concurrent use
    es = {'encode_soak': True, 'threads': 8, 'rounds': 150 if tier == 'quick' else 1500}
    import sys as _sys
    old_si = _sys.getswitchinterval()
    _sys.setswitchinterval(1e-5)             # switch threads often: what would take a loaded server hours shows in seconds
    try:
        probs = encode_soak(es['threads'], es['rounds'])
    finally:
        _sys.setswitchinterval(old_si)
    chk.case(repr(es), True, {'encode_soak': '%d threads x %d messages' % (es['threads'], es['rounds'])})
    chk.count('encode-soak:messages', es['threads'] * es['rounds'])
    if probs:
        chk.violation('C20:encode-soak', 'concurrent associations: ' + '; '.join(probs[:3]), es)
    # real entities on loopback TCP, each case in a worker process of its own with a time limit (an entity that hangs in
    # shutdown or accept is a verdict, not a hung check); the four run side by side
    jobs = [({'dead_peer': True, 'timeout': 6, 'healthy': 3}, 'dead-peer', 'one entity, 3 healthy requests + 1 to a peer that never answers'),
            ({'wrapper_ids': True, 'threads': 4, 'calls': 3}, 'wrapper-ids', '4 threads x 3 c_find() calls, ids seen by the provider'),
            ({'refusals': True, 'refused': 24, 'wait': 13}, 'refusals', '24 refused requests whose peers stay connected, then a good one'),
            ({'silent_peer': True, 'busy': 3, 'wait': 16}, 'silent-peer', 'one entity: a silent connection while 3 associations run'),
            ({'timeout_none': True}, 'timeout-none', 'entities configured to wait for ever (timeout None) on both sides')]
    res = common.bounded_map(entity_job, [j[0] for j in jobs], 5, 150)
    for (case, label, what), r in zip(jobs, res):
        if isinstance(r, str) and r.startswith('harness:'):
            common.raise_for(r[len('harness:'):])
        chk.case(label, True, {label: what})
        chk.count(label)
        if r:
            r = '%s: %s' % (label, r if isinstance(r, str) else '; '.join(r[:3]))
            # a verdict that depends on real time on real threads counts only if it reproduces twice more
            if common.timing_verdict(r) and not all(common.bounded_map(entity_job, [case, case], 2, 150)):
                chk.count('timing-verdict-not-reproduced')
                continue
            chk.violation('C20:' + label, r, case)
    rounds = [(4, 3), (16, 2), (32, 1)] if tier == 'quick' else [(4, 10), (16, 10), (32, 5), (48, 3)]
    seed = 0
    for n, reps in rounds:
        for _ in range(reps):
            seed += 1
            case = make_case(rnd, n, seed)
            t0 = time.time()
            problems = common.bounded_map(entity_job, [case], 1, 400)[0]
            if isinstance(problems, str):
                if problems.startswith('harness:'):
                    common.raise_for(problems[len('harness:'):])
                problems = [problems]
            chk.case(repr(case), n >= 4, {'clients': n, 'aborting': sum(1 for p in case['plans'] if p['abort_after'] is not None),
                                          'seconds': round(time.time() - t0, 1)})
            chk.count('clients:%d' % n)
            chk.evaluations += sum(p['ops'] for p in case['plans'])
            if problems:
                # data mismatches count at once; a liveness problem only if it reproduces
                if all(common.timing_verdict(p) for p in problems):
                    if not all(common.bounded_map(entity_job, [case, case], 2, 400)):
                        chk.count('timing-verdict-not-reproduced'); continue
                chk.violation('C20:' + problems[0][:30], '%d clients, seed %d: %s' % (n, seed, '; '.join(problems[:3])), case)
    chk.lean(['Dicom.Props.C20'])
