"""Harness core: paths, PRNG, Lean build/driver/audit, verdict and evidence."""
import fcntl
import hashlib
import json
import os
import random
import re
import subprocess
import traceback
import sys
import time
import warnings

warnings.simplefilter('ignore')

VERIF = os.path.dirname(os.path.dirname(os.path.abspath(__file__)))
LEAN = os.path.join(VERIF, 'lean')
REPO = os.environ.get('REPO', '/repo')
if REPO not in sys.path:
    sys.path.insert(0, REPO)
os.environ.setdefault('PYNETDICOM2_VERIF', '1')

DRIVER = os.path.join(LEAN, '.lake', 'build', 'bin', 'driver')
ALLOWED_AXIOMS = {'propext', 'Classical.choice', 'Quot.sound'}
FORBIDDEN = re.compile(r'\b(sorry|admit|native_decide|bv_decide|implemented_by|unsafe)\b|^axiom |maxHeartbeats 0')


class LibError(Exception):
    """the implementation under test raised where the harness expected a result: the run cannot go on, the
    property is no longer shown to hold (reported as a broken correspondence, not as an infrastructure error)"""


def lib_trace(e):
    """'file:line function' of the innermost frame inside the library under test, or None"""
    root = os.path.abspath(REPO) + os.sep
    hit = None
    for f in traceback.extract_tb(e.__traceback__):
        if os.path.abspath(f.filename).startswith(root):
            hit = '%s:%d %s' % (os.path.relpath(f.filename, root), f.lineno, f.name)
    return hit


def describe_exc(e):
    """text of an exception caught around a harness run: 'lib: ...' when raised inside the library"""
    where = lib_trace(e)
    if where:
        return 'lib: %s: %s raised at %s' % (type(e).__name__, str(e)[:300], where)
    return 'harness: %r\n%s' % (e, traceback.format_exc()[-1500:])


TIMING = re.compile(r'alive|Timeout|timed out|did not finish|did not return|within \d+ s|gave up|waiting|still open \d+ s|raised|failed:', re.I)


def timing_verdict(v):
    """a verdict that may depend on real time on real threads - a wait that ran out, or an exception at one side, which is
    also how a timeout at the *other* side shows (it counts only if it reproduces; a data mismatch counts at once)"""
    return bool(v) and bool(TIMING.search(v))


def bounded_map(func, cases, procs, per_case_s):
    """pool.map for cases that run real threads of the library: a case that does not return within `per_case_s` seconds
    gets the verdict 'the case did not finish within N s' (a worker stuck inside the library cannot hang the check); the
    pool is torn down and the cases not yet done go to a fresh one.  After three rounds with hangs the rest is left
    unevaluated (None): the verdict is already there."""
    import multiprocessing
    results = [None] * len(cases)
    pending = list(range(len(cases)))
    rounds_with_hangs = 0
    while pending and rounds_with_hangs < 3:
        pool = multiprocessing.Pool(min(procs, len(pending)))
        try:
            asyncs = [(i, pool.apply_async(func, (cases[i],))) for i in pending]
            nxt, hung = [], False
            for i, a in asyncs:
                try:
                    results[i] = a.get(timeout=2 if hung else per_case_s)
                except multiprocessing.TimeoutError:
                    if hung:
                        nxt.append(i)
                    else:
                        results[i] = 'the case did not finish within %d s' % per_case_s
                        hung = True
            pending = nxt
            rounds_with_hangs += hung
        finally:
            pool.terminate()
    return results


def raise_for(text):
    """turn the text of `describe_exc` into the right exception"""
    if text.startswith('lib:'):
        raise LibError(text)
    raise Infra(text)


class Infra(Exception):
    """Infrastructure failure (exit 2), never a verdict."""


def seed():
    try:
        return int(os.environ.get('VERIF_SEED', '0'))
    except ValueError:
        return 0


def rng(tag=''):
    """One PRNG per check run, derived from VERIF_SEED (and a tag for sub-streams)."""
    h = hashlib.sha256(('%d/%s' % (seed(), tag)).encode()).digest()
    return random.Random(int.from_bytes(h[:8], 'big'))


class _Lock(object):
    def __enter__(self):
        os.makedirs(os.path.join(LEAN, '.lake'), exist_ok=True)
        self.f = open(os.path.join(LEAN, '.lake', 'verif.lock'), 'w')
        fcntl.flock(self.f, fcntl.LOCK_EX)
        return self

    def __exit__(self, *a):
        fcntl.flock(self.f, fcntl.LOCK_UN)
        self.f.close()


def lake_build(targets, timeout=3000):
    """lake build <targets>; returns (ok, output).  Serialised across processes."""
    from . import extract
    with _Lock():
        extract.gen_limits()                 # constants every model imports: always those of the current /repo
        t0 = time.time()
        try:
            p = subprocess.run(['lake', 'build'] + list(targets), cwd=LEAN, stdout=subprocess.PIPE,
                               stderr=subprocess.STDOUT, timeout=timeout)
        except subprocess.TimeoutExpired:
            raise Infra('lake build timed out')
        return p.returncode == 0, p.stdout.decode('utf-8', 'replace'), time.time() - t0


_driver_ready = False


def ensure_driver():
    """(re)build the driver once per process: a no-op build when nothing changed"""
    global _driver_ready
    if _driver_ready:
        return
    ok, out, _ = lake_build(['driver'])
    if not ok:
        raise Infra('driver does not build:\n' + out[-3000:])
    _driver_ready = True


def driver(lines, timeout=3000):
    """Pipe op lines to the compiled Lean driver; one output line per op."""
    ensure_driver()
    if not lines:
        return []
    data = ('\n'.join(lines) + '\n').encode()
    try:
        p = subprocess.run([DRIVER], input=data, stdout=subprocess.PIPE, stderr=subprocess.PIPE,
                           timeout=timeout)
    except subprocess.TimeoutExpired:
        raise Infra('driver timed out')
    if p.returncode != 0:
        raise Infra('driver failed: ' + p.stderr.decode('utf-8', 'replace')[-2000:])
    out = p.stdout.decode('utf-8', 'replace').split('\n')
    if out and out[-1] == '':
        out.pop()
    if len(out) != len(lines):
        raise Infra('driver returned %d lines for %d ops' % (len(out), len(lines)))
    return out


AX_RE = re.compile(r"^'([^']+)' (depends on axioms: \[([^\]]*)\]|does not depend on any axioms)", re.M)


def audit(prop):
    """#print axioms of every property theorem of `prop` (lean/Dicom/Audit/<prop>.lean).

    Returns {theorem: [axioms]}.  Requires the Props module to be built."""
    path = os.path.join('Dicom', 'Audit', prop + '.lean')
    with _Lock():
        p = subprocess.run(['lake', 'env', 'lean', path], cwd=LEAN, stdout=subprocess.PIPE,
                           stderr=subprocess.STDOUT, timeout=1200)
    text = p.stdout.decode('utf-8', 'replace')
    res = {}
    for m in AX_RE.finditer(text.replace('\n  ', ' ').replace(',\n', ', ')):
        axs = [a.strip() for a in (m.group(3) or '').split(',') if a.strip()]
        res[m.group(1)] = axs
    return res, p.returncode == 0, text


def audit_names(prop):
    path = os.path.join(LEAN, 'Dicom', 'Audit', prop + '.lean')
    names = []
    with open(path) as f:
        for line in f:
            m = re.match(r'#print axioms\s+(\S+)', line)
            if m:
                names.append(m.group(1))
    return names


def forbidden_hits():
    """grep the Lean sources for sorry/admit/native_decide/... outside comments."""
    hits = []
    for root, _, files in os.walk(os.path.join(LEAN, 'Dicom')):
        for fn in files:
            if not fn.endswith('.lean'):
                continue
            p = os.path.join(root, fn)
            in_block = 0
            for i, line in enumerate(open(p, encoding='utf-8'), 1):
                code = line
                # strip block comments (nesting-insensitive but adequate) and line comments
                out = ''
                j = 0
                while j < len(code):
                    if code.startswith('/-', j):
                        in_block += 1; j += 2; continue
                    if code.startswith('-/', j) and in_block:
                        in_block -= 1; j += 2; continue
                    if not in_block:
                        if code.startswith('--', j):
                            break
                        out += code[j]
                    j += 1
                if FORBIDDEN.search(out):
                    hits.append('%s:%d: %s' % (os.path.relpath(p, LEAN), i, line.strip()))
    return hits


def load_known():
    with open(os.path.join(VERIF, 'known_findings.json')) as f:
        return json.load(f)['findings']


class Check(object):
    """Collects what one run of one property's check did, decides the verdict, writes evidence."""

    def __init__(self, prop, tier):
        self.prop = prop
        self.tier = tier
        self.t0 = time.time()
        self.obligations = []       # (name, discharged?, detail)
        self.evaluations = 0
        self.distinct = set()
        self.samples = []
        self.dist = {}
        self.violations = []        # (key, description, case)
        self.broken = []            # proof / correspondence breaks: (what, detail, case)
        self.known_hit = []
        self.rule = ''
        self.assumptions = []
        self.trusted = []
        self.extra = {}
        self.exhaustive = None
        self.checker_cmd = ''

    # ---- counting
    def count(self, key, n=1):
        self.dist[key] = self.dist.get(key, 0) + n

    def case(self, canon, nontrivial=True, sample=None):
        """register one explored case (canonical text); returns nothing"""
        self.evaluations += 1
        if nontrivial:
            self.distinct.add(hashlib.md5(canon.encode('utf-8', 'replace')).digest()[:8])
        if sample is not None and len(self.samples) < 8:
            self.samples.append(sample)

    def oblige(self, name, ok, detail=''):
        self.obligations.append((name, bool(ok), detail))

    # ---- findings
    def violation(self, key, desc, case):
        """the implementation fails the property on `case` (independent of the model)"""
        for k in load_known():
            if k.get('status') == 'open' and k.get('property') == self.prop and k.get('key') == key:
                if key not in [x[0] for x in self.known_hit]:
                    self.known_hit.append((key, k.get('what_fails', desc)))
                return
        if len(self.violations) < 50:
            self.violations.append((key, desc, case))

    def broke(self, what, detail, case=None):
        """a proof obligation or the model/implementation correspondence no longer checks"""
        if len(self.broken) < 50:
            self.broken.append((what, detail, case))

    # ---- lean side
    def lean(self, targets, audit_prop=None):
        """build the property's Lean targets and audit axioms; registers obligations"""
        audit_prop = audit_prop or self.prop
        self.checker_cmd = 'cd lean && lake build %s && lake env lean Dicom/Audit/%s.lean' % (
            ' '.join(targets), audit_prop)
        names = audit_names(audit_prop)
        ok, out, secs = lake_build(targets)
        self.extra['lake_build_s'] = round(secs, 2)
        if not ok:
            errs = [l for l in out.split('\n') if 'error' in l][:12]
            for n in names:
                self.oblige(n, False, 'lake build failed')
            self.broke('lake build ' + ' '.join(targets), '\n'.join(errs) or out[-1500:])
            return False
        res, aok, text = audit(audit_prop)
        good = True
        for n in names:
            axs = res.get(n)
            if axs is None:
                self.oblige(n, False, 'no #print axioms output')
                self.broke('audit ' + n, text[-800:])
                good = False
            elif not set(axs) <= ALLOWED_AXIOMS:
                self.oblige(n, False, 'axioms ' + ', '.join(axs))
                self.broke('audit ' + n, 'unexpected axioms: ' + ', '.join(axs))
                good = False
            else:
                self.oblige(n, True, 'axioms: ' + (', '.join(axs) or 'none'))
        hits = forbidden_hits()
        self.oblige('no sorry/admit/native_decide/axiom in lean/Dicom', not hits, '; '.join(hits[:5]))
        if hits:
            self.broke('forbidden constructs', '\n'.join(hits[:20]))
            good = False
        if self.tier == 'thorough' and good:
            # independent replay of the compiled proofs by the toolchain's re-checker
            t0 = time.time()
            try:
                with _Lock():
                    p = subprocess.run(['lake', 'env', 'leanchecker'] + list(targets), cwd=LEAN, stdout=subprocess.PIPE,
                                       stderr=subprocess.STDOUT, timeout=3600)
                ok2, out2 = p.returncode == 0, p.stdout.decode('utf-8', 'replace')
            except subprocess.TimeoutExpired:
                raise Infra('leanchecker timed out')
            self.extra['leanchecker_s'] = round(time.time() - t0, 1)
            self.checker_cmd += ' && lake env leanchecker ' + ' '.join(targets)
            self.oblige('leanchecker replays ' + ' '.join(targets), ok2, out2[-300:] if not ok2 else 'ok')
            if not ok2:
                self.broke('leanchecker ' + ' '.join(targets), out2[-1500:])
                good = False
        return good

    # ---- output
    def finish(self):
        os.makedirs(os.path.join(VERIF, 'evidence'), exist_ok=True)
        os.makedirs(os.path.join(VERIF, 'replays'), exist_ok=True)
        for old in os.listdir(os.path.join(VERIF, 'replays')):        # replays of earlier runs of this check and seed
            if old.startswith('%s-%d-' % (self.prop, seed())) and old.endswith('.json'):
                os.remove(os.path.join(VERIF, 'replays', old))
        lines = []
        for key, what in self.known_hit:
            lines.append('KNOWN-FINDING: property=%s %s' % (self.prop, what))
        n = 0
        for key, desc, case in self.violations:
            n += 1
            path = os.path.join('replays', '%s-%d-%d.json' % (self.prop, seed(), n))
            with open(os.path.join(VERIF, path), 'w') as f:
                json.dump({'property': self.prop, 'key': key, 'what': desc, 'case': case}, f, indent=1, default=str)
            lines.append('VIOLATION property=%s replay=%s' % (self.prop, path))
            print('  %s' % desc[:600])
        if self.broken and not self.violations:
            # proof or correspondence broke and the search found no failing input
            n += 1
            path = os.path.join('replays', '%s-%d-%d.json' % (self.prop, seed(), n))
            with open(os.path.join(VERIF, path), 'w') as f:
                json.dump({'property': self.prop, 'no_failing_input_found': True,
                           'no_longer_checks': [{'what': w, 'detail': d, 'first_case': c} for w, d, c in self.broken]},
                          f, indent=1, default=str)
            for w, d, c in self.broken[:5]:
                print('  no longer checks: %s\n    %s' % (w, str(d)[:800].replace('\n', '\n    ')))
            lines.append('VIOLATION property=%s replay=%s no-failing-input-found' % (self.prop, path))
        elif self.broken:
            for w, d, c in self.broken[:5]:
                print('  also no longer checks: %s' % w)
        disch = sum(1 for _, ok, _ in self.obligations if ok)
        cov = {
            'obligations': len(self.obligations), 'discharged': disch,
            'checker_cmd': self.checker_cmd or 'cd lean && lake build',
            'trusted_base': ['Lean 4.33.0 kernel', 'axioms allowed: propext, Classical.choice, Quot.sound'] + self.trusted,
            'evaluations': self.evaluations, 'distinct_nontrivial': len(self.distinct),
            'rule': self.rule, 'samples': self.samples[:8] or ['(none)'],
            'obligation_list': [{'name': n_, 'discharged': ok, 'detail': d} for n_, ok, d in self.obligations],
            'input_distribution': self.dist,
            'known_findings_hit': [k for k, _ in self.known_hit],
            'broken': [w for w, _, _ in self.broken],
        }
        if self.exhaustive is not None:
            cov['exhaustive'] = bool(self.exhaustive)
        cov.update(self.extra)
        ev = {'property_id': self.prop, 'tier': self.tier, 'seed': seed(), 'level': 'proof',
              'coverage': cov, 'assumptions': self.assumptions, 'wall_s': round(time.time() - self.t0, 2),
              'violations': len(self.violations) + (1 if self.broken and not self.violations else 0)}
        with open(os.path.join(VERIF, 'evidence', self.prop + '.json'), 'w') as f:
            json.dump(ev, f, indent=1, default=str)
        for l in lines:
            print(l)
        bad = bool(self.violations or self.broken)
        print('%s %s: %d/%d obligations discharged, %d evaluations (%d distinct non-trivial), %.1fs -> %s'
              % (self.prop, self.tier, disch, len(self.obligations), self.evaluations, len(self.distinct),
                 time.time() - self.t0, 'FAIL' if bad else 'ok'))
        return 1 if bad else 0
