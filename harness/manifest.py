"""Writes MANIFEST.json from the table below (single source of truth for what is claimed)."""
import json
import os

HERE = os.path.dirname(os.path.dirname(os.path.abspath(__file__)))

BASELINE = ('cd /repo && /venv/bin/python -m pytest -q -p no:cacheprovider --timeout=900 '
            'tests/test_pdu.py tests/test_dimsemessages.py')

# id -> (design_ref, technique, text, note)
CLAIMED = {
 'C18': ('DESIGN.md §6 C18',
         'Lean 4 theorems over a table regenerated exhaustively from the running code',
         'Status(code, cmd) is tabulated for all 65536 codes x 24 command classes on the current source and emitted '
         'as Lean data; the kernel re-proves totality, exclusivity, 0000=success, the pending codes, service-specific '
         'ranges and unknown=failure for EVERY code (lifted from run lists by lemmas, not enumerated). The domain is '
         'finite, so this is a complete decision.',
         'Trusted: Lean kernel; axioms propext, Quot.sound; the extractor (harness/extract.py); the transcription of '
         'the status tables of PS3.7 Annex C / PS3.4 in Dicom/Spec/StatusSpec.lean.'),

 'C04': ('DESIGN.md §6 C04',
         'Lean 4 theorem over the complete cell table regenerated from the running state machine',
         'The real StateMachine.action is executed on the real provider object (recording socket, timer, queue) for all '
         '13 x 19 cells, both roles and two distinct primitives per event (988 cells); the observations are emitted as '
         'Lean data and the kernel re-proves that every cell yields exactly the effects (PDU on the wire, indication, '
         'close/connect, ARTIM) and next state of PS3.8 Table 9-10, and that every undefined cell is inert. Finite '
         'domain: a complete decision.',
         'Trusted: Lean kernel (axiom propext only); harness/extract.py observe_cell; the transcription of Table 9-10 '
         'and Tables 9-6..9-9 in Dicom/Spec/Table910.lean.'),
 'C03': ('DESIGN.md §6 C03',
         'Lean 4 theorem on the framing model + differential runs of the real provider loop over exhaustive cuts',
         'segmentation_independent / frames_concat are proved for every stream and every partition on the model of '
         '_process_incoming and the receive buffer; the model is tied to the real buffer code by comparing recognised '
         'PDUs and residue, and the provider-level statement (indications, PDUs sent, final state) is checked on the '
         'real loop for every single cut and pairs of cuts of a corpus of conversations, dribble, coalescing, burst '
         'and pre-queued delivery. The provider-level statement is proved for the loop model too '
         '(provider_is_function_of_stream, provider_segmentation_independent: for every calm state, every byte '
         'segmentation, every placement of idle passes, optional peer close; idle_drains shows the premise is met).',
         'Trusted: Lean kernel; S2 fakes (select/recv/clock); the reactive user of harness/scen.py. Partial: the loop '
         'theorem is about the model of run() (kind-abstract; tied to the real loop pass by pass in C05) and covers '
         'schedules in which only the network acts; with a reacting local user the real loop is compared over the '
         'corpus and the cut classes named.'),
 'C06': ('DESIGN.md §6 C06',
         'Lean 4 theorems on the fragmentation model + correspondence with the real encoder on a boundary grid',
         'frag_size, frag_shape, frag_content, file_eq_bytes hold for every command set, data set, context and usable '
         'maximum length; the model is diffed against Association.send/DIMSEMessage.encode fragment by fragment and '
         'an independent P-DATA reader judges the seven statements on the real PDUs over every fragment size 1..40 x '
         'every length 1..4k+2, every maximum 7..300, 2^e boundaries to 2^32-1, 0, all 23 classes, bytes and files.',
         'Trusted: Lean kernel; harness oracle/parser; pydicom command-set encoding is an input to the model.'),
 'C07': ('DESIGN.md §6 C07',
         'Lean 4 theorem (any grouping) + correspondence with the real decoder over all compositions',
         'reassembly_exact / not_earlier: for every message, maximum length and EVERY grouping of the fragments into '
         'non-empty PDUs the decoder model ends with exactly the transmitted bytes and completes exactly at the last '
         'PDU; the real DIMSEDecoder is run on all 2^(n-1) compositions of real fragment lists (n<=8 quick), in '
         'memory and file-backed, and diffed with the model; the dispatch table is regenerated and proved exact.',
         'Trusted: Lean kernel; harness oracle; pydicom for command-set decode and file readability (parameters).'),
 'C08': ('DESIGN.md §6 C08',
         'Lean 4 theorems on the command-set model (any insertion order, any op history) + strict-reader oracle',
         'group_length_exact, ascending_tags, strict_reader_reads, dataset_flag_iff and resend_group_length are proved '
         'for every command set with one element per tag and every history of field changes, data-set changes and sends; '
         'the message-class table is regenerated and proved equal to the PS3.7 command fields; real message objects are '
         'driven through the same histories via the real Association.send, every transmitted command set is read by '
         'the strict Lean reader and compared byte for byte with the model.',
         'Trusted: Lean kernel; pydicom value encoding and ascending-tag writing (inputs, diffed on every case); the '
         'strict reader in Dicom/Spec/CmdSetGrammar.lean.'),
 'C10': ('DESIGN.md §6 C10',
         'Lean 4 theorems on the limit functions composed with the fragmentation theorems + negotiation harness',
         'acceptor/requester_never_exceeds_peer, zero_is_unlimited, can_always_send, announces_within_own and '
         'both_directions hold for every pair of usable values (0 or >= 7) and every message; the limit functions are '
         'diffed against the real accept()/_request() on wire-decoded PDUs over the boundary grid squared, both roles, '
         'and the real Association.send is checked against the announced values for messages below, at and above the '
         'fragment size, as bytes and as files.',
         'Trusted: Lean kernel; harness stubs for the provider queue. Maximum lengths 1..6 are outside the property.'),
 'C01': ('DESIGN.md §6 C01',
         'Lean 4 round-trip theorem on the codec model + correspondence with pdu.py / userdataitems.py',
         'decode_encode: for every well-formed PDU value (all 7 types, any item list, any list and order of sub-items, any '
         'payload) decodePdu (Pdu.enc p) = p; reencode; subitems_any_order. The model mirrors the Python decoders statement '
         'by statement (short reads, look-ahead, ignored lengths, read(-1)) and is diffed against the real code: same '
         'canonical value, same re-encoding, same total length on the systematic generator (all 9x9 sub-item adjacencies, '
         'titles 0..16, payloads to 70 kB) and same ok/error classification and value on mutated encodings.',
         'Trusted: Lean kernel; the canonical forms of harness/pdugen.py. Text is modelled as bytes: WF asks for ASCII, where '
         'Python len(str) and the encoded length coincide.'),
 'C02': ('DESIGN.md §6 C02',
         'Lean 4 theorem: a strict length-driven PS3.8 reader reads the model encoder; layouts regenerated; reference encoder',
         'spec_reads_impl: the strict reader written from PS3.8 9.3 / PS3.7 D.3.3 (every length field delimits a slice that '
         'must be consumed exactly) recovers exactly the encoded values from Pdu.enc p for every WF2 value; length_reported; '
         'struct formats and type codes are introspected and proved equal to the standard\'s. The strict reader is run as '
         'oracle on the library\'s real bytes, and conformant encodings from an independent reference encoder (shapes the '
         'library never emits) are decoded by the library.',
         'Converse proved too (conformant_decodes): every byte string the strict reader accepts with conformant text is an '
         'encoding (strict_reader_accepts_only_encodings) and the model decoder returns exactly the values the strict reader '
         'yields. Trusted: the transcription in Dicom/Spec/PduGrammar.lean; the tie of the model decoder to decode() is '
         'C01\'s correspondence.'),
 'C05': ('DESIGN.md §6 C05',
         'Lean 4 invariants of the loop model for every schedule + pass-by-pass correspondence of the real loop with the model',
         'The loop model (reader, buffer, event queue, Table 9-10 as in C04, ARTIM clock, fragment generator, transport '
         'failures) satisfies for EVERY tick list, both roles: ARTIM runs exactly in Sta2/Sta13, idle iff transport closed, '
         'P-DATA sent/indicated only in Sta6/8 resp. Sta6/7, silence after the end; provider_follows_machine: over every '
         'history without write failures, rejected P-DATA or illegal user primitives the ordered effects and the final '
         'state of a whole run are those of the PS3.8 machine (Table 9-10 + action definitions) folded over the events '
         'dispatched. The real provider loop is executed (S2) on all histories to depth 2 '
         'after 18 state-reaching prefixes, depth 3 from both starts and random walks of length 200, and compared pass by '
         'pass (state, socket, timer, ordered effects) with the model; the invariants are also judged on the real trace.',
         'Partial: "the real loop equals the model on every history" is established by exhaustive bounded and random '
         'exploration, not proved; payloads are abstracted to kinds (C03 justifies the buffer abstraction).'),
 'C12': ('DESIGN.md §6 C12',
         'Lean 4 theorems (total decoders, no undefined transition on peer-only schedules) + fuzzing of the real loop',
         'peer_cannot_crash_acceptor/requester: for every peer-only schedule (any PDUs valid or not, any order and '
         'segmentation, closes, silence, ARTIM expiry, write failures) the loop model never reaches an undefined cell; '
         'bad_pdu_aborts; decoders are total functions. The real loop is fuzzed in the six states of the property with '
         'structure-aware mutations and DIMSE-level corruption followed by the peer closing; every run is judged: no '
         'blocking, no death, well-formed output (strict Lean reader), A-ABORT for undecodable PDUs, idle and closed.',
         'Partial: that the Python decoders raise only where the model decoder rejects, and never block, is sampled '
         '(C01 malformed-input correspondence + this fuzzing), not proved.'),
 'C13': ('DESIGN.md §6 C13',
         'Lean 4 liveness theorems over every schedule + invariants for every reachable state + fault enumeration on the real loop',
         'closes_after_eof / closes_by_artim: from every quiescent state of the loop model the pass that sees the peer\'s '
         'close, resp. the first quiet pass after ARTIM ran out in Sta2/Sta13, ends idle with the transport closed and the '
         'user told; peer_close_always_ends / silence_always_ends lift them to every network-only schedule that delivers '
         'the close (any traffic, segmentation, timing before it) and to every spreading of the ARTIM period over silent '
         'passes. On the real loop every '
         'conversation of a 17-scenario corpus is run with the peer disconnecting after every byte prefix, going silent '
         'at every ARTIM point, a write failing in every turn, a connection reset, and disconnecting between outgoing fragments.',
         'Partial: sendall()/connect() are assumed to return or raise in bounded time (OS); a kill() forced on a '
         'non-idle provider leaves the socket to the garbage collector (outside the property\'s list of endings).'),
 'C09': ('DESIGN.md §6 C09',
         'Lean 4 theorems on the acceptance function for all requests and configurations + exhaustive small-universe harness',
         'answers_each_once_in_order, accepted_iff, ts_is_proposed_and_supported, served_eq_reported hold for every request '
         'and every configuration (unbounded). The real AssociationAcceptor (real __init__, stub provider) is run on '
         'wire-decoded requests over all requests with up to 2 contexts x ordered lists of 1..3 of 4 transfer syntaxes x '
         'configurations, plus seeded larger ones; the reply is re-read from the wire, the served table and the real message '
         'loop dispatch are judged against what was reported, and the model is diffed.',
         'Trusted: Lean kernel; harness stubs for the provider thread and socketserver plumbing. Rejections use result 1 '
         'rather than 3/4: the property only requires "not accepted".'),
 'C11': ('DESIGN.md §6 C11',
         'Lean 4 theorems on id allocation and reply processing + harness on the real requester, strict reader on the request',
         'ids_are_odd_sequence (k-th configured class gets id 2k+1, for every call sequence), ids_in_byte_range (<= 128 '
         'classes), ids_overflow (the known finding, proved), proposes_each_entry, usable_eq_accepted, get_scu_iff. The real '
         'AssociationRequester builds requests for configurations with totals around 127/128/129; the request is read by the '
         'strict Lean reader; every accept/reject pattern over result codes 0..4 for up to 4 contexts is replied; usable '
         'contexts and get_scu are judged and diffed with the model.',
         'Known finding D18 (open): more than 128 configured SOP classes give context id 257. Replies that answer a context '
         'that was never proposed raise KeyError (outside the property). get_scu concerns classes configured as SCU.'),
 'C16': ('DESIGN.md §6 C16',
         'Lean 4 theorem on the C-FIND provider/user pair for every match list + wire-level harness with deferred consumption',
         'find_exact: for every list of matches with pending statuses the user yields exactly those (data set, status) '
         'pairs in order, then one final non-pending response, and stops (stops_at_final). The real qr_find_scp / '
         'modality_work_list_scp are run against the real qr_find_scu / modality_work_list_scu through their wire forms, with '
         'the sent fragments consumed only after the provider finished (a slow provider thread), lengths 0..30, both pending '
         'codes in every mix, three transfer syntaxes, maximum lengths forcing multi-fragment responses.',
         'Trusted: Lean kernel; harness mock association; pydicom. The c_find wrapper\'s association handling is exercised '
         'on real threads in C14/C20; here its loop (qr_find_scu) is.'),
 'C17': ('DESIGN.md §6 C17',
         'Lean 4 theorems on the provider models + harness re-reading every response from its wire form',
         'For each provider (C-ECHO, C-STORE, C-FIND, C-MOVE, N-ACTION, N-EVENT-REPORT, C-STORE-RSP of the C-GET user) the '
         'model\'s responses are on the request\'s context, carry its message id, SOP class (and instance), the matching '
         'response type and the handler\'s status or the documented failure status, and every request is answered. The '
         'real callables run on a mock association over boundary message ids, UID lengths, context ids, each status class '
         'and EventHandlingError, commitment with success/failure/mixed lists and a failing report association.',
         'Trusted: Lean kernel; the models are simple by design - the strength is in the wire-level tie.'),
 'C19': ('DESIGN.md §6 C19',
         'Lean 4 theorems on the C-MOVE provider and C-GET user models + harness over all outcome histories',
         'move_progress (k-th pending response: k performed, total-k remaining), move_one_final (also for 0), '
         'move_final_complete, move_each_once_in_order, get_answers_each_once, get_yields_in_order, get_stops_at_final, for '
         'every list. The real qr_move_scp runs with a mock sub-association over all success/warning/failure histories up to '
         'length 4 and seeded longer ones, the real qr_get_scu with pending responses interleaved at every position; '
         'responses are re-read from the wire (deferred consumption) and diffed with the models.',
         'Trusted: Lean kernel; harness mocks. An unknown destination (handler returns no remote AE) makes the provider '
         'raise after reporting nothing: outside the property except that no sub-operation is performed.'),
 'C14': ('DESIGN.md §6 C14',
         'Lean 4 fidelity theorems (via the C01 round trip) + runs of real associations on real threads with the wire teed',
         'reject_fidelity / abort_fidelity: for every (result, source, reason) resp. (source, reason) over the byte range the '
         'encoded PDU is decoded into an error carrying exactly those values; exit_releases_or_aborts. Real requester and '
         'acceptor objects with their provider threads run over a TCP connection on loopback: all standard refusal triples and seeded '
         'ones, aborts by either side at several points, a non-library peer that writes its last PDU and A-ABORT in one '
         'segment and closes, leaving request_association normally and through six kinds of error.',
         'Partial: thread schedules are whatever the OS produces on the run; liveness verdicts count only when they reproduce.'),
 'C15': ('DESIGN.md §6 C15',
         'Lean 4 composition theorem (C06+C01+C03+C07) and directory-model theorems + real storage function and real threads',
         'store_end_to_end: a message fragmented with any usable limit, each fragment encoded as a P-DATA-TF PDU, the byte '
         'stream cut into TCP segments in ANY way, is framed into exactly those PDUs, each decodes to its fragment, and the '
         'decoder reassembles exactly the command set and data set sent. storage_never_clobbers: over the finite-map model of '
         '_get_storage_file every history of stores only adds one new file per store (freshName_new by a pigeonhole argument). '
         'The real _get_storage_file runs on a real directory over histories with repeated instances; real storage_scu -> '
         'storage_scp run over a socket pair with real threads across syntaxes, asymmetric limits, memory/file sources, '
         'temp/directory reception and handler outcomes, the received bytes re-read with pydicom.',
         'Partial: the end-to-end theorem is about the composed models; real TCP and thread scheduling are sampled.'),
 'C20': ('DESIGN.md §6 C20',
         'Lean 4 non-interference theorem for the product of loop models + threaded soak on loopback TCP',
         'noninterference / failure_is_local: in a world of associations where each scheduler step advances one of them, the '
         'state of association i after ANY interleaving is what it reaches alone with its own ticks; msg_ids_unique for the '
         'thread-local counter. That the code is such a product (no mutable state shared between associations) is tested: '
         'one real AE on loopback TCP serves 4, 16 and 32 concurrent clients with their own data, limits, transfer syntaxes '
         'and operation mixes, some aborting; each client checks its own answers and the syntax the server used for it.',
         'Partial: the quantifier over OS thread schedules is sampled (repeated rounds and seeds), not proved or enumerated; '
         'the deterministic transport with interleaved stepping of several real providers is enumerated by seed, each provider '
         'compared with its solo run (the statement the Lean theorem makes about the models).'),
}

PENDING_REASON = 'check not built yet in this round; planned in DESIGN.md §6 (Lean model + theorem + tie)'


def main():
    props = [json.loads(l)['id'] for l in open(os.path.join(HERE, 'properties.jsonl')) if l.strip()]
    checks = []
    for p in props:
        if p not in CLAIMED:
            continue
        ref, tech, text, note = CLAIMED[p]
        checks.append({
            'property_id': p,
            'quick_cmd': './check %s --tier quick' % p,
            'thorough_cmd': './check %s --tier thorough' % p,
            'evidence_file': 'evidence/%s.json' % p,
            'replay_cmd_template': './check %s --replay {path}' % p,
            'engine': 'lean4-dicom',
            'level_claimed': {'category': 'proof', 'text': text, 'design_ref': ref},
            'level_note': note,
            'technique': tech,
        })
    man = {
        'version': 1,
        'setup_cmd': './setup.sh',
        'hooks': {
            'guard': 'PYNETDICOM2_VERIF',
            'enable': 'no hooks in /repo: the harness subclasses the provider and patches module attributes at run time',
            'baseline_off_cmd': BASELINE,
            'source_commits': [],
            'add_only': True,
        },
        'engines': [{'name': 'lean4-dicom', 'path': 'lean',
                     'serves_properties': sorted(CLAIMED),
                     'kind_free_text': 'Lean 4 models, specifications and property theorems (lake project Dicom) '
                                       'tied to /repo by regenerated tables and by a differential correspondence '
                                       'harness (harness/*.py) through a compiled line-protocol driver'}],
        'checks': checks,
        'notes': 'Genuine defects D1-D17 were repaired in /repo as separate fix: commits (known_findings.json); '
                 'D18 is an open known finding of C11.',
        'not_applicable': [{'property_id': p, 'reason': PENDING_REASON} for p in props if p not in CLAIMED],
    }
    with open(os.path.join(HERE, 'MANIFEST.json'), 'w') as f:
        json.dump(man, f, indent=1)
    print('MANIFEST.json: %d claimed, %d not claimed' % (len(checks), len(man['not_applicable'])))


if __name__ == '__main__':
    main()
