"""DIMSE message construction helpers shared by the C06/C07/C08/C17 harnesses."""
import types
import warnings

warnings.simplefilter('ignore')

from pynetdicom2 import dimsemessages as dm, dsutils, asceprovider as ap  # noqa: E402


def classes():
    """the message classes the library defines (independently of its MESSAGE_TYPE dispatch table)"""
    cs = [c for c in vars(dm).values() if isinstance(c, type) and issubclass(c, dm.DIMSEMessage)
          and getattr(c, 'command_field', None) is not None]
    return sorted(set(cs), key=lambda c: (c.command_field, c.__name__))


def uid_of_len(n, rnd):
    """a syntactically valid UID of exactly n characters (1..64)"""
    if n <= 0:
        return ''
    s = '1'
    while len(s) < n:
        if len(s) + 1 == n or rnd.random() < 0.7 or s[-1] == '.':
            s += rnd.choice('0123456789' if s[-1] != '.' else '123456789')
        else:
            s += '.'
    if s.endswith('.'):
        s = s[:-1] + '7'
    return s[:n]


def fill(msg, rnd, uid_len=None, ids=None):
    """give every field of the message's command set a value of its VR"""
    for elem in msg.command_set:
        tag = (elem.tag.group, elem.tag.element)
        if tag in ((0, 0), (0, 0x100), (0, 0x800)):
            continue
        vr = elem.VR
        if vr == 'UI':
            elem.value = uid_of_len(uid_len if uid_len is not None else rnd.choice([1, 2, 17, 18, 63, 64]), rnd)
        elif vr == 'US':
            elem.value = ids if ids is not None else rnd.choice([0, 1, 255, 256, 65535, rnd.randrange(65536)])
        elif vr == 'AE':
            elem.value = rnd.choice(['A', 'AET', 'SIXTEENCHARSLONG', 'ODD'])
        elif vr == 'AT':
            elem.value = [0x00100010, 0x00100020][:rnd.randrange(1, 3)]
        elif vr == 'UL':
            elem.value = rnd.randrange(2 ** 32)
        else:
            elem.value = 'X'
    return msg


class StubDul(object):
    def __init__(self, max_pdu_length=0):
        self.sent = []
        self.accepted_contexts = None
        # the provider keeps the LOCAL receive limit; the association holds the limit in force after negotiation
        self.max_pdu_length = max_pdu_length

    def send(self, x):
        self.sent.append(x)


def stub_association(max_pdu_length):
    a = ap.Association.__new__(ap.Association)
    a.max_pdu_length = max_pdu_length
    a.dul = StubDul(2 * max_pdu_length + 11 if max_pdu_length else 0)     # as after negotiating down to the peer's limit
    # the entity's configured limit is yet another number: only the negotiated one may govern what is sent
    a.ae = types.SimpleNamespace(timeout=1, max_pdu_length=3 * max_pdu_length + 5 if max_pdu_length else 0, local_ae={'aet': 'LOCALAET'})
    a.accepted_contexts = {}
    a.association_established = True
    return a


def send_via_association(msg, pc, max_pdu_length, after=None):
    """the real Association.send; returns the list of P-DATA-TF PDU objects handed to the provider.  `after(msg)` runs
    between send() returning and the provider consuming what was queued - where a provider thread would be slow and
    the application already re-uses the message object"""
    a = stub_association(max_pdu_length)
    a.send(msg, pc)
    if len(a.dul.sent) != 1:
        from . import common
        raise common.LibError('lib: Association.send() handed %d things to the provider, not one message' % len(a.dul.sent))
    if after is not None:
        after(msg)
    return list(a.dul.sent[0])


def parse_pdata(raw):
    """independent reader of one P-DATA-TF PDU: returns [(ctx, mch, body)] or raises ValueError"""
    if len(raw) < 6 or raw[0] != 4:
        raise ValueError('not a P-DATA-TF')
    ln = int.from_bytes(raw[2:6], 'big')
    if ln != len(raw) - 6:
        raise ValueError('length field %d but %d bytes follow' % (ln, len(raw) - 6))
    pos, out = 6, []
    while pos < len(raw):
        if pos + 4 > len(raw):
            raise ValueError('truncated PDV header')
        il = int.from_bytes(raw[pos:pos + 4], 'big')
        if il < 2 or pos + 4 + il > len(raw):
            raise ValueError('PDV item length %d does not fit' % il)
        out.append((raw[pos + 4], raw[pos + 5], raw[pos + 6:pos + 4 + il]))
        pos += 4 + il
    return out


def encoded_command_set(msg):
    return dsutils.encode(msg.command_set, True, True)


class _NoThreadDul(StubDul):
    """stands in for DULServiceProvider while the real association constructors run"""
    def __init__(self, store_in_file=None, get_file_cb=None, dul_socket=None, max_pdu_length=65536):
        StubDul.__init__(self)
        self.max_pdu_length = max_pdu_length
        self.dul_socket = dul_socket
        self.store_in_file = store_in_file

    def stop(self):
        return True

    def kill(self):
        pass


def real_acceptor(ae, max_pdu_length=16384):
    """an AssociationAcceptor built by its real __init__ (attribute initialisation is the code's own);
    only the provider thread and the socketserver plumbing are stubbed out"""
    from six.moves import socketserver
    saved = (ap.dulprovider.DULServiceProvider, socketserver.StreamRequestHandler.__init__)
    ap.dulprovider.DULServiceProvider = _NoThreadDul
    socketserver.StreamRequestHandler.__init__ = lambda self, *a, **k: None
    try:
        return ap.AssociationAcceptor(None, ('peer', 0), ae, max_pdu_length)
    finally:
        ap.dulprovider.DULServiceProvider, socketserver.StreamRequestHandler.__init__ = saved


def real_requester(ae, remote_ae, max_pdu_length=None):
    """an AssociationRequester built by its real __init__, provider thread stubbed out"""
    saved = ap.dulprovider.DULServiceProvider
    ap.dulprovider.DULServiceProvider = _NoThreadDul
    try:
        return ap.AssociationRequester(ae, ae.max_pdu_length if max_pdu_length is None else max_pdu_length, remote_ae)
    finally:
        ap.dulprovider.DULServiceProvider = saved
