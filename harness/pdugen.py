"""PDU value generators, canonical text of the Python objects, structure-aware mutation."""
import warnings

warnings.simplefilter('ignore')

from pynetdicom2 import pdu, userdataitems as ud  # noqa: E402

from . import msgs  # noqa: E402



def _record_constructor_arguments():
    """every public PDU / item / sub-item class notes the arguments it was built with (`_verif_args`), so that a round
    trip can be judged against the values the caller *gave*, not only against what the constructor kept"""
    import inspect
    for mod in (pdu, ud):
        for name, cls in list(vars(mod).items()):
            if not inspect.isclass(cls) or cls.__module__ != mod.__name__ or '__init__' not in vars(cls):
                continue
            orig = cls.__init__
            if getattr(orig, '_verif_wrapped', False):
                continue

            def wrapped(self, *a, __orig=orig, **k):
                __orig(self, *a, **k)
                try:
                    b = inspect.signature(__orig).bind(self, *a, **k)
                    b.apply_defaults()
                    self._verif_args = {n: v for n, v in list(b.arguments.items())[1:]}
                except TypeError:
                    pass
            wrapped._verif_wrapped = True
            wrapped.__doc__ = orig.__doc__
            cls.__init__ = wrapped


_record_constructor_arguments()


def _plain(v):
    if isinstance(v, bytes):
        try:
            v = v.decode('utf-8')
        except UnicodeDecodeError:
            return v
    if isinstance(v, str):
        return v.strip(' \0')
    return v


def intent_mismatch(p, d, path=''):
    """compare the scalar values `p` (and everything nested in it) was built with against the attributes of the same
    name of `d` (the decoded counterpart); returns a description of the first difference, or None"""
    args = getattr(p, '_verif_args', None) or {}
    if type(p) is not type(d):
        return '%s%s was built; after encode/decode a %s stands in its place' % (path, type(p).__name__, type(d).__name__)
    for n, v in args.items():
        if isinstance(v, bool) or not isinstance(v, (int, str, bytes)) or not hasattr(d, n):
            continue
        got = getattr(d, n)
        if isinstance(got, (list, tuple, dict)) or callable(got):
            continue
        if _plain(got) != _plain(v) and str(_plain(got)) != str(_plain(v)):
            return '%s%s.%s was built with %r; after encode/decode it is %r' % (path, type(p).__name__, n, v, got)
    for attr in ('variable_items', 'user_data', 'ts_sub_items', 'data_value_items', 'abs_sub_item', 'ts_sub_item'):
        a, b = getattr(p, attr, None), getattr(d, attr, None)
        given = args.get(attr)
        if isinstance(given, (list, tuple)) and isinstance(b, (list, tuple)):
            # the list the caller gave, in the caller's order, is the reference - not what the constructor made of it
            if len(given) != len(b):
                return '%s%s.%s was built with %d entries; after encode/decode it has %d' % (path, type(p).__name__, attr, len(given), len(b))
            a = given
        if isinstance(a, (list, tuple)) and isinstance(b, (list, tuple)):
            for i, (x, y) in enumerate(zip(a, b)):
                r = intent_mismatch(x, y, '%s%s[%d].' % (path, attr, i))
                if r:
                    return r
        elif a is not None and b is not None and not isinstance(a, (bytes, str, int)):
            r = intent_mismatch(a, b, '%s%s.' % (path, attr))
            if r:
                return r
    return None


SUB_KINDS = ['maxLen', 'implClass', 'asyncOps', 'role', 'implVersion', 'extNeg', 'userId', 'userIdAc', 'generic']


def hx(b):
    if isinstance(b, str):
        b = b.encode()
    return b.hex() if b else '-'


def canon_sub(s):
    t = type(s).__name__
    if t == 'MaximumLengthSubItem':
        return 'maxLen(%d,%d,%d)' % (s.reserved, s.item_length, s.maximum_length_received)
    if t == 'ImplementationClassUIDSubItem':
        return 'implClass(%d,%s)' % (s.reserved, hx(s.implementation_class_uid))
    if t == 'AsynchronousOperationsWindowSubItem':
        return 'asyncOps(%d,%d,%d,%d)' % (s.reserved, s.item_length, s.max_num_ops_invoked, s.max_num_ops_performed)
    if t == 'ScpScuRoleSelectionSubItem':
        return 'role(%d,%s,%d,%d)' % (s.reserved, hx(s.sop_class_uid), s.scu_role, s.scp_role)
    if t == 'ImplementationVersionNameSubItem':
        return 'implVersion(%d,%s)' % (s.reserved, hx(s.implementation_version_name))
    if t == 'SOPClassExtendedNegotiationSubItem':
        return 'extNeg(%d,%s,%s)' % (s.reserved, hx(s.sop_class_uid), hx(s.app_info))
    if t == 'UserIdentityNegotiationSubItem':
        return 'userId(%d,%d,%d,%s,%s)' % (s.reserved, s.user_identity_type, s.positive_response_req,
                                           hx(s._primary_field), hx(s._secondary_field))
    if t == 'UserIdentityNegotiationSubItemAc':
        return 'userIdAc(%d,%s)' % (s.reserved, hx(s.server_response))
    if t == 'GenericUserDataSubItem':
        return 'generic(%d,%d,%s)' % (s.item_type, s.reserved, hx(s.user_data))
    return 'unknown-sub(%s)' % t


def canon_ts(t):
    return 'ts(%d,%s)' % (t.reserved, hx(t.name))


def canon_item(i):
    t = type(i).__name__
    if t == 'ApplicationContextItem':
        return 'appCtx(%d,%s)' % (i.reserved, hx(i.context_name))
    if t == 'PresentationContextItemRQ':
        return 'pcRq(%d,%d,%d,%d,%d,abs(%d,%s),[%s])' % (
            i.reserved1, i.context_id, i.reserved2, i.reserved3, i.reserved4, i.abs_sub_item.reserved,
            hx(i.abs_sub_item.name), ';'.join(canon_ts(x) for x in i.ts_sub_items))
    if t == 'PresentationContextItemAC':
        return 'pcAc(%d,%d,%d,%d,%d,%s)' % (i.reserved1, i.context_id, i.reserved2, i.result_reason, i.reserved3,
                                            canon_ts(i.ts_sub_item))
    if t == 'UserInformationItem':
        return 'userInfo(%d,[%s])' % (i.reserved, ';'.join(canon_sub(s) for s in i.user_data))
    return 'unknown-item(%s)' % t


def canon(p):
    t = p.pdu_type
    if t in (1, 2):
        return '%s(%d,%d,%d,%s,%s,[%s],[%s])' % (
            'rq' if t == 1 else 'ac', p.reserved1, p.protocol_version, p.reserved2, hx(p.called_ae_title),
            hx(p.calling_ae_title), ', '.join(str(x) for x in p.reserved3), ';'.join(canon_item(i) for i in p.variable_items))
    if t == 3:
        return 'rj(%d,%d,%d,%d,%d)' % (p.reserved1, p.reserved2, p.result, p.source, p.reason_diag)
    if t == 4:
        return 'pdata(%d,[%s])' % (p.reserved, ';'.join('%d:%s' % (v.context_id, hx(v.data_value)) for v in p.data_value_items))
    if t == 5:
        return 'rlrq(%d,%d)' % (p.reserved1, p.reserved2)
    if t == 6:
        return 'rlrp(%d,%d)' % (p.reserved1, p.reserved2)
    if t == 7:
        return 'abort(%d,%d,%d,%d,%d)' % (p.reserved1, p.reserved2, p.reserved3, p.source, p.reason_diag)
    return 'unknown-pdu'


# ---------------------------------------------------------------------------- generators

def ints(rnd, bits):
    mx = 2 ** bits - 1
    return rnd.choice([0, 1, mx // 2, mx, rnd.randrange(mx + 1)])


def text(rnd, n, alphabet='ABCDEFGHIJKLMNOPQRSTUVWXYZ0123456789_-.'):
    return ''.join(rnd.choice(alphabet) for _ in range(n))


def utext(rnd, n):
    """text for the fields the standard defines as UTF-8 (User Identity): mostly ASCII, sometimes 2-, 3- and 4-byte
    characters, so that character count and byte count differ"""
    if n == 0 or rnd.random() < 0.5:
        return text(rnd, n)
    return ''.join(rnd.choice('abcXYZ09 _\u00e9\u00df\u0416\u65e5\u20ac\U0001f600') for _ in range(n))


def uid(rnd, n=None):
    if n is None:
        n = rnd.choice([0, 1, 2, 17, 63, 64, rnd.randrange(1, 65)])
    return msgs.uid_of_len(n, rnd)


def title(rnd, n=None):
    if n is None:
        n = rnd.randrange(0, 17)
    if n == 0:
        return ''
    s = text(rnd, n, 'ABCDEFGHIJ KLMNOP0123456789')
    return s


def make_sub_defaults(kind, rnd):
    """the sub-item built the ordinary way: optional arguments left to their defaults"""
    if kind == 'maxLen':
        return ud.MaximumLengthSubItem(ints(rnd, 32))
    if kind == 'implClass':
        return ud.ImplementationClassUIDSubItem(uid(rnd))
    if kind == 'asyncOps':
        return ud.AsynchronousOperationsWindowSubItem(ints(rnd, 16), ints(rnd, 16))
    if kind == 'role':
        return ud.ScpScuRoleSelectionSubItem(uid(rnd), rnd.choice([0, 1, 1, 2, 0x7F, 0xFF]), rnd.choice([0, 1, 1, 3, 0x80, 0xFF]))
    if kind == 'implVersion':
        return ud.ImplementationVersionNameSubItem(text(rnd, rnd.randrange(1, 17)))
    if kind == 'extNeg':
        return ud.SOPClassExtendedNegotiationSubItem(uid(rnd), bytes(rnd.randrange(256) for _ in range(rnd.choice([0, 3, 8]))))
    if kind == 'userId':
        return ud.UserIdentityNegotiationSubItem(utext(rnd, rnd.choice([1, 9])))
    if kind == 'userIdAc':
        return ud.UserIdentityNegotiationSubItemAc(utext(rnd, rnd.choice([1, 30])))
    if kind == 'generic':
        return ud.GenericUserDataSubItem(rnd.choice([0x57, 0x5A, 0x60]), bytes(rnd.randrange(256) for _ in range(rnd.choice([0, 2, 5]))))
    raise KeyError(kind)


def make_sub(kind, rnd, strict=False):
    if rnd.random() < 0.25:
        return make_sub_defaults(kind, rnd)
    r = 0 if strict and rnd.random() < 0.5 else ints(rnd, 8)
    if kind == 'maxLen':
        if strict or rnd.random() < 0.8:
            return ud.MaximumLengthSubItem(ints(rnd, 32), r, 4)
        x = ud.MaximumLengthSubItem(ints(rnd, 32), r, ints(rnd, 16))
        x._verif_nonstd = True              # an item length the generator chose against the standard on purpose (C01 only)
        return x
    if kind == 'implClass':
        return ud.ImplementationClassUIDSubItem(uid(rnd), r)
    if kind == 'asyncOps':
        return ud.AsynchronousOperationsWindowSubItem(ints(rnd, 16), ints(rnd, 16), r, 4)
    if kind == 'role':
        return ud.ScpScuRoleSelectionSubItem(uid(rnd), rnd.choice([0, 1, 255]), rnd.choice([0, 1, 7]), r)
    if kind == 'implVersion':
        return ud.ImplementationVersionNameSubItem(text(rnd, rnd.choice([0, 1, 16, rnd.randrange(0, 17)])), r)
    if kind == 'extNeg':
        return ud.SOPClassExtendedNegotiationSubItem(uid(rnd), bytes(rnd.randrange(256) for _ in range(rnd.choice([0, 1, 2, 3, 8, 40]))), r)
    if kind == 'userId':
        return ud.UserIdentityNegotiationSubItem(utext(rnd, rnd.choice([0, 1, 9, 64])), utext(rnd, rnd.choice([0, 1, 8])),
                                                 rnd.choice([1, 2, 3, 4, 5, 255]), rnd.choice([0, 1]), r)
    if kind == 'userIdAc':
        return ud.UserIdentityNegotiationSubItemAc(utext(rnd, rnd.choice([0, 1, 30])), r)
    if kind == 'generic':
        ty = rnd.choice([t for t in (0x57, 0x5A, 0x60, 0x7F, 0xFF, 0x01, 0x10, 0x40, 0x50) ])
        return ud.GenericUserDataSubItem(ty, bytes(rnd.randrange(256) for _ in range(rnd.choice([0, 1, 2, 5, 300]))), r)
    raise KeyError(kind)


def make_pc_rq(rnd, nts=None):
    n = rnd.choice([0, 1, 2, 3, 5]) if nts is None else nts
    if rnd.random() < 0.25:                 # optional arguments left to their defaults
        return pdu.PresentationContextItemRQ(ints(rnd, 8), pdu.AbstractSyntaxSubItem(uid(rnd)),
                                             [pdu.TransferSyntaxSubItem(uid(rnd)) for _ in range(n)])
    return pdu.PresentationContextItemRQ(ints(rnd, 8), pdu.AbstractSyntaxSubItem(uid(rnd), ints(rnd, 8)),
                                         [pdu.TransferSyntaxSubItem(uid(rnd), ints(rnd, 8)) for _ in range(n)],
                                         ints(rnd, 8), ints(rnd, 8), ints(rnd, 8), ints(rnd, 8))


def make_pc_ac(rnd):
    if rnd.random() < 0.25:
        return pdu.PresentationContextItemAC(ints(rnd, 8), rnd.choice([0, 1, 2, 3, 4]), pdu.TransferSyntaxSubItem(uid(rnd)))
    return pdu.PresentationContextItemAC(ints(rnd, 8), rnd.choice([0, 1, 2, 3, 4, 255]),
                                         pdu.TransferSyntaxSubItem(uid(rnd), ints(rnd, 8)), ints(rnd, 8), ints(rnd, 8), ints(rnd, 8))


def make_assoc(cls, rnd, subs=None, items=None, called=None, calling=None):
    """an A-ASSOCIATE-RQ/AC with the given user-information sub-items (None = no user information item)"""
    its = []
    if items is None:
        if rnd.random() < 0.9:
            its.append(pdu.ApplicationContextItem(uid(rnd), ints(rnd, 8)))
        for _ in range(rnd.choice([0, 1, 2, 4])):
            its.append(make_pc_rq(rnd) if rnd.random() < 0.5 else make_pc_ac(rnd))
    else:
        its = list(items)
    if subs is not None:
        its.append(pdu.UserInformationItem(list(subs), ints(rnd, 8)))
    r3 = tuple(ints(rnd, 32) for _ in range(8)) if rnd.random() < 0.3 else None
    if rnd.random() < 0.2:                  # the PDU built the ordinary way
        return cls(title(rnd) if called is None else called, title(rnd) if calling is None else calling, its)
    return cls(title(rnd) if called is None else called, title(rnd) if calling is None else calling, its,
               ints(rnd, 16), ints(rnd, 8), ints(rnd, 16), r3)


def make_pdata(rnd, sizes):
    return pdu.PDataTfPDU([pdu.PresentationDataValueItem(ints(rnd, 8), bytes((i + n) % 256 for i in range(n))) for n in sizes],
                          ints(rnd, 8))


def systematic(rnd, tier):
    """the quantifier of C01 made systematic; yields (label, pdu object)"""
    out = []
    # all ordered adjacencies of sub-item kinds, each kind also last and alone
    for a in SUB_KINDS:
        out.append(('sub %s alone' % a, make_assoc(pdu.AAssociateRqPDU, rnd, [make_sub(a, rnd)])))
        for b in SUB_KINDS:
            out.append(('sub %s then %s' % (a, b), make_assoc(pdu.AAssociateRqPDU if (len(a) + len(b)) % 2 else pdu.AAssociateAcPDU,
                                                               rnd, [make_sub(a, rnd), make_sub(b, rnd)])))
            out.append(('sub maxLen,%s,%s,implClass' % (a, b),
                        make_assoc(pdu.AAssociateAcPDU, rnd, [make_sub('maxLen', rnd), make_sub(a, rnd), make_sub(b, rnd),
                                                               make_sub('implClass', rnd)])))
    # AE titles of every length 0..16
    for n in range(17):
        out.append(('title length %d' % n, make_assoc(pdu.AAssociateRqPDU, rnd, [make_sub('maxLen', rnd)],
                                                      called=title(rnd, n), calling=title(rnd, 16 - n))))
    # item lists of length 0..n
    out.append(('no items', make_assoc(pdu.AAssociateRqPDU, rnd, None, items=[])))
    out.append(('user info only, empty', make_assoc(pdu.AAssociateAcPDU, rnd, [], items=[])))
    for n in range(0, 8):
        out.append(('%d presentation contexts (rq)' % n, make_assoc(pdu.AAssociateRqPDU, rnd, [make_sub('maxLen', rnd)],
                    items=[pdu.ApplicationContextItem(uid(rnd))] + [make_pc_rq(rnd) for _ in range(n)])))
        out.append(('%d presentation contexts (ac)' % n, make_assoc(pdu.AAssociateAcPDU, rnd, [make_sub('maxLen', rnd)],
                    items=[pdu.ApplicationContextItem(uid(rnd))] + [make_pc_ac(rnd) for _ in range(n)])))
    for ul in (0, 1, 63, 64):
        out.append(('uid length %d' % ul, make_assoc(pdu.AAssociateRqPDU, rnd, [ud.ImplementationClassUIDSubItem(uid(rnd, ul))],
                    items=[pdu.ApplicationContextItem(uid(rnd, ul)),
                           pdu.PresentationContextItemRQ(1, pdu.AbstractSyntaxSubItem(uid(rnd, ul)), [pdu.TransferSyntaxSubItem(uid(rnd, ul))])])))
    # fixed PDUs, integer fields at boundaries
    for v in (0, 1, 127, 255):
        out.append(('rj %d' % v, pdu.AAssociateRjPDU(v, 255 - v, (v * 7) % 256, v, 255 - v)))
        out.append(('abort %d' % v, pdu.AAbortPDU(v, 255 - v, v, (v + 1) % 256, (v * 3) % 256)))
        out.append(('rlrq %d' % v, pdu.AReleaseRqPDU(v, [0, 1, 2 ** 31, 2 ** 32 - 1][v % 4])))
        out.append(('rlrp %d' % v, pdu.AReleaseRpPDU(255 - v, [0, 1, 2 ** 31, 2 ** 32 - 1][(v + 1) % 4])))
    # P-DATA: payload sizes and PDV counts
    big = [0, 1, 2, 5, 6, 255, 65535, 65536, 70000]
    for n in big:
        out.append(('pdata one pdv of %d' % n, make_pdata(rnd, [n])))
        out.append(('pdata pdvs 3,%d' % n, make_pdata(rnd, [3, n])))
        out.append(('pdata pdvs %d,3' % n, make_pdata(rnd, [n, 3])))
    out.append(('pdata no pdv', make_pdata(rnd, [])))
    for k in range(1, 6):
        out.append(('pdata %d pdvs' % k, make_pdata(rnd, [rnd.choice([0, 1, 7, 300]) for _ in range(k)])))
    # seeded random
    for i in range(400 if tier == 'quick' else 20000):
        r = rnd.random()
        if r < 0.6:
            subs = [make_sub(rnd.choice(SUB_KINDS), rnd) for _ in range(rnd.choice([0, 1, 2, 3, 5, 9]))]
            out.append(('random assoc', make_assoc(rnd.choice([pdu.AAssociateRqPDU, pdu.AAssociateAcPDU]), rnd,
                                                   subs if rnd.random() < 0.9 else None)))
        else:
            out.append(('random pdata', make_pdata(rnd, [rnd.choice([0, 1, 2, 100, 1000]) for _ in range(rnd.randrange(0, 6))])))
    return out


def reassigned(rnd, tier):
    """second use of an object: an item built with one set of values, then given another through its public
    attributes, must encode as a fresh item built from the second set.  Yields (label, touched object, fresh object).
    UserIdentityNegotiationSubItem is left out: it keeps its text as encoded bytes behind read-only properties."""
    out = []
    for kind in SUB_KINDS:
        if kind == 'userId':
            continue
        for _ in range(3 if tier == 'quick' else 40):
            a, b = make_sub(kind, rnd), make_sub(kind, rnd)
            for k, v in vars(b).items():
                if not k.startswith('_'):
                    setattr(a, k, v)
            out.append(('reassigned %s' % kind, a, b))
    for mk in (lambda: pdu.ApplicationContextItem(uid(rnd), ints(rnd, 8)), lambda: pdu.AbstractSyntaxSubItem(uid(rnd), ints(rnd, 8)),
               lambda: pdu.TransferSyntaxSubItem(uid(rnd), ints(rnd, 8)), lambda: make_pc_rq(rnd), lambda: make_pc_ac(rnd),
               lambda: pdu.PresentationDataValueItem(ints(rnd, 8), bytes(rnd.randrange(256) for _ in range(rnd.choice([0, 1, 9])))),
               lambda: pdu.AAssociateRjPDU(ints(rnd, 8), ints(rnd, 8), ints(rnd, 8)), lambda: pdu.AAbortPDU(ints(rnd, 8), ints(rnd, 8)),
               lambda: make_assoc(pdu.AAssociateRqPDU, rnd, [make_sub('maxLen', rnd)]), lambda: make_pdata(rnd, [3, 0, 7])):
        for _ in range(2 if tier == 'quick' else 30):
            a, b = mk(), mk()
            for k, v in vars(b).items():
                if not k.startswith('_'):
                    setattr(a, k, v)
            out.append(('reassigned %s' % type(a).__name__, a, b))
    return out


def mutate(raw, rnd):
    """structure-aware corruption of an encoded PDU; returns bytes"""
    b = bytearray(raw)
    k = rnd.randrange(12)
    if k == 0 and len(b) > 1:                       # truncate, length field left alone
        return bytes(b[:rnd.randrange(1, len(b))])
    if k == 1 and len(b) > 7:                       # truncate with fixed-up length
        n = rnd.randrange(6, len(b))
        b = b[:n]
        b[2:6] = (n - 6).to_bytes(4, 'big')
        return bytes(b)
    if k == 2 and len(b) >= 6:                      # PDU length field values
        b[2:6] = rnd.choice([0, 1, len(b), 2 ** 32 - 1, max(0, len(b) - 7)]).to_bytes(4, 'big')
        return bytes(b)
    if k == 3 and len(b) > 80:                      # corrupt an item / sub-item length
        i = rnd.randrange(74, len(b) - 3)
        b[i:i + 2] = rnd.choice([0, 1, 0xFFFF, rnd.randrange(65536)]).to_bytes(2, 'big')
        return bytes(b)
    if k == 4 and len(b) > 75:                      # unknown / zero type byte
        i = rnd.randrange(74, len(b))
        b[i] = rnd.choice([0, 0x11, 0x22, 0x41, 0x57, 0xFF])
        return bytes(b)
    if k == 5:                                      # bit flip
        i = rnd.randrange(len(b))
        b[i] ^= 1 << rnd.randrange(8)
        return bytes(b)
    if k == 6 and len(b) > 30:                      # non-ASCII / invalid UTF-8 in a text region
        i = rnd.randrange(10, len(b))
        b[i] = rnd.choice([0x80, 0xC0, 0xE9, 0xFF, 0xF5])
        return bytes(b)
    if k == 7:                                      # first byte
        b[0] = rnd.choice([0, 8, 9, 0x10, 0xFF, rnd.randrange(256)])
        return bytes(b)
    if k == 8:                                      # append garbage
        return bytes(b) + bytes(rnd.randrange(256) for _ in range(rnd.randrange(1, 9)))
    if k == 9 and len(b) > 12 and b[0] == 4:        # PDV length 0 / 1 / oversize
        b[6:10] = rnd.choice([0, 1, 2 ** 32 - 1, len(b)]).to_bytes(4, 'big')
        return bytes(b)
    if k == 10:
        return bytes(rnd.randrange(256) for _ in range(rnd.choice([0, 1, 5, 6, 10, 80])))
    i = rnd.randrange(len(b))
    b[i] = rnd.randrange(256)
    return bytes(b)
