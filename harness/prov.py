"""Abstract ticks (the alphabet of the Lean provider model) executed on the real provider loop (S2),
with the observable effects of every pass canonicalised to the model's `Out` vocabulary."""
import warnings

warnings.simplefilter('ignore')

from pynetdicom2 import pdu  # noqa: E402

from . import s2, scen  # noqa: E402

PEER_ABORT = pdu.AAbortPDU(2, 6)          # distinguishable from the aborts the provider builds (reason 0)
KIND = {1: 'rq', 2: 'ac', 3: 'rj', 4: 'pdata', 5: 'rlrq', 6: 'rlrp', 7: 'abort'}
ARTIM = 10


def _store_parts():
    """fragments of a C-STORE-RQ: command in two fragments (1, 3), data in fragments (0..., 2)"""
    m = scen.store_rq(9, 120)
    raws = scen.wire(m, 3, 0)
    items = [pdu.PDataTfPDU.decode(r).data_value_items[0] for r in raws]
    whole_cmd = b''.join(i.data_value[1:] for i in items if i.data_value[0] in (1, 3))
    whole_data = b''.join(i.data_value[1:] for i in items if i.data_value[0] in (0, 2))
    # cut by hand (the tokens must not depend on the encoder's choice of fragment size)

    def cut(blob, more, last, n):
        parts = [blob[i:i + n] for i in range(0, len(blob), n)]
        return [pdu.PresentationDataValueItem(3, bytes([more if k < len(parts) - 1 else last]) + x) for k, x in enumerate(parts)]
    cmd, data = cut(whole_cmd, 1, 3, 59), cut(whole_data, 0, 2, 59)
    assert len(cmd) >= 2 and len(data) >= 2
    return cmd, data


class Concrete(object):
    """turns model tokens into bytes, tracking what the real DIMSE decoder has seen"""

    def __init__(self, provider):
        self.p = provider
        self.cmd, self.data = _store_parts()
        self.k = 0
        self.ph = 0          # what the decoder has been given so far: 0 nothing pending, 1 part of a command set, 2 command set complete

    def phase(self):
        d = self.p.state_machine.dimse_decoder
        if d is None:
            return 0
        return 2 if d.command_set_received else 1

    def segment(self, toks):
        """the bytes of one delivered segment, decided when the provider reads it.  The P-DATA tokens are made to mean to
        the DIMSE decoder what the model says (`pdataMore` leaves its message incomplete, `pdataDone` completes it) given
        what has been DELIVERED to the decoder so far - tracked here, not read from the implementation, so that an
        implementation that forgets or keeps decoder state at the wrong moment is found out.  A P-DATA token counts as
        delivered to the decoder when the provider is in Sta6/Sta7 as it reads the segment and only P-DATA tokens precede it
        in the segment (any other PDU there takes the association out of data transfer)."""
        reach = self.p.state in (6, 7)
        out = b''
        for tok in toks:
            if tok not in ('pdataMore', 'pdataDone', 'pdataErr'):
                reach = False
                out += self.rx(tok, False, 0)
                continue
            out += self.rx(tok, reach, self.ph if reach else 0)
            if reach:
                if tok == 'pdataMore':
                    self.ph = {0: 1, 1: 2, 2: 2}[self.ph]
                else:
                    self.ph = 0
                    if tok == 'pdataErr':
                        reach = False       # the provider aborts: nothing behind it reaches the decoder
        return out

    def rx(self, tok, will_reach_decoder, ph=None):
        P = pdu.PresentationDataValueItem
        if tok == 'rq':
            return scen.rq_pdu().encode()
        if tok == 'ac':
            return scen.ac_pdu().encode()
        if tok == 'rj':
            return pdu.AAssociateRjPDU(1, 1, 2).encode()
        if tok == 'rlrq':
            return pdu.AReleaseRqPDU().encode()
        if tok == 'rlrp':
            return pdu.AReleaseRpPDU().encode()
        if tok == 'abort':
            return PEER_ABORT.encode()
        if tok == 'invalid':
            self.k += 1
            if self.k % 2:
                return b'\x09\x00\x00\x00\x00\x04\xde\xad\xbe\xef'
            raw = scen.rq_pdu().encode()[:40]
            return raw[:2] + (len(raw) - 6).to_bytes(4, 'big') + raw[6:]
        if tok == 'pdataErr':
            self.k += 1
            bad = [P(3, b''), P(3, b'\x07abc'), P(3, b'\x03\x01\x02\x03')][self.k % 3]      # empty PDV / bad header / bad command set
            return pdu.PDataTfPDU([bad]).encode()
        if ph is None:
            ph = self.phase() if will_reach_decoder else 0
        if tok == 'pdataDone':
            if ph == 0:
                return scen.wire(scen.echo_rq(4), 1, 16384)[0]
            if ph == 1:
                mid = [P(3, b'\x01' + i.data_value[1:]) for i in self.cmd[1:-1]]
                last_data = b''.join(i.data_value[1:] for i in self.data)
                return pdu.PDataTfPDU(mid + [self.cmd[-1], P(3, b'\x02' + last_data)]).encode()
            return pdu.PDataTfPDU([P(3, b'\x02' + b''.join(i.data_value[1:] for i in self.data))]).encode()
        if tok == 'pdataMore':
            if ph == 0:
                return pdu.PDataTfPDU([self.cmd[0]]).encode()
            if ph == 1:
                rest = b''.join(i.data_value[1:] for i in self.cmd[1:])
                return pdu.PDataTfPDU([P(3, b'\x03' + rest)]).encode()
            return pdu.PDataTfPDU([P(3, b'\x00' + self.data[0].data_value[1:])]).encode()
        raise KeyError(tok)


def tx(tok):
    if tok == 'rq':
        return scen.rq_pdu()
    if tok == 'ac':
        return scen.ac_pdu()
    if tok == 'rj':
        return pdu.AAssociateRjPDU(1, 1, 1)
    if tok == 'rlrq':
        return pdu.AReleaseRqPDU()
    if tok == 'rlrp':
        return pdu.AReleaseRpPDU()
    if tok == 'abort':
        return pdu.AAbortPDU(0, 0)
    if tok.startswith('msg*'):
        n = int(tok[4:]) + 1
        one = pdu.PDataTfPDU([pdu.PresentationDataValueItem(1, b'\x03\x00\x00')])

        def gen():
            for _ in range(n):
                yield one
        return gen()
    raise KeyError(tok)


def parse_tick(t):
    d = {'n': 'idle', 'u': '', 't': '0', 'f': '0'}
    for kv in t.split(','):
        k, v = kv.split('=')
        d[k] = v
    return d


def canon_out(entry):
    k = entry[0]
    if k == 'send':
        b = entry[1]
        kind = KIND.get(b[0], 'unknown%d' % b[0])
        if kind == 'abort':
            return 'sendAbort.%d' % b[8]
        return 'send.' + kind
    if k == 'ind':
        x = entry[1]
        if isinstance(x, tuple):
            return 'indDimse'
        t = getattr(x, 'pdu_type', None)
        if t == 7:
            if (x.source, x.reason_diag) == (PEER_ABORT.source, PEER_ABORT.reason_diag):
                return 'ind.abort'
            return 'indAbort.%d' % x.source
        return 'ind.' + KIND.get(t, 'unknown')
    if k == 't':
        return entry[1]
    return k            # close / connect


def channels(line):
    """one pass as model and implementation print it, with the effects grouped by who can observe them: the order of a
    PDU and a close on the wire matters, the order of indications to the user matters, the order of timer operations
    matters - the interleaving of, say, an indication and the close of the socket within one action is seen by nobody"""
    head, _, outs = line.strip().partition(' out=')
    ev = [o for o in outs.split(',') if o]

    def chan(o):
        if o.startswith('send') or o in ('close', 'connect'):
            return 0
        if o.startswith('ind'):
            return 1
        if o.startswith('t'):
            return 2
        return 3
    return '%s out=%s' % (head, ','.join(sorted(ev, key=chan)))


def run_ticks(role, ticks, artim=ARTIM):
    """execute abstract ticks on the real provider; returns list of per-pass canonical lines + raw info"""
    s2.install()
    s2.Clock.now = 1000.0
    del s2.LOG[:]
    if role == 'acc':
        sock = s2.FakeSocket()
        p = s2.Stepped(sock, artim=artim)
    else:
        sock = None
        p = s2.Stepped(None, artim=artim)
    conc = Concrete(p)
    lines, info = [], []
    for t in ticks:
        d = parse_tick(t)
        s2.Clock.now += int(d['t'])
        if p.dul_socket is not None:
            sock = p.dul_socket
        for u in [x for x in d['u'].split('+') if x]:
            p.send(tx(u))
        if d['n'] != 'idle' and p.dul_socket is not None:
            if d['n'] == 'eof':
                sock.feed('EOF')
            elif d['n'] == 'err':
                sock.feed('ERR')
            elif d['n'] == 'part':
                # the head of a PDU whose rest never arrives (histories carry no peer data after it)
                conc.k += 1
                sock.feed(pdu.AReleaseRqPDU().encode()[:(1, 5, 6, 7, 9)[conc.k % 5]])
            else:
                sock.feed(lambda toks=d['n'].split('+'): conc.segment(toks))
        if sock is not None:
            sock.fail_send = d['f'] == '1'
        state_before = p.state
        was_crashed = p.crashed is not None
        mark = len(s2.LOG)
        blocked = None
        try:
            e = p.step()
        except s2.WouldBlockForever as x:
            e, blocked = None, str(x)
        if p.dul_socket is not None:
            sock = p.dul_socket
        outs = [canon_out(x) for x in s2.LOG[mark:]]
        if e is not None and not was_crashed:
            outs.append('crash')
        lines.append('st=%d sock=%s tmr=%s crashed=%s out=%s' % (
            p.state, 'true' if p.dul_socket is not None else 'false', 'true' if p.timer.running else 'false',
            'true' if p.crashed is not None else 'false', ','.join(outs)))
        info.append({'before': state_before, 'after': p.state, 'outs': outs, 'blocked': blocked,
                     'sock_closed': None if sock is None else sock.closed,
                     'exc': None if e is None else '%s: %s' % (type(e).__name__, e)})
        if sock is not None:
            sock.fail_send = False
    return lines, info


def oracle(role, ticks, info):
    """the clauses of C05/C12 that can be read off a real trace, independently of the model"""
    over = False
    for k, (t, i) in enumerate(zip(ticks, info)):
        d = parse_tick(t)
        if i['blocked']:
            return 'pass %d blocks: %s' % (k + 1, i['blocked'])
        for o in i['outs']:
            if o == 'send.pdata' and i['before'] not in (6, 8):
                return 'pass %d: P-DATA sent in Sta%d' % (k + 1, i['before'])
            if o == 'indDimse' and i['before'] not in (6, 7):
                return 'pass %d: P-DATA indicated in Sta%d' % (k + 1, i['before'])
        if over and not d['u'] and any(o.startswith('ind') for o in i['outs']) and 'crash' not in i['outs']:
            return 'pass %d: indication %r after the association was over' % (k + 1, i['outs'])
        if i['after'] in (1, 13) and k > 0 and not any('crash' == o for o in i['outs']):
            over = over or i['after'] in (1, 13)
        if i['after'] not in (1, 13):
            over = False
    return None
