"""Reference encoder of PDUs written from PS3.8 9.3 / PS3.7 Annex D (independent of the library),
over plain-data descriptions; and the canonical text of a description."""


def be(n, w):
    return int(n).to_bytes(w, 'big')


def tlv(t, rsv, body):
    return bytes([t, rsv]) + be(len(body), 2) + body


def enc_sub(s):
    k = s[0]
    if k == 'maxLen':
        return tlv(0x51, s[1], be(s[2], 4))
    if k == 'implClass':
        return tlv(0x52, s[1], s[2])
    if k == 'asyncOps':
        return tlv(0x53, s[1], be(s[2], 2) + be(s[3], 2))
    if k == 'role':
        return tlv(0x54, s[1], be(len(s[2]), 2) + s[2] + bytes([s[3], s[4]]))
    if k == 'implVersion':
        return tlv(0x55, s[1], s[2])
    if k == 'extNeg':
        return tlv(0x56, s[1], be(len(s[2]), 2) + s[2] + s[3])
    if k == 'userId':
        return tlv(0x58, s[1], bytes([s[2], s[3]]) + be(len(s[4]), 2) + s[4] + be(len(s[5]), 2) + s[5])
    if k == 'userIdAc':
        return tlv(0x59, s[1], be(len(s[2]), 2) + s[2])
    if k == 'generic':
        return tlv(s[1], s[2], s[3])
    raise KeyError(k)


def enc_item(i):
    k = i[0]
    if k == 'appCtx':
        return tlv(0x10, i[1], i[2])
    if k == 'pcRq':
        _, r1, cid, r2, r3, r4, ar, abs_, tss = i
        return tlv(0x20, r1, bytes([cid, r2, r3, r4]) + tlv(0x30, ar, abs_) + b''.join(tlv(0x40, r, n) for r, n in tss))
    if k == 'pcAc':
        _, r1, cid, r2, res, r3, (tr, tn) = i
        return tlv(0x21, r1, bytes([cid, r2, res, r3]) + tlv(0x40, tr, tn))
    if k == 'userInfo':
        return tlv(0x50, i[1], b''.join(enc_sub(s) for s in i[2]))
    raise KeyError(k)


def enc_pdu(p):
    k = p[0]
    if k in ('rq', 'ac'):
        _, r1, pv, r2, called, calling, r3, items = p
        body = be(pv, 2) + be(r2, 2) + called.ljust(16, b'\0') + calling.ljust(16, b'\0') + b''.join(be(x, 4) for x in r3) \
            + b''.join(enc_item(i) for i in items)
        return bytes([1 if k == 'rq' else 2, r1]) + be(len(body), 4) + body
    if k == 'rj':
        return bytes([3, p[1]]) + be(4, 4) + bytes([p[2], p[3], p[4], p[5]])
    if k == 'pdata':
        body = b''.join(be(len(v) + 1, 4) + bytes([c]) + v for c, v in p[2])
        return bytes([4, p[1]]) + be(len(body), 4) + body
    if k in ('rlrq', 'rlrp'):
        return bytes([5 if k == 'rlrq' else 6, p[1]]) + be(4, 4) + be(p[2], 4)
    if k == 'abort':
        return bytes([7, p[1]]) + be(4, 4) + bytes([p[2], p[3], p[4], p[5]])
    raise KeyError(k)


def hx(b):
    return b.hex() if b else '-'


def canon_sub(s):
    k = s[0]
    if k == 'maxLen':
        return 'maxLen(%d,4,%d)' % (s[1], s[2])
    if k == 'implClass':
        return 'implClass(%d,%s)' % (s[1], hx(s[2]))
    if k == 'asyncOps':
        return 'asyncOps(%d,4,%d,%d)' % (s[1], s[2], s[3])
    if k == 'role':
        return 'role(%d,%s,%d,%d)' % (s[1], hx(s[2]), s[3], s[4])
    if k == 'implVersion':
        return 'implVersion(%d,%s)' % (s[1], hx(s[2]))
    if k == 'extNeg':
        return 'extNeg(%d,%s,%s)' % (s[1], hx(s[2]), hx(s[3]))
    if k == 'userId':
        return 'userId(%d,%d,%d,%s,%s)' % (s[1], s[2], s[3], hx(s[4]), hx(s[5]))
    if k == 'userIdAc':
        return 'userIdAc(%d,%s)' % (s[1], hx(s[2]))
    return 'generic(%d,%d,%s)' % (s[1], s[2], hx(s[3]))


def canon_item(i):
    k = i[0]
    if k == 'appCtx':
        return 'appCtx(%d,%s)' % (i[1], hx(i[2]))
    if k == 'pcRq':
        _, r1, cid, r2, r3, r4, ar, abs_, tss = i
        return 'pcRq(%d,%d,%d,%d,%d,abs(%d,%s),[%s])' % (r1, cid, r2, r3, r4, ar, hx(abs_),
                                                          ';'.join('ts(%d,%s)' % (r, hx(n)) for r, n in tss))
    if k == 'pcAc':
        _, r1, cid, r2, res, r3, (tr, tn) = i
        return 'pcAc(%d,%d,%d,%d,%d,ts(%d,%s))' % (r1, cid, r2, res, r3, tr, hx(tn))
    return 'userInfo(%d,[%s])' % (i[1], ';'.join(canon_sub(s) for s in i[2]))


def canon(p):
    k = p[0]
    if k in ('rq', 'ac'):
        _, r1, pv, r2, called, calling, r3, items = p
        return '%s(%d,%d,%d,%s,%s,[%s],[%s])' % (k, r1, pv, r2, hx(called), hx(calling), ', '.join(str(x) for x in r3),
                                                   ';'.join(canon_item(i) for i in items))
    if k == 'rj':
        return 'rj(%d,%d,%d,%d,%d)' % p[1:]
    if k == 'pdata':
        return 'pdata(%d,[%s])' % (p[1], ';'.join('%d:%s' % (c, hx(v)) for c, v in p[2]))
    if k in ('rlrq', 'rlrp'):
        return '%s(%d,%d)' % (k, p[1], p[2])
    return 'abort(%d,%d,%d,%d,%d)' % p[1:]
