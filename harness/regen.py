"""Regenerate every Dicom/Generated/*.lean from the current /repo (used by setup.sh)."""
from . import extract

if __name__ == '__main__':
    for name in sorted(dir(extract)):
        if name.startswith('gen_'):
            _, changed = getattr(extract, name)()
            print('%s: %s' % (name, 'rewritten' if changed else 'unchanged'))
