"""S2 substrate: the real DULServiceProvider run one loop iteration at a time.

No threads, no sockets, no edits to /repo.  Module attributes of the imported library are
replaced at run time (``dulprovider.select``, ``dulprovider.time``, ``fsm.socket``) and a
subclass turns ``is_killed`` into a property that counts reads of the loop condition, so that
every call of the *real* ``run()`` executes exactly one pass of the loop, whatever the body does.
"""
import collections
import socket as _socket
import time as _time
import types

from pynetdicom2 import dulprovider, fsm

try:
    import queue
except ImportError:  # pragma: no cover
    import Queue as queue


class WouldBlockForever(BaseException):
    """recv() on a blocking socket with nothing to read: the real call would hang."""


LOG = []     # ordered observable effects of the provider: ('send', bytes) ('close',) ('connect', addr) ('t', name) ('ind', obj)


class RecQueue(queue.Queue):
    """the real queue.Queue, recording what the provider delivers to its user"""
    def put(self, item, *a, **kw):
        LOG.append(('ind', item))
        return queue.Queue.put(self, item, *a, **kw)


class FakeSocket(object):
    fail_send = False
    stalled = False          # the peer has stopped reading for a while: a blocking send just takes longer
    STALL_SECONDS = 30

    def __init__(self):
        self.inbox = collections.deque()  # items: bytes | 'EOF' | 'ERR'
        self.sent = []
        self.closed = False
        self.timeout = None               # blocking, as a new socket is
        self.was_reset = False
        self.shut = False
        self.connected = None
        self.recv_sizes = []

    def fileno(self):
        return 99

    # the rest of the socket API a library may legitimately use
    def settimeout(self, t):
        self.timeout = t

    def gettimeout(self):
        return self.timeout

    def setblocking(self, flag):
        self.timeout = None if flag else 0.0

    def setsockopt(self, *a):
        pass

    def getsockopt(self, *a):
        return 0

    def getpeername(self):
        return self.connected or ('127.0.0.1', 104)

    def getsockname(self):
        return ('127.0.0.1', 50000)

    def shutdown(self, how):
        if self.closed:
            raise OSError(9, 'Bad file descriptor')
        if self.was_reset:
            raise OSError(107, 'Transport endpoint is not connected')    # what shutdown() says after an RST
        self.shut = True

    def feed(self, item):
        self.inbox.append(item)

    def readable(self):
        return bool(self.inbox)

    def recv(self, n):
        self.recv_sizes.append(n)
        if self.closed:
            raise OSError('recv on closed socket')
        if not self.inbox:
            if self.shut:
                return b''
            if self.timeout is not None:
                Clock.now += self.timeout
                raise _socket.timeout('timed out')
            raise WouldBlockForever('recv(%d) with nothing to read' % n)
        x = self.inbox[0]
        if callable(x):
            # bytes decided only now, when the provider reads them (they may depend on what it has processed so far)
            x = self.inbox[0] = x()
        if x == 'EOF':
            return b''
        if x == 'ERR':
            self.inbox.popleft()
            self.was_reset = True
            raise OSError(104, 'Connection reset by peer')
        if n <= 0:
            return b''
        if len(x) <= n:
            self.inbox.popleft()
            return x
        self.inbox[0] = x[n:]
        return x[:n]

    def sendall(self, b):
        if self.closed:
            raise OSError('send on closed socket')
        if self.fail_send or self.shut:
            raise OSError(32, 'Broken pipe')
        if self.stalled:
            # the peer is not reading: a blocking socket waits, a socket with a timeout gives up
            if self.timeout is not None and self.timeout < self.STALL_SECONDS:
                Clock.now += self.timeout
                raise _socket.timeout('timed out')
            Clock.now += 0       # (the wait itself is not charged to the ARTIM clock: the peer is alive)
        self.sent.append(bytes(b))
        LOG.append(('send', bytes(b)))

    def close(self):
        self.closed = True
        LOG.append(('close',))

    def connect(self, addr):
        self.connected = addr
        LOG.append(('connect', addr))


class Clock(object):
    now = 1000.0

    @classmethod
    def time(cls):
        return cls.now

    # whichever clock the library reads, it reads the simulated one
    monotonic = time
    perf_counter = time

    @classmethod
    def sleep(cls, seconds):
        cls.now += seconds


SELECT_SLEEP = 0.0        # > 0 in the real-thread tests: an idle poll yields the processor, as a real select() does


def fake_select(r, w, x, timeout=None):
    if SELECT_SLEEP and timeout and not any(not s.closed and s.readable() for s in r):
        _time.sleep(SELECT_SLEEP)
    for s in r:
        if s.closed:
            # what select() does with a closed socket (fileno() is -1)
            raise ValueError('file descriptor cannot be a negative integer (-1)')
    return ([s for s in r if s.readable()], [], [])


LAST = {}


def _mk_socket(*a, **k):
    s = FakeSocket()
    LAST['sock'] = s
    return s


class _SocketModule(object):
    """the socket module as the library sees it: the real constants and exception classes, simulated sockets"""

    def __init__(self, real):
        self._real = real
        self.error = OSError

    def socket(self, *a, **k):
        return _mk_socket()

    def create_connection(self, address, timeout=_socket._GLOBAL_DEFAULT_TIMEOUT, source_address=None, **k):
        s = _mk_socket()
        if timeout is not _socket._GLOBAL_DEFAULT_TIMEOUT:
            s.settimeout(timeout)
        s.connect(address)
        return s

    def __getattr__(self, name):
        return getattr(self._real, name)


_real = {}


def install():
    """Patch the library modules.  Idempotent."""
    if _real:
        return
    _real['select'] = dulprovider.select
    _real['time'] = dulprovider.time
    _real['socket'] = fsm.socket
    dulprovider.select = types.SimpleNamespace(select=fake_select)
    dulprovider.time = Clock
    fsm.socket = _SocketModule(_socket)
    Clock.now = 1000.0


def uninstall():
    if not _real:
        return
    dulprovider.select = _real.pop('select')
    dulprovider.time = _real.pop('time')
    fsm.socket = _real.pop('socket')


class RecTimer(dulprovider.Timer):
    """The real Timer, recording start/stop/restart calls."""
    def __init__(self, max_seconds, log):
        super(RecTimer, self).__init__(max_seconds)
        self.log = log

    def start(self):
        self.log.append('tStart')
        if not getattr(self, '_quiet', False):
            LOG.append(('t', 'tStart'))
        super(RecTimer, self).start()

    def stop(self):
        self.log.append('tStop')
        if not getattr(self, '_quiet', False):
            LOG.append(('t', 'tStop'))
        super(RecTimer, self).stop()

    def restart(self):
        self.log.append('tRestart')
        LOG.append(('t', 'tRestart'))
        self._quiet = True
        # the real restart() calls stop() and start(): do not log those twice
        log, self.log = self.log, []
        try:
            super(RecTimer, self).restart()
        finally:
            self.log = log
            self._quiet = False

    @property
    def running(self):
        return self._start_time is not None


class Stepped(dulprovider.DULServiceProvider):
    """The real provider; ``step()`` runs exactly one pass of the real ``run()`` loop."""
    _budget = 0
    _killed = False

    @property
    def is_killed(self):
        if self._killed:
            return True
        if self._budget <= 0:
            return True
        self._budget -= 1
        return False

    @is_killed.setter
    def is_killed(self, v):
        self._killed = bool(v)

    def start(self):  # no thread
        pass

    def __init__(self, dul_socket=None, max_pdu_length=65536, store_in_file=frozenset(),
                 get_file_cb=None, artim=10):
        install()
        self.tlog = []
        super(Stepped, self).__init__(store_in_file, get_file_cb, dul_socket, max_pdu_length)
        # keep the timer and the queue the library made for itself (their period, their capacity); record the calls
        t = self.timer
        try:
            t.__class__ = type('Rec' + type(t).__name__, (RecTimer, type(t)), {})
            t.log = self.tlog
        except TypeError:
            self.timer = RecTimer(artim, self.tlog)
            self.state_machine.timer = self.timer
        if artim != 10:
            self.timer._max_seconds = artim
        q = self.to_service_user
        q_put = q.put

        def put(item, *a, **kw):
            LOG.append(('ind', item))
            return q_put(item, *a, **kw)
        q.put = put
        self.crashed = None

    def step(self):
        """One pass of run().  Returns the exception that escaped, or None."""
        if self.crashed is not None:
            return self.crashed
        self._budget = 1
        self._is_killed.clear()
        try:
            self.run()
            return None
        except BaseException as e:  # pylint: disable=broad-except
            self.crashed = e
            return e

    @property
    def state(self):
        return self.state_machine.current_state + 1  # Sta number

    def drain_user(self):
        out = []
        while True:
            try:
                out.append(self.to_service_user.get_nowait())
            except queue.Empty:
                return out


def acceptor(max_pdu_length=65536, artim=10, **kw):
    install()
    sock = FakeSocket()
    p = Stepped(sock, max_pdu_length, artim=artim, **kw)
    return p, sock


def requester(max_pdu_length=65536, artim=10, **kw):
    install()
    p = Stepped(None, max_pdu_length, artim=artim, **kw)
    return p
