"""S3 substrate: real Association objects and real provider threads, connected by a TCP connection on loopback
(no listener, no ports) with a tee recording the bytes in both directions; and real loopback TCP on
port 0 for the listening entity."""
import socket
import threading
import time
import warnings

warnings.simplefilter('ignore')

from pynetdicom2 import applicationentity as aem, asceprovider as ap, fsm, exceptions  # noqa: E402

_LOCK = threading.Lock()
THREAD_ERRORS = []
# a provider thread that dies prints its traceback; keep the check output readable and record it instead
threading.excepthook = lambda args: THREAD_ERRORS.append('%s: %s' % (args.exc_type.__name__, args.exc_value))


class Tee(object):
    """wraps one end of the pair; records what is sent and received through it"""

    def __init__(self, end):
        self._end = end
        self.sent = bytearray()
        self.received = bytearray()

    def connect(self, addr):
        pass

    def sendall(self, b):
        self.sent += bytes(b)
        return self._end.sendall(b)

    def recv(self, n):
        d = self._end.recv(n)
        self.received += d
        return d

    def __getattr__(self, n):
        return getattr(self._end, n)


_SOCK = socket


class PairSocketModule(object):
    """stands in for the `socket` module inside fsm: the real module (constants, exception classes, everything else),
    except that socket() and create_connection() hand out a pre-connected end"""

    def __init__(self, tee):
        self.tee = tee
        self.error = socket.error

    def socket(self, *a, **k):
        return self.tee

    def create_connection(self, address, timeout=_SOCK._GLOBAL_DEFAULT_TIMEOUT, source_address=None, **k):
        if timeout is not _SOCK._GLOBAL_DEFAULT_TIMEOUT:
            self.tee.settimeout(timeout)
        return self.tee

    def __getattr__(self, name):
        return getattr(_SOCK, name)


class ServerAE(aem.AEBase):
    """an SCP entity without a listening socket; enough for AssociationAcceptor"""

    def __init__(self, title='SRV', supported_ts=None, max_pdu_length=65536):
        super(ServerAE, self).__init__(supported_ts, max_pdu_length)
        self.local_ae = {'address': 'x', 'aet': title}
        self.timeout = 5
        self.reject = None
        self.services_run = []
        self.handler_exc = []

    def add_scp(self, service):
        self.supported_scp.update({u: service for u in service.sop_classes})
        self.update_context_def_list(service.sop_classes, getattr(service, 'store_in_file', False))
        return self

    def on_association_request(self, asce, rq):
        if self.reject:
            raise exceptions.AssociationRejectedError(*self.reject)


def frames(stream):
    """split a recorded byte stream into PDUs (type, bytes)"""
    out, pos = [], 0
    b = bytes(stream)
    while pos + 6 <= len(b):
        ln = int.from_bytes(b[pos + 2:pos + 6], 'big')
        if pos + 6 + ln > len(b):
            break
        out.append((b[pos], b[pos:pos + 6 + ln]))
        pos += 6 + ln
    return out


def tcp_pair():
    """two connected TCP sockets on loopback (not socket.socketpair(): that gives AF_UNIX sockets, on which TCP-level
    socket options a library may legitimately set - TCP_NODELAY, keep-alive - fail)"""
    lst = socket.socket()
    try:
        lst.bind(('127.0.0.1', 0))
        lst.listen(1)
        a = socket.create_connection(lst.getsockname())
        b, _ = lst.accept()
    finally:
        lst.close()
    return a, b


def run_pair(server, client, body, server_hook=None, timeout=20):
    """one association over a socket pair; `body(assoc)` runs inside `with client.request_association(..)`.
    Returns dict with the outcome on both sides and the wire traffic."""
    a, b = tcp_pair()
    tee = Tee(a)
    res = {'server_exc': None, 'client_exc': None, 'out': None}

    def serve():
        try:
            acc_cls = ap.AssociationAcceptor
            if server_hook is not None:
                acc_cls = server_hook(acc_cls)
            acc_cls(b, ('peer', 0), server, server.max_pdu_length)
        except BaseException as e:  # pylint: disable=broad-except
            res['server_exc'] = e
    t = threading.Thread(target=serve)
    with _LOCK:                       # fsm.socket is module state: serialise the connect phase
        saved = fsm.socket
        fsm.socket = PairSocketModule(tee)
        t.start()
        try:
            cm = client.request_association({'aet': server.local_ae['aet'], 'address': 'x', 'port': 0})
            try:
                assoc = cm.__enter__()
            except BaseException as e:  # pylint: disable=broad-except
                res['client_exc'] = e
                assoc = None
        finally:
            fsm.socket = saved
    if assoc is not None:
        try:
            res['out'] = body(assoc)
            cm.__exit__(None, None, None)
        except BaseException as e:  # pylint: disable=broad-except
            res['client_exc'] = e
            try:
                cm.__exit__(type(e), e, e.__traceback__)
            except BaseException:  # pylint: disable=broad-except
                pass
    t.join(timeout)
    res['server_alive'] = t.is_alive()
    res['to_server'] = frames(tee.sent)
    res['to_client'] = frames(tee.received)
    for s in (a, b):
        try:
            s.close()
        except OSError:
            pass
    return res
