"""Scripted conversations on the S2 substrate (real provider loop, simulated transport)."""
import warnings

warnings.simplefilter('ignore')

from pynetdicom2 import pdu, userdataitems as ud, dimsemessages as dm, dsutils  # noqa: E402

from . import s2, msgs  # noqa: E402

VERIF_SOP = '1.2.840.10008.1.1'
CT_SOP = '1.2.840.10008.5.1.4.1.1.2'
IMPLICIT = '1.2.840.10008.1.2'


def rq_pdu(maxlen=16384, extra=()):
    p = pdu.AAssociateRqPDU('CALLED', 'CALLING', [
        pdu.ApplicationContextItem('1.2.840.10008.3.1.1.1'),
        pdu.PresentationContextItemRQ(1, pdu.AbstractSyntaxSubItem(VERIF_SOP), [pdu.TransferSyntaxSubItem(IMPLICIT)]),
        pdu.PresentationContextItemRQ(3, pdu.AbstractSyntaxSubItem(CT_SOP), [pdu.TransferSyntaxSubItem(IMPLICIT)]),
        pdu.UserInformationItem([ud.MaximumLengthSubItem(maxlen)] + list(extra))])
    p.called_presentation_address = ('peer', 104)
    return p


def ac_pdu(maxlen=16384):
    return pdu.AAssociateAcPDU('CALLED', 'CALLING', [
        pdu.ApplicationContextItem('1.2.840.10008.3.1.1.1'),
        pdu.PresentationContextItemAC(1, 0, pdu.TransferSyntaxSubItem(IMPLICIT)),
        pdu.PresentationContextItemAC(3, 0, pdu.TransferSyntaxSubItem(IMPLICIT)),
        pdu.UserInformationItem([ud.MaximumLengthSubItem(maxlen)])])


def echo_rq(mid=1):
    m = dm.CEchoRQMessage(); m.message_id = mid; m.sop_class_uid = VERIF_SOP; m.set_length(); return m


def echo_rsp(mid=1, status=0):
    m = dm.CEchoRSPMessage(); m.message_id_being_responded_to = mid; m.sop_class_uid = VERIF_SOP
    m.status = status; m.set_length(); return m


def store_rq(mid=2, n=300):
    m = dm.CStoreRQMessage(); m.message_id = mid; m.sop_class_uid = CT_SOP
    m.affected_sop_instance_uid = '1.2.3.4.5'; m.priority = 0
    m.move_originator_aet = 'MOVER'; m.move_originator_message_id = 0
    m.data_set = bytes((i * 3 + 1) % 256 for i in range(n)); m.set_length(); return m


def store_rsp(mid=2, status=0):
    m = dm.CStoreRSPMessage(); m.message_id_being_responded_to = mid; m.sop_class_uid = CT_SOP
    m.affected_sop_instance_uid = '1.2.3.4.5'; m.status = status; m.set_length(); return m


def wire(msg, pc, maxlen):
    """bytes of the P-DATA-TF PDUs a peer would send for msg (list, one per PDU)"""
    return [p.encode() for p in msg.encode(pc, maxlen)]


def canon_ind(x):
    """canonical text of something delivered to the local user"""
    if isinstance(x, tuple):
        m, pc = x
        ds = m.data_set
        if hasattr(ds, 'read'):
            pos = ds.tell(); body = ds.read(); ds.seek(pos)
        else:
            body = ds or b''
        return 'dimse:%s:pc%s:%s:%s' % (type(m).__name__, pc, msgs.encoded_command_set(m).hex(), body.hex())
    try:
        return 'pdu:%d:%s' % (x.pdu_type, x.encode().hex())
    except Exception as e:  # pylint: disable=broad-except
        return 'pdu:%r:unencodable:%s' % (getattr(x, 'pdu_type', None), type(e).__name__)


class Trace(object):
    def __init__(self):
        self.inds = []      # canonical indications in order
        self.sent = []      # hex of every sendall, in order
        self.tlog = []
        self.crash = None
        self.crash_with_gen = False
        self.blocked = None
        self.steps = 0


class Runner(object):
    """drives one provider; `react(ind) -> [primitives]` is the local user"""

    def __init__(self, role, react, max_pdu_length=16384, artim=10, first_segments=()):
        s2.install()
        s2.Clock.now = 1000.0
        self.role = role
        self.react = react
        self.tr = Trace()
        if role == 'acceptor':
            self.sock = s2.FakeSocket()
            for seg in first_segments:           # already waiting when the provider starts
                self.sock.feed(seg)
            self.p = s2.Stepped(self.sock, max_pdu_length, artim=artim)
        else:
            self.sock = None
            self.p = s2.Stepped(None, max_pdu_length, artim=artim)
        self._sent_seen = 0
        self._tlog_seen = 0

    def _collect(self):
        p = self.p
        if self.sock is None and p.dul_socket is not None:
            self.sock = p.dul_socket          # the requester's transport, once AE-1 has opened it
        new_inds = p.drain_user()
        if self.sock is not None:
            for b in self.sock.sent[self._sent_seen:]:
                self.tr.sent.append(b.hex())
            self._sent_seen = len(self.sock.sent)
        for x in new_inds:
            self.tr.inds.append(canon_ind(x))
            for prim in (self.react(x) or []):
                p.send(prim)
        return new_inds

    def step(self):
        """one loop pass; returns True if something happened (an event was processed)"""
        p = self.p
        before = (p.state, len(p.event), len(p.raw_pdu), self._sent_seen, p.from_service_user.qsize(),
                  p.dimse_gen is not None, len(self.sock.inbox) if self.sock else 0, len(p.tlog))
        self.gen_pending = p.dimse_gen is not None       # the provider itself still owes fragments of a message
        try:
            e = p.step()
        except s2.WouldBlockForever as x:
            self.tr.blocked = str(x)
            return False
        self.tr.steps += 1
        if e is not None:
            self.tr.crash = '%s: %s' % (type(e).__name__, e)
            self.tr.crash_with_gen = self.gen_pending
            self._collect()
            return False
        inds = self._collect()
        after = (p.state, len(p.event), len(p.raw_pdu), self._sent_seen, p.from_service_user.qsize(),
                 p.dimse_gen is not None, len(self.sock.inbox) if self.sock else 0, len(p.tlog))
        return bool(inds) or before != after

    max_settle = 0

    def settle(self, limit=20000):
        """step until a pass changes nothing (the longest legitimate run of the corpus is some 500 passes; a loop still busy
        after `limit` passes without new input is reported as blocked)"""
        n = 0
        while n < limit and not self.tr.crash and not self.tr.blocked:
            n += 1
            if not self.step():
                break
        if n > Runner.max_settle:
            Runner.max_settle = n
        if n >= limit and not self.tr.crash and not self.tr.blocked:
            self.tr.blocked = 'the loop was still busy after %d passes without any new input' % n
        return n

    def feed(self, seg):
        if self.sock is None:
            raise RuntimeError('no transport yet')
        self.sock.feed(seg)

    def user(self, prim):
        self.p.send(prim)

    def advance(self, seconds):
        s2.Clock.now += seconds

    def summary(self):
        p = self.p
        return {'inds': self.tr.inds, 'sent': self.tr.sent, 'state': p.state,
                'closed': (self.sock.closed if self.sock else None), 'sock_none': p.dul_socket is None,
                'crash': self.tr.crash, 'blocked': self.tr.blocked, 'timer': list(p.tlog),
                'timer_running': p.timer.running}


def default_acceptor_user(maxlen=16384, reject=None, echo_status=0):
    """a local user that accepts, answers C-ECHO and C-STORE, and answers release"""
    def react(x):
        if isinstance(x, tuple):
            m, pc = x
            if isinstance(m, dm.CEchoRQMessage):
                return [echo_rsp(m.message_id, echo_status).encode(pc, maxlen)]
            if isinstance(m, dm.CStoreRQMessage):
                return [store_rsp(m.message_id).encode(pc, maxlen)]
            return []
        t = getattr(x, 'pdu_type', None)
        if t == 1:
            if reject:
                return [pdu.AAssociateRjPDU(*reject)]
            return [ac_pdu(maxlen)]
        if t == 5:
            return [pdu.AReleaseRpPDU()]
        return []
    return react


def split(data, cuts):
    cuts = [c for c in sorted(set(cuts)) if 0 < c < len(data)]
    return [data[a:b] for a, b in zip([0] + cuts, cuts + [len(data)])]
