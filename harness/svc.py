"""S1 substrate for the service classes: the real Association.send on a stub provider whose queue is
consumed *later* (as the provider thread would), scripted receive(), and an independent reading of
every transmitted message from its wire form."""
import types
import warnings

warnings.simplefilter('ignore')

from pynetdicom2 import asceprovider as ap, dsutils, dimsemessages as dm  # noqa: E402
from pydicom import uid as _uid  # noqa: E402

from . import msgs  # noqa: E402

IMPLICIT = _uid.ImplicitVRLittleEndian
TSS = [_uid.ImplicitVRLittleEndian, _uid.ExplicitVRLittleEndian, _uid.ExplicitVRBigEndian]


class MockAssociation(object):
    """the real Association.send / receive interface on top of scripted traffic"""

    def __init__(self, ae, incoming=(), max_pdu_length=16384, remote_ae='REMOTE'):
        self._a = msgs.stub_association(max_pdu_length)
        self.ae = ae
        self.max_pdu_length = max_pdu_length
        self.remote_ae = remote_ae
        self._in = list(incoming)
        self.sent_order = []          # (pc_id) in send order; fragments are consumed at the end
        self.context_def_list = getattr(ae, 'context_def_list', {})

    def send(self, msg, pc_id):
        self._a.max_pdu_length = self.max_pdu_length
        ap.Association.send(self._a, msg, pc_id)
        self.sent_order.append(pc_id)

    def receive(self):
        if not self._in:
            raise RuntimeError('script exhausted')
        x = self._in.pop(0)
        if callable(x):
            x = x()
        return x

    def wire(self):
        """what actually goes on the wire, consumed only now: [(pc_id, command dataset, data bytes, fragments)]"""
        out = []
        for gen, pc in zip(self._a.dul.sent, self.sent_order):
            cmd, data, frs = b'', b'', 0
            ctxs = set()
            for p in gen:
                for ctx, mch, body in msgs.parse_pdata(p.encode()):
                    ctxs.add(ctx); frs += 1
                    if mch in (1, 3):
                        cmd += body
                    else:
                        data += body
            out.append({'sent_on': pc, 'ctxs': sorted(ctxs), 'cs': dsutils.decode(cmd, True, True), 'data': data, 'fragments': frs})
        return out


def val(cs, tag):
    e = cs.get(tag)
    return None if e is None else e.value


def fields(w):
    cs = w['cs']
    return {'ctx': w['ctxs'], 'cf': val(cs, (0, 0x100)), 'msgid_rsp': val(cs, (0, 0x120)), 'msgid': val(cs, (0, 0x110)),
            'sop_class': str(val(cs, (0, 2)) or val(cs, (0, 3)) or ''), 'sop_instance': str(val(cs, (0, 0x1000)) or val(cs, (0, 0x1001)) or ''),
            'status': val(cs, (0, 0x900)), 'dstype': val(cs, (0, 0x800)), 'data': w['data'],
            'remaining': val(cs, (0, 0x1020)), 'completed': val(cs, (0, 0x1021)), 'failed': val(cs, (0, 0x1022)),
            'warning': val(cs, (0, 0x1023))}


def received(msg_cls, pc_id, **kw):
    """a message as the DIMSE decoder hands it up: built from a decoded command set"""
    m = msg_cls()
    for k, v in kw.items():
        if k != 'data_set':
            setattr(m, k, v)
    if kw.get('data_set') is not None:
        m.data_set = kw['data_set']
    m.set_length()
    cs = dsutils.decode(dsutils.encode(m.command_set, True, True), True, True)
    r = msg_cls(cs)
    if kw.get('data_set') is not None:
        r.data_set = kw['data_set']
    return r, pc_id


def ctx(pc_id, sop_class, ts=IMPLICIT):
    return ap.PContextDef(pc_id, _uid.UID(sop_class), ts)
