import Dicom.Model.Bytes
import Dicom.Spec.StatusSpec
import Dicom.Props.C18
