import Dicom.Model.Bytes
import Dicom.Spec.StatusSpec
import Dicom.Spec.Table910
import Dicom.Props.C18
import Dicom.Props.C04
