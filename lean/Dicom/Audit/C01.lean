import Dicom.Props.C01
#print axioms Dicom.C01.decode_encode
#print axioms Dicom.C01.reencode
#print axioms Dicom.C01.subitems_any_order
#print axioms Dicom.C01.pdata_roundtrip
