import Dicom.Props.C02
#print axioms Dicom.C02.spec_reads_impl
#print axioms Dicom.C02.length_reported
#print axioms Dicom.C02.impl_agrees_with_spec
#print axioms Dicom.C02.layouts_are_standard
#print axioms Dicom.C02.conformant_decodes
#print axioms Dicom.C02.strict_reader_accepts_only_encodings
#print axioms Dicom.C02.strict_reader_injective
