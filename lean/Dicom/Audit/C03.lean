import Dicom.Props.C03
#print axioms Dicom.C03.segmentation_independent
#print axioms Dicom.C03.any_two_segmentations
#print axioms Dicom.C03.frames_concat
#print axioms Dicom.C03.frames_wellformed
#print axioms Dicom.C03.provider_is_function_of_stream
#print axioms Dicom.C03.provider_segmentation_independent
#print axioms Dicom.Prov.drained_after
