import Dicom.Props.C04
#print axioms Dicom.C04.fsm_is_table_9_10
#print axioms Dicom.C04.undefined_cells_inert
#print axioms Dicom.C04.table_has_123_cells
