import Dicom.Props.C05
#print axioms Dicom.C05.reachable_inv
#print axioms Dicom.C05.artim_exactly_and_idle_closed
#print axioms Dicom.C05.pdata_only_established
#print axioms Dicom.C05.silent_after_end
#print axioms Dicom.C05.act_is_table_9_10
#print axioms Dicom.C05.provider_follows_machine
#print axioms Dicom.C05.reader_close_is_e17
#print axioms Dicom.C05.one_event_per_poll
#print axioms Dicom.C05.user_primitives_in_order
