import Dicom.Props.C06
#print axioms Dicom.C06.frag_size
#print axioms Dicom.C06.frag_size_limit
#print axioms Dicom.C06.frag_shape
#print axioms Dicom.C06.frag_content
#print axioms Dicom.C06.file_eq_bytes
