import Dicom.Props.C06
#print axioms Dicom.C06.frag_size
#print axioms Dicom.C06.frag_size_limit
#print axioms Dicom.C06.frag_shape
#print axioms Dicom.C06.frag_content
#print axioms Dicom.C06.file_eq_bytes
#print axioms Dicom.C06.fragN_size
#print axioms Dicom.C06.fragN_shape
#print axioms Dicom.C06.fragN_content
#print axioms Dicom.C06.fileN_eq_bytes
