import Dicom.Props.C07
#print axioms Dicom.C07.reassembly_exact
#print axioms Dicom.C07.not_earlier
#print axioms Dicom.C07.message_types_exact
