import Dicom.Props.C08
#print axioms Dicom.C08.group_length_exact
#print axioms Dicom.C08.ascending_tags
#print axioms Dicom.C08.strict_reader_reads
#print axioms Dicom.C08.dataset_flag_iff
#print axioms Dicom.C08.resend_group_length
#print axioms Dicom.C08.command_field_is_type
