import Dicom.Props.C09
#print axioms Dicom.C09.answers_each_once_in_order
#print axioms Dicom.C09.accepted_iff
#print axioms Dicom.C09.ts_is_proposed_and_supported
#print axioms Dicom.C09.served_eq_reported
