import Dicom.Props.C10
#print axioms Dicom.C10.acceptor_never_exceeds_peer
#print axioms Dicom.C10.requester_never_exceeds_peer
#print axioms Dicom.C10.zero_is_unlimited
#print axioms Dicom.C10.can_always_send
#print axioms Dicom.C10.announces_within_own
#print axioms Dicom.C10.both_directions
