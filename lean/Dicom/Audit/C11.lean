import Dicom.Props.C11
#print axioms Dicom.C11.ids_are_odd_sequence
#print axioms Dicom.C11.ids_in_byte_range
#print axioms Dicom.C11.ids_overflow
#print axioms Dicom.C11.proposes_each_entry
#print axioms Dicom.C11.get_scu_iff
#print axioms Dicom.C11.get_scu_value
#print axioms Dicom.C11.usable_eq_accepted
#print axioms Dicom.C11.negotiation_agreement
