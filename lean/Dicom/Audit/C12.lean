import Dicom.Props.C12
#print axioms Dicom.C12.decoders_total
#print axioms Dicom.C12.peer_cannot_crash_acceptor
#print axioms Dicom.C12.peer_cannot_crash_requester
#print axioms Dicom.C12.bad_pdu_aborts
#print axioms Dicom.C12.no_byte_stream_crashes_acceptor
