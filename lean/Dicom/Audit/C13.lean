import Dicom.Props.C13
#print axioms Dicom.C13.closes_after_eof
#print axioms Dicom.C13.closes_by_artim
#print axioms Dicom.C13.stop_completes
#print axioms Dicom.C13.peer_close_always_ends
#print axioms Dicom.C13.silence_always_ends
