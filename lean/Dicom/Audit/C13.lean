import Dicom.Props.C13
#print axioms Dicom.C13.closes_after_eof
#print axioms Dicom.C13.closes_by_artim
#print axioms Dicom.C13.stop_completes
