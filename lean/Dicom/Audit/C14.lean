import Dicom.Props.C14
#print axioms Dicom.C14.reject_fidelity
#print axioms Dicom.C14.abort_fidelity
#print axioms Dicom.C14.release_is_release
#print axioms Dicom.C14.exit_releases_or_aborts
