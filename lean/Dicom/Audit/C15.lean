import Dicom.Props.C15
#print axioms Dicom.C15.freshName_new
#print axioms Dicom.C15.store_never_clobbers
#print axioms Dicom.C15.storage_never_clobbers
#print axioms Dicom.C15.names_stay_distinct
#print axioms Dicom.C15.store_end_to_end
#print axioms Dicom.C15.ops_keep_unremoved
#print axioms Dicom.C15.store_in_history_is_fresh
#print axioms Dicom.C15.ops_names_distinct
