import Dicom.Props.C16
#print axioms Dicom.C16.find_exact
#print axioms Dicom.C16.stops_at_final
#print axioms Dicom.C16.find_rsp_correlates
