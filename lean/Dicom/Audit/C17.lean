import Dicom.Props.C17
#print axioms Dicom.C17.verification_correlates
#print axioms Dicom.C17.storage_correlates
#print axioms Dicom.C17.find_correlates
#print axioms Dicom.C17.move_correlates
#print axioms Dicom.C17.n_action_correlates
#print axioms Dicom.C17.n_event_report_correlates
#print axioms Dicom.C17.get_store_rsp_correlates
