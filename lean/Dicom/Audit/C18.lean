import Dicom.Props.C18
#print axioms Dicom.C18.commands_complete
#print axioms Dicom.C18.status_classification
#print axioms Dicom.C18.zero_is_success
#print axioms Dicom.C18.pending_codes
#print axioms Dicom.C18.unknown_is_failure
