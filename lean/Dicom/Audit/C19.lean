import Dicom.Props.C19
#print axioms Dicom.C19.move_progress
#print axioms Dicom.C19.move_one_final
#print axioms Dicom.C19.move_final_complete
#print axioms Dicom.C19.move_each_once_in_order
#print axioms Dicom.C19.get_answers_each_once
#print axioms Dicom.C19.get_stops_at_final
#print axioms Dicom.C19.get_yields_in_order
