import Dicom.Props.C20
#print axioms Dicom.C20.noninterference
#print axioms Dicom.C20.failure_is_local
#print axioms Dicom.C20.msg_ids_unique
#print axioms Dicom.C20.msg_ids_nodup
