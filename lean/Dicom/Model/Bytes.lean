/-! Bytes, big/little-endian fields, Python-style stream reads.  Core Lean only. -/
namespace Dicom

abbrev Bytes := List UInt8

/-- Python exceptions the models make explicit. -/
inductive Err
  | short        -- struct.error: buffer too small for the format
  | badItem      -- PDUProcessingError('Invalid variable item')
  | badUtf8      -- UnicodeDecodeError
  | keyError     -- KeyError
  | dimse        -- DIMSEProcessingError
  | index        -- IndexError
  | value        -- ValueError / anything else
deriving DecidableEq, Repr

def Err.name : Err → String
  | .short => "short" | .badItem => "badItem" | .badUtf8 => "badUtf8" | .keyError => "keyError"
  | .dimse => "dimse" | .index => "index" | .value => "value"

def be16 (n : Nat) : Bytes := [UInt8.ofNat (n / 256), UInt8.ofNat n]
def be32 (n : Nat) : Bytes :=
  [UInt8.ofNat (n / 16777216), UInt8.ofNat (n / 65536), UInt8.ofNat (n / 256), UInt8.ofNat n]
def le16 (n : Nat) : Bytes := [UInt8.ofNat n, UInt8.ofNat (n / 256)]
def le32 (n : Nat) : Bytes :=
  [UInt8.ofNat n, UInt8.ofNat (n / 256), UInt8.ofNat (n / 65536), UInt8.ofNat (n / 16777216)]

def rd8 : Bytes → Option (Nat × Bytes)
  | a :: r => some (a.toNat, r)
  | _ => none

def rd16 : Bytes → Option (Nat × Bytes)
  | a :: b :: r => some (a.toNat * 256 + b.toNat, r)
  | _ => none

def rd32 : Bytes → Option (Nat × Bytes)
  | a :: b :: c :: d :: r =>
      some (a.toNat * 16777216 + b.toNat * 65536 + c.toNat * 256 + d.toNat, r)
  | _ => none

def rdLe16 : Bytes → Option (Nat × Bytes)
  | a :: b :: r => some (a.toNat + b.toNat * 256, r)
  | _ => none

def rdLe32 : Bytes → Option (Nat × Bytes)
  | a :: b :: c :: d :: r =>
      some (a.toNat + b.toNat * 256 + c.toNat * 65536 + d.toNat * 16777216, r)
  | _ => none

theorem rd16_be16 (n : Nat) (h : n < 65536) (r : Bytes) : rd16 (be16 n ++ r) = some (n, r) := by
  simp [rd16, be16, UInt8.toNat_ofNat']
  omega

theorem rd32_be32 (n : Nat) (h : n < 4294967296) (r : Bytes) :
    rd32 (be32 n ++ r) = some (n, r) := by
  simp [rd32, be32, UInt8.toNat_ofNat']
  omega

theorem rdLe16_le16 (n : Nat) (h : n < 65536) (r : Bytes) : rdLe16 (le16 n ++ r) = some (n, r) := by
  simp [rdLe16, le16, UInt8.toNat_ofNat']
  omega

theorem rdLe32_le32 (n : Nat) (h : n < 4294967296) (r : Bytes) :
    rdLe32 (le32 n ++ r) = some (n, r) := by
  simp [rdLe32, le32, UInt8.toNat_ofNat']
  omega

theorem rd8_ofNat (n : Nat) (h : n < 256) (r : Bytes) : rd8 (UInt8.ofNat n :: r) = some (n, r) := by
  simp [rd8, UInt8.toNat_ofNat']
  omega

@[simp] theorem be16_length (n : Nat) : (be16 n).length = 2 := rfl
@[simp] theorem be32_length (n : Nat) : (be32 n).length = 4 := rfl
@[simp] theorem le16_length (n : Nat) : (le16 n).length = 2 := rfl
@[simp] theorem le32_length (n : Nat) : (le32 n).length = 4 := rfl

/-- Python `stream.read(n)`: up to n bytes, never fails. -/
def readN (n : Nat) (s : Bytes) : Bytes × Bytes := (s.take n, s.drop n)

/-! ### hex text (driver protocol) -/

def hexDigit (n : Nat) : Char :=
  if n < 10 then Char.ofNat (48 + n) else Char.ofNat (87 + n)

def byteToHex (b : UInt8) : String :=
  String.ofList [hexDigit (b.toNat / 16), hexDigit (b.toNat % 16)]

def bytesToHex (bs : Bytes) : String :=
  String.ofList (bs.flatMap fun b => [hexDigit (b.toNat / 16), hexDigit (b.toNat % 16)])

def hexVal (c : Char) : Option Nat :=
  if '0' ≤ c ∧ c ≤ '9' then some (c.toNat - 48)
  else if 'a' ≤ c ∧ c ≤ 'f' then some (c.toNat - 87)
  else if 'A' ≤ c ∧ c ≤ 'F' then some (c.toNat - 55)
  else none

def hexToBytesAux : List Char → Bytes → Option Bytes
  | [], acc => some acc.reverse
  | a :: b :: r, acc =>
    match hexVal a, hexVal b with
    | some x, some y => hexToBytesAux r (UInt8.ofNat (x * 16 + y) :: acc)
    | _, _ => none
  | _, _ => none

/-- "-" or "" is the empty byte string -/
def hexToBytes (s : String) : Option Bytes :=
  if s = "-" then some [] else hexToBytesAux s.toList []

end Dicom
