import Dicom.Model.Dimse
/-! Model of command-set handling in `dimsemessages.DIMSEMessage`: insertion-ordered elements,
`set_length`, the `data_set` setter, and what pydicom writes (elements in ascending tag order,
implicit VR little endian).  Core Lean only. -/
namespace Dicom

/-- a data element of the command group: tag (group·65536 + element) and encoded value -/
structure Elem where
  tag : Nat
  value : Bytes
deriving DecidableEq, Repr

/-- implicit VR little endian element: tag (2+2), length (4), value -/
def Elem.enc (e : Elem) : Bytes :=
  le16 (e.tag / 65536) ++ le16 (e.tag % 65536) ++ le32 e.value.length ++ e.value

def Elem.WF (e : Elem) : Prop := e.tag < 4294967296 ∧ e.value.length < 4294967296 ∧ e.value.length % 2 = 0

def leTag (a b : Elem) : Bool := decide (a.tag ≤ b.tag)

/-- pydicom `write_dataset`: elements in ascending tag order -/
def encodeCmd (es : List Elem) : Bytes := ((es.mergeSort leTag).map Elem.enc).flatten

/-- the Command Group Length element (0000,0000) UL -/
def glElem (n : Nat) : Elem := ⟨0, le32 n⟩

/-- `sum(len(encode_element(v)) for v in command_set.values() if v.tag != 0)` -/
def lengthOfOthers (es : List Elem) : Nat := ((es.filter (fun e => e.tag ≠ 0)).map (fun e => e.enc.length)).sum

/-- `set_length`: the value of (0000,0000) becomes the encoded length of all other elements -/
def setLength (es : List Elem) : List Elem :=
  es.map fun e => if e.tag = 0 then glElem (lengthOfOthers es) else e

/-- assignment to an element that exists (`command_set[tag].value = v`): in place, order kept -/
def setElem (es : List Elem) (tag : Nat) (v : Bytes) : List Elem :=
  es.map fun e => if e.tag = tag then ⟨tag, v⟩ else e

def lookupTag (es : List Elem) (tag : Nat) : Option Bytes := (es.find? (fun e => e.tag = tag)).map (·.value)

/-! ### message object and its operations -/

structure Msg where
  elems : List Elem
  data : Option Bytes
deriving Repr

def hasData : Option Bytes → Bool
  | some (_ :: _) => true
  | _ => false

def dsTypeTag : Nat := 0x0800
/-- Command Data Set Type: 0x0101 = no data set, 0x0001 = data set present -/
def dsTypeValue (present : Bool) : Bytes := le16 (if present then 0x0001 else 0x0101)

inductive MsgOp
  | setField (tag : Nat) (v : Bytes)      -- any field other than group length / data set type
  | setData (d : Option Bytes)            -- the `data_set` setter
  | send (pc maxLen : Nat)                -- `Association.send`: set_length, then encode
deriving Repr

/-- what one `send` puts on the wire: the encoded command set and the data-set fragments -/
structure Sent where
  cmd : Bytes
  elems : List Elem
  dataFrags : List Frag
deriving Repr

def Msg.apply (m : Msg) : MsgOp → Msg × Option Sent
  | .setField tag v => ({ m with elems := setElem m.elems tag v }, none)
  | .setData d => ({ elems := setElem m.elems dsTypeTag (dsTypeValue (hasData d)), data := d }, none)
  | .send pc maxLen =>
    ({ m with elems := setLength m.elems },
     some { cmd := encodeCmd (setLength m.elems), elems := setLength m.elems,
            dataFrags := match m.data with
              | some d => fragsOf pc 0 2 (effMax maxLen - 6) d
              | none => [] })

def Msg.run (m : Msg) : List MsgOp → Msg × List Sent
  | [] => (m, [])
  | op :: ops =>
    match m.apply op with
    | (m', none) => Msg.run m' ops
    | (m', some s) => ((Msg.run m' ops).1, s :: (Msg.run m' ops).2)

end Dicom
