import Dicom.Model.Bytes
import Dicom.Generated.Limits
/-! Model of `dimsemessages.chunks / fragment / fragment_file / DIMSEMessage.encode` and of
`fsm.DIMSEDecoder.process`.  Core Lean only. -/
namespace Dicom

/-- Python: `((seq[pos:pos+size], pos+size < length) for pos in range(0, length, size))`.
For `size = 0` Python raises (range step 0); the model yields nothing — every theorem is stated
under the guard that excludes it. -/
def chunks (size : Nat) (s : Bytes) : List (Bytes × Bool) :=
  if h : size = 0 ∨ s = [] then [] else
    (s.take size, decide (size < s.length)) :: chunks size (s.drop size)
termination_by s.length
decreasing_by
  have : s ≠ [] := fun e => h (Or.inr e)
  have : 0 < s.length := List.length_pos_iff.mpr this
  simp [List.length_drop]; omega

/-- `fragment_file`: read `size` bytes, peek one byte to learn whether more follows, seek back -/
def chunksFile (size : Nat) (s : Bytes) : List (Bytes × Bool) :=
  if h : size = 0 ∨ s = [] then [] else
    (s.take size, !((s.drop size).take 1).isEmpty) :: chunksFile size (s.drop size)
termination_by s.length
decreasing_by
  have : s ≠ [] := fun e => h (Or.inr e)
  have : 0 < s.length := List.length_pos_iff.mpr this
  simp [List.length_drop]; omega

/-- one fragment: presentation context, message control header (bit0 = command, bit1 = last), bytes -/
structure Frag where
  pc : Nat
  mch : Nat
  body : Bytes
deriving DecidableEq, Repr

/-- the fragment size in force: 0 means "no limit" and is served with the library default -/
def effMax (maxLen : Nat) : Nat := if maxLen = 0 then Dicom.Generated.defaultMaxPdu else maxLen

def fragsOf (pc : Nat) (normal last : Nat) (n : Nat) (s : Bytes) : List Frag :=
  (chunks n s).map fun c => ⟨pc, if c.2 then normal else last, c.1⟩

def fragsOfFile (pc : Nat) (normal last : Nat) (n : Nat) (s : Bytes) : List Frag :=
  (chunksFile n s).map fun c => ⟨pc, if c.2 then normal else last, c.1⟩

/-- `DIMSEMessage.encode`: command fragments (1/3) then data fragments (0/2), one PDV per P-DATA-TF -/
def encodeMsg (pc : Nat) (maxLen : Nat) (cmd : Bytes) (data : Option Bytes) : List Frag :=
  fragsOf pc 1 3 (effMax maxLen - 6) cmd ++
    (match data with | some d => fragsOf pc 0 2 (effMax maxLen - 6) d | none => [])

/-- the same with the data set supplied as a seekable file -/
def encodeMsgFile (pc : Nat) (maxLen : Nat) (cmd : Bytes) (data : Option Bytes) : List Frag :=
  fragsOf pc 1 3 (effMax maxLen - 6) cmd ++
    (match data with | some d => fragsOfFile pc 0 2 (effMax maxLen - 6) d | none => [])

/-- the same stream for an explicit fragment size `n` (the code uses the largest possible, `maximum − 6`; any size from 1
up to that satisfies C06, and an implementation is free to choose) -/
def encodeMsgN (pc : Nat) (n : Nat) (cmd : Bytes) (data : Option Bytes) : List Frag :=
  fragsOf pc 1 3 n cmd ++ (match data with | some d => fragsOf pc 0 2 n d | none => [])

def encodeMsgFileN (pc : Nat) (n : Nat) (cmd : Bytes) (data : Option Bytes) : List Frag :=
  fragsOf pc 1 3 n cmd ++ (match data with | some d => fragsOfFile pc 0 2 n d | none => [])

/-- `pdu_length` of the P-DATA-TF carrying one fragment: item length (4) + context id (1) +
control header (1) + fragment -/
def Frag.pduLength (f : Frag) : Nat := 6 + f.body.length

/-! ### DIMSEDecoder -/

structure Dec where
  receiving : Bool := true
  cmdDone : Bool := false
  dataDone : Bool := false
  cmd : Bytes := []
  data : Bytes := []
  pc : Nat := 0
deriving DecidableEq, Repr

/-- one PDV.  `noDs` abstracts "the decoded command set says there is no data set"
(pydicom decode + CommandDataSetType = 0x0101).  `none` = the Python raises
(invalid control header).  Returns (state, break?). -/
def Dec.pdv (noDs : Bytes → Bool) (d : Dec) (v : Frag) : Option (Dec × Bool) :=
  if v.mch = 1 then some ({ d with pc := v.pc, cmd := d.cmd ++ v.body }, false)
  else if v.mch = 3 then
    if noDs (d.cmd ++ v.body) = true ∨ d.dataDone = true then
      some ({ d with pc := v.pc, cmd := d.cmd ++ v.body, cmdDone := true, receiving := false }, true)
    else some ({ d with pc := v.pc, cmd := d.cmd ++ v.body, cmdDone := true }, false)
  else if v.mch = 0 then some ({ d with pc := v.pc, data := d.data ++ v.body }, false)
  else if v.mch = 2 then
    if d.cmdDone = true then
      some ({ d with pc := v.pc, data := d.data ++ v.body, dataDone := true, receiving := false }, true)
    else some ({ d with pc := v.pc, data := d.data ++ v.body, dataDone := true }, false)
  else none

/-- one P-DATA-TF: loop over its PDVs with `break` on completion -/
def Dec.pdu (noDs : Bytes → Bool) : Dec → List Frag → Option Dec
  | d, [] => some d
  | d, v :: vs =>
    match d.pdv noDs v with
    | none => none
    | some (d', true) => some d'
    | some (d', false) => Dec.pdu noDs d' vs

/-- feed PDUs until completion (DT-2/AR-6 hand the message up and drop the decoder); returns the
decoder and the number of PDUs consumed -/
def Dec.run (noDs : Bytes → Bool) : Dec → List (List Frag) → Option (Dec × Nat)
  | d, [] => some (d, 0)
  | d, p :: ps =>
    match Dec.pdu noDs d p with
    | none => none
    | some d' => if d'.receiving then (Dec.run noDs d' ps).map (fun (x, k) => (x, k + 1)) else some (d', 1)

/-- flat (PDV-level) run with break on completion; returns the unconsumed PDVs -/
def Dec.flat (noDs : Bytes → Bool) : Dec → List Frag → Option (Dec × List Frag)
  | d, [] => some (d, [])
  | d, v :: vs =>
    match d.pdv noDs v with
    | none => none
    | some (d', true) => some (d', vs)
    | some (d', false) => Dec.flat noDs d' vs

end Dicom
