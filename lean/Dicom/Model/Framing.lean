import Dicom.Model.Bytes
/-! Model of `DULServiceProvider._process_incoming` slicing and of the receive buffer. -/
namespace Dicom

/-- bytes 2..5 big-endian (`struct.unpack('>L', raw[2:6])`); the caller guarantees ≥ 6 bytes -/
def len32 (b : Bytes) : Nat :=
  match b with
  | _ :: _ :: a :: b :: c :: d :: _ => a.toNat * 16777216 + b.toNat * 65536 + c.toNat * 256 + d.toNat
  | _ => 0

/-- `_process_incoming`: one complete PDU off the front of the buffer, if present -/
def frame1 (buf : Bytes) : Option (Bytes × Bytes) :=
  if buf.length < 6 then none
  else if buf.length < len32 buf + 6 then none
  else some (buf.take (len32 buf + 6), buf.drop (len32 buf + 6))

theorem frame1_drop_lt {buf p r} (h : frame1 buf = some (p, r)) : r.length < buf.length := by
  unfold frame1 at h
  split at h
  · simp at h
  · split at h
    · simp at h
    · simp only [Option.some.injEq, Prod.mk.injEq] at h
      rw [← h.2]; simp [List.length_drop]; omega

/-- all complete PDUs at the front of the buffer, and the unconsumed tail -/
def frames (buf : Bytes) : List Bytes × Bytes :=
  match _h : frame1 buf with
  | none => ([], buf)
  | some (p, r) => ((p :: (frames r).1), (frames r).2)
termination_by buf.length
decreasing_by all_goals exact frame1_drop_lt _h

/-- receive buffer: append a delivered segment, drain the complete PDUs -/
def feed (st : List Bytes × Bytes) (seg : Bytes) : List Bytes × Bytes :=
  (st.1 ++ (frames (st.2 ++ seg)).1, (frames (st.2 ++ seg)).2)

end Dicom
