import Dicom.Model.Dimse
/-! Maximum-PDU-length negotiation (`AssociationAcceptor.accept`, `AssociationRequester._request`). -/
namespace Dicom

/-- acceptor: its own configured maximum `own` and the value the requester announced -/
def acceptorLimit (own peer : Nat) : Nat :=
  if peer ≠ 0 ∧ (own = 0 ∨ own > peer) then peer else own

/-- what the acceptor announces in its A-ASSOCIATE-AC: the limit it adopted -/
def acceptorAnnounce (own peer : Nat) : Nat := acceptorLimit own peer

/-- requester: its own configured maximum (which it announced) and the acceptor's announcement -/
def requesterLimit (own announced : Nat) : Nat :=
  if announced ≠ 0 ∧ (own = 0 ∨ own > announced) then announced else own

end Dicom
