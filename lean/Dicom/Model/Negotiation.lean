import Dicom.Model.Bytes
/-! Model of presentation-context negotiation: `AssociationAcceptor.accept`, `_loop` lookup,
`AEBase.update_context_def_list`, `AssociationRequester._request` reply processing, `get_scu`. -/
namespace Dicom.Neg

abbrev Uid := Bytes

structure PcRq where
  id : Nat
  abs : Uid
  ts : List Uid
deriving DecidableEq, Repr

structure PcAc where
  id : Nat
  result : Nat
  ts : Uid
deriving DecidableEq, Repr

/-- what the accepting application entity is configured with -/
structure Cfg where
  scp : List Uid            -- abstract syntaxes served as SCP (`supported_scp` keys)
  ts : List Uid             -- supported transfer syntaxes (`supported_ts`)
deriving Repr

/-- `for ts in proposed_ts: if ts.name in supported_ts: ...; break` -/
def firstSupported (cfg : Cfg) (proposed : List Uid) : Option Uid := proposed.find? (fun t => cfg.ts.contains t)

/-- the answer to one proposed context (rejections carry result 1 and an empty transfer syntax) -/
def answer (cfg : Cfg) (c : PcRq) : PcAc :=
  if cfg.scp.contains c.abs then
    match firstSupported cfg c.ts with
    | some t => ⟨c.id, 0, t⟩
    | none => ⟨c.id, 1, []⟩
  else ⟨c.id, 1, []⟩

/-- a Python dict keyed by context id, as an association list: assignment replaces or appends -/
def dictSet {α : Type} (d : List (Nat × α)) (k : Nat) (v : α) : List (Nat × α) :=
  if d.any (fun e => e.1 == k) then d.map (fun e => if e.1 == k then (k, v) else e) else d ++ [(k, v)]

def dictGet {α : Type} (d : List (Nat × α)) (k : Nat) : Option α := (d.find? (fun e => e.1 == k)).map (·.2)

/-- the served-context table after the loop of `accept` -/
def acceptTable (cfg : Cfg) : List PcRq → List (Nat × Uid × Uid) → List (Nat × Uid × Uid)
  | [], d => d
  | c :: cs, d =>
    match (answer cfg c).result with
    | 0 => acceptTable cfg cs (dictSet d c.id (c.abs, (answer cfg c).ts))
    | _ => acceptTable cfg cs d

/-- `accept`: the presentation-context items of the A-ASSOCIATE-AC and the served-context table -/
def accept (cfg : Cfg) (cs : List PcRq) : List PcAc × List (Nat × Uid × Uid) :=
  (cs.map (answer cfg), acceptTable cfg cs [])

/-! ### requester side -/

/-- `update_context_def_list` over a sequence of add_scu/add_scp calls: ids continue from the highest
one, step 2, starting at 1 -/
def nextId (d : List (Nat × Uid)) : Nat := match d.getLast? with | some e => e.1 + 2 | none => 1

def addCall (d : List (Nat × Uid)) (classes : List Uid) : List (Nat × Uid) :=
  d ++ (classes.zipIdx.map fun ci => (nextId d + 2 * ci.2, ci.1))

def addCalls (calls : List (List Uid)) : List (Nat × Uid) := calls.foldl addCall []

/-- reply processing: `accepted_contexts` (by id) and `sop_classes_as_scu` (by class; a later context of
the same class replaces an earlier one) -/
structure Usable where
  byId : List (Nat × Uid × Uid) := []       -- id ↦ (class, transfer syntax)
  byClass : List (Uid × Nat × Uid) := []    -- class ↦ (id, transfer syntax)
deriving Repr

def classSet (d : List (Uid × Nat × Uid)) (k : Uid) (v : Nat × Uid) : List (Uid × Nat × Uid) :=
  if d.any (fun e => e.1 == k) then d.map (fun e => if e.1 == k then (k, v) else e) else d ++ [(k, v)]

/-- `none` = KeyError: the peer answered a context that was never proposed -/
def processAc (proposed : List (Nat × Uid)) : List PcAc → Usable → Option Usable
  | [], u => some u
  | r :: rs, u =>
    if r.result = 0 then
      match dictGet proposed r.id with
      | some cls => processAc proposed rs { byId := dictSet u.byId r.id (cls, r.ts), byClass := classSet u.byClass cls (r.id, r.ts) }
      | none => none
    else processAc proposed rs u

/-- `get_scu`: the context to use for a class, or `none` = ClassNotSupportedError -/
def getScu (u : Usable) (scu : List Uid) (cls : Uid) : Option (Nat × Uid) :=
  match u.byClass.find? (fun e => e.1 == cls) with
  | some e => if scu.contains cls then some e.2 else none
  | none => none

end Dicom.Neg
