import Dicom.Model.Bytes
/-! Model of `pdu.py` / `userdataitems.py`: PDU, item and sub-item values, their encoders and their
decoders (stream reads that may come up short, one-byte look-ahead, length fields that are ignored,
`read(-1)`), statement by statement.  `none` = the Python raises.  Core Lean only. -/
namespace Dicom

/-! ### text -/

/-- strict UTF-8 (what `bytes.decode()` accepts): Unicode Table 3-7 -/
def validUtf8 : Bytes → Bool
  | [] => true
  | a :: r =>
    if a.toNat < 0x80 then validUtf8 r
    else match r with
      | b :: r1 =>
        if 0xC2 ≤ a.toNat ∧ a.toNat ≤ 0xDF then (0x80 ≤ b.toNat ∧ b.toNat ≤ 0xBF) && validUtf8 r1
        else match r1 with
          | c :: r2 =>
            if a.toNat = 0xE0 then (0xA0 ≤ b.toNat ∧ b.toNat ≤ 0xBF ∧ 0x80 ≤ c.toNat ∧ c.toNat ≤ 0xBF) && validUtf8 r2
            else if (0xE1 ≤ a.toNat ∧ a.toNat ≤ 0xEC) ∨ a.toNat = 0xEE ∨ a.toNat = 0xEF then
              (0x80 ≤ b.toNat ∧ b.toNat ≤ 0xBF ∧ 0x80 ≤ c.toNat ∧ c.toNat ≤ 0xBF) && validUtf8 r2
            else if a.toNat = 0xED then (0x80 ≤ b.toNat ∧ b.toNat ≤ 0x9F ∧ 0x80 ≤ c.toNat ∧ c.toNat ≤ 0xBF) && validUtf8 r2
            else match r2 with
              | d :: r3 =>
                if a.toNat = 0xF0 then
                  (0x90 ≤ b.toNat ∧ b.toNat ≤ 0xBF ∧ 0x80 ≤ c.toNat ∧ c.toNat ≤ 0xBF ∧ 0x80 ≤ d.toNat ∧ d.toNat ≤ 0xBF) && validUtf8 r3
                else if 0xF1 ≤ a.toNat ∧ a.toNat ≤ 0xF3 then
                  (0x80 ≤ b.toNat ∧ b.toNat ≤ 0xBF ∧ 0x80 ≤ c.toNat ∧ c.toNat ≤ 0xBF ∧ 0x80 ≤ d.toNat ∧ d.toNat ≤ 0xBF) && validUtf8 r3
                else if a.toNat = 0xF4 then
                  (0x80 ≤ b.toNat ∧ b.toNat ≤ 0x8F ∧ 0x80 ≤ c.toNat ∧ c.toNat ≤ 0xBF ∧ 0x80 ≤ d.toNat ∧ d.toNat ≤ 0xBF) && validUtf8 r3
                else false
              | [] => false
          | [] => false
      | [] => false

/-- `bytes.decode()`: the text (kept as its bytes) or an exception -/
def decodeText (b : Bytes) : Option Bytes := if validUtf8 b then some b else none

/-- ASCII white space that `str.strip()` removes (pydicom's `UID(...)` strips its argument) -/
def isWs (b : UInt8) : Bool :=
  (0x09 ≤ b.toNat ∧ b.toNat ≤ 0x0D) || (0x1C ≤ b.toNat ∧ b.toNat ≤ 0x20)

def stripLeft (p : UInt8 → Bool) : Bytes → Bytes
  | [] => []
  | a :: r => if p a then stripLeft p r else a :: r

def strip (p : UInt8 → Bool) (b : Bytes) : Bytes := (stripLeft p (stripLeft p b).reverse).reverse

/-- `uid.UID(bytes.decode())` -/
def decodeUid (b : Bytes) : Option Bytes := (decodeText b).map (strip isWs)

/-- `struct.pack('16s', title)`: NUL-padded / truncated to 16 bytes -/
def pad16 (b : Bytes) : Bytes := (b ++ List.replicate 16 0).take 16

/-- `field.strip(b'\0').decode()` -/
def decodeTitle (b : Bytes) : Option Bytes := decodeText (strip (· == 0) b)

/-! ### values -/

inductive SubItem
  | maxLen (rsv itemLen maxLen : Nat)                          -- 0x51 (stores the item length it was given)
  | implClass (rsv : Nat) (uid : Bytes)                        -- 0x52
  | asyncOps (rsv itemLen invoked performed : Nat)             -- 0x53
  | role (rsv : Nat) (uid : Bytes) (scu scp : Nat)             -- 0x54
  | implVersion (rsv : Nat) (name : Bytes)                     -- 0x55
  | extNeg (rsv : Nat) (uid : Bytes) (info : Bytes)            -- 0x56
  | userId (rsv ty posRsp : Nat) (primary secondary : Bytes)   -- 0x58
  | userIdAc (rsv : Nat) (response : Bytes)                    -- 0x59
  | generic (ty rsv : Nat) (data : Bytes)
deriving DecidableEq, Repr

structure TsSub where
  rsv : Nat
  name : Bytes
deriving DecidableEq, Repr

inductive Item
  | appCtx (rsv : Nat) (name : Bytes)                                                     -- 0x10
  | pcRq (rsv1 id rsv2 rsv3 rsv4 : Nat) (absRsv : Nat) (abs : Bytes) (ts : List TsSub)      -- 0x20
  | pcAc (rsv1 id rsv2 result rsv3 : Nat) (ts : TsSub)                                     -- 0x21
  | userInfo (rsv : Nat) (subs : List SubItem)                                            -- 0x50
deriving DecidableEq, Repr

structure Pdv where
  ctx : Nat
  value : Bytes      -- message control header byte followed by the fragment
deriving DecidableEq, Repr

structure Assoc where
  rsv1 : Nat
  protoVer : Nat
  rsv2 : Nat
  called : Bytes
  calling : Bytes
  rsv3 : List Nat      -- 8 unsigned 32-bit values
  items : List Item
deriving DecidableEq, Repr

inductive Pdu
  | rq (a : Assoc) | ac (a : Assoc)
  | rj (rsv1 rsv2 result source reason : Nat)
  | pdata (rsv : Nat) (pdvs : List Pdv)
  | rlrq (rsv1 rsv2 : Nat) | rlrp (rsv1 rsv2 : Nat)
  | abort (rsv1 rsv2 rsv3 source reason : Nat)
deriving DecidableEq, Repr

/-! ### encoders (`encode()`), with the Python length arithmetic (`total_length`, `item_length`) -/

def u8 (n : Nat) : Bytes := [UInt8.ofNat n]

def SubItem.totalLength : SubItem → Nat
  | .maxLen _ _ _ => 8
  | .implClass _ uid => 4 + uid.length
  | .asyncOps _ il _ _ => 4 + il
  | .role _ uid _ _ => 4 + (4 + uid.length)
  | .implVersion _ n => 4 + n.length
  | .extNeg _ uid info => 4 + (2 + uid.length + info.length)
  | .userId _ _ _ p s => 4 + (6 + p.length + s.length)
  | .userIdAc _ r => 4 + (2 + r.length)
  | .generic _ _ d => 4 + d.length

def SubItem.enc : SubItem → Bytes
  | .maxLen rsv il ml => u8 0x51 ++ u8 rsv ++ be16 il ++ be32 ml
  | .implClass rsv uid => u8 0x52 ++ u8 rsv ++ be16 uid.length ++ uid
  | .asyncOps rsv il i p => u8 0x53 ++ u8 rsv ++ be16 il ++ be16 i ++ be16 p
  | .role rsv uid scu scp => u8 0x54 ++ u8 rsv ++ be16 (4 + uid.length) ++ be16 uid.length ++ uid ++ u8 scu ++ u8 scp
  | .implVersion rsv n => u8 0x55 ++ u8 rsv ++ be16 n.length ++ n
  | .extNeg rsv uid info => u8 0x56 ++ u8 rsv ++ be16 (2 + uid.length + info.length) ++ be16 uid.length ++ uid ++ info
  | .userId rsv ty pr p s =>
      u8 0x58 ++ u8 rsv ++ be16 (6 + p.length + s.length) ++ u8 ty ++ u8 pr ++ be16 p.length ++ p ++ be16 s.length ++ s
  | .userIdAc rsv r => u8 0x59 ++ u8 rsv ++ be16 (2 + r.length) ++ be16 r.length ++ r
  | .generic ty rsv d => u8 ty ++ u8 rsv ++ be16 d.length ++ d

def TsSub.enc (t : TsSub) : Bytes := u8 0x40 ++ u8 t.rsv ++ be16 t.name.length ++ t.name
def TsSub.totalLength (t : TsSub) : Nat := 4 + t.name.length

def encSubs (l : List SubItem) : Bytes := (l.map SubItem.enc).flatten
def encTss (l : List TsSub) : Bytes := (l.map TsSub.enc).flatten

def Item.itemLength : Item → Nat
  | .appCtx _ n => n.length
  | .pcRq _ _ _ _ _ _ abs ts => 4 + ((4 + abs.length) + (ts.map TsSub.totalLength).sum)
  | .pcAc _ _ _ _ _ t => 4 + t.totalLength
  | .userInfo _ subs => (subs.map SubItem.totalLength).sum

def Item.totalLength (i : Item) : Nat := 4 + i.itemLength

def Item.enc : Item → Bytes
  | .appCtx rsv n => u8 0x10 ++ u8 rsv ++ be16 n.length ++ n
  | .pcRq r1 id r2 r3 r4 ar abs ts =>
      u8 0x20 ++ u8 r1 ++ be16 (Item.pcRq r1 id r2 r3 r4 ar abs ts).itemLength ++ u8 id ++ u8 r2 ++ u8 r3 ++ u8 r4
        ++ (u8 0x30 ++ u8 ar ++ be16 abs.length ++ abs) ++ encTss ts
  | .pcAc r1 id r2 res r3 t =>
      u8 0x21 ++ u8 r1 ++ be16 (Item.pcAc r1 id r2 res r3 t).itemLength ++ u8 id ++ u8 r2 ++ u8 res ++ u8 r3 ++ t.enc
  | .userInfo rsv subs => u8 0x50 ++ u8 rsv ++ be16 (Item.userInfo rsv subs).itemLength ++ encSubs subs

def encItems (l : List Item) : Bytes := (l.map Item.enc).flatten

def Pdv.enc (v : Pdv) : Bytes := be32 (v.value.length + 1) ++ u8 v.ctx ++ v.value
def Pdv.totalLength (v : Pdv) : Nat := 4 + (v.value.length + 1)
def encPdvs (l : List Pdv) : Bytes := (l.map Pdv.enc).flatten

def Assoc.pduLength (a : Assoc) : Nat := 68 + (a.items.map Item.totalLength).sum

def Assoc.enc (ty : Nat) (a : Assoc) : Bytes :=
  u8 ty ++ u8 a.rsv1 ++ be32 a.pduLength ++ be16 a.protoVer ++ be16 a.rsv2 ++ pad16 a.called ++ pad16 a.calling
    ++ (a.rsv3.map be32).flatten ++ encItems a.items

def Pdu.enc : Pdu → Bytes
  | .rq a => a.enc 1
  | .ac a => a.enc 2
  | .rj r1 r2 res src rsn => u8 3 ++ u8 r1 ++ be32 4 ++ u8 r2 ++ u8 res ++ u8 src ++ u8 rsn
  | .pdata rsv pdvs => u8 4 ++ u8 rsv ++ be32 ((pdvs.map Pdv.totalLength).sum) ++ encPdvs pdvs
  | .rlrq r1 r2 => u8 5 ++ u8 r1 ++ be32 4 ++ be32 r2
  | .rlrp r1 r2 => u8 6 ++ u8 r1 ++ be32 4 ++ be32 r2
  | .abort r1 r2 r3 src rsn => u8 7 ++ u8 r1 ++ be32 4 ++ u8 r2 ++ u8 r3 ++ u8 src ++ u8 rsn

/-- `total_length()` -/
def Pdu.totalLength : Pdu → Nat
  | .rq a => 6 + a.pduLength
  | .ac a => 6 + a.pduLength
  | .pdata _ pdvs => 6 + (pdvs.map Pdv.totalLength).sum
  | _ => 10

/-! ### decoders (`decode()`), over the remaining stream -/

/-- `struct.unpack` of a 4-byte sub-item header `>B B H`: (type, reserved, length), or raises -/
def rdHdr4 : Bytes → Option (Nat × Nat × Nat × Bytes)
  | t :: r :: a :: b :: rest => some (t.toNat, r.toNat, a.toNat * 256 + b.toNat, rest)
  | _ => none

def decSub (s : Bytes) : Option (SubItem × Bytes) :=
  match s with
  | [] => none
  | t :: _ =>
    if t.toNat = 0x51 then
      match rdHdr4 s with
      | some (_, rsv, il, r) => match rd32 r with
        | some (ml, r') => some (.maxLen rsv il ml, r')
        | none => none
      | none => none
    else if t.toNat = 0x52 then
      match rdHdr4 s with
      | some (_, rsv, il, r) => (decodeUid (r.take il)).map fun u => (.implClass rsv u, r.drop il)
      | none => none
    else if t.toNat = 0x53 then
      match rdHdr4 s with
      | some (_, rsv, il, r) => match rd16 r with
        | some (i, r1) => match rd16 r1 with
          | some (p, r2) => some (.asyncOps rsv il i p, r2)
          | none => none
        | none => none
      | none => none
    else if t.toNat = 0x54 then
      match rdHdr4 s with
      | some (_, rsv, _, r) => match rd16 r with
        | some (ul, r1) => match decodeUid (r1.take ul) with
          | some u => match rd8 (r1.drop ul) with
            | some (scu, r2) => match rd8 r2 with
              | some (scp, r3) => some (.role rsv u scu scp, r3)
              | none => none
            | none => none
          | none => none
        | none => none
      | none => none
    else if t.toNat = 0x55 then
      match rdHdr4 s with
      | some (_, rsv, il, r) => (decodeText (r.take il)).map fun n => (.implVersion rsv n, r.drop il)
      | none => none
    else if t.toNat = 0x56 then
      match rdHdr4 s with
      | some (_, rsv, il, r) => match rd16 r with
        | some (ul, r1) => match decodeUid (r1.take ul) with
          -- app info: item_length - uid_length - 2 bytes; a negative count reads to the end
          | some u => if il < ul + 2 then some (.extNeg rsv u (r1.drop ul), [])
                      else some (.extNeg rsv u ((r1.drop ul).take (il - ul - 2)), (r1.drop ul).drop (il - ul - 2))
          | none => none
        | none => none
      | none => none
    else if t.toNat = 0x58 then
      match rdHdr4 s with
      | some (_, rsv, _, r) => match rd8 r with
        | some (ty, r1) => match rd8 r1 with
          | some (pr, r2) => match rd16 r2 with
            | some (pl, r3) => match rd16 (r3.drop pl) with
              | some (sl, r4) => match decodeText (r3.take pl), decodeText (r4.take sl) with
                | some p, some sc => some (.userId rsv ty pr p sc, r4.drop sl)
                | _, _ => none
              | none => none
            | none => none
          | none => none
        | none => none
      | none => none
    else if t.toNat = 0x59 then
      match rdHdr4 s with
      | some (_, rsv, _, r) => match rd16 r with
        | some (rl, r1) => (decodeText (r1.take rl)).map fun x => (.userIdAc rsv x, r1.drop rl)
        | none => none
      | none => none
    else
      match rdHdr4 s with
      | some (ty, rsv, il, r) => some (.generic ty rsv (r.take il), r.drop il)
      | none => none

/-- `UserInformationItem.sub_items`: until end of stream or a zero type byte -/
def decSubs : Nat → Bytes → Option (List SubItem × Bytes)
  | 0, _ => none
  | _ + 1, [] => some ([], [])
  | f + 1, t :: rest =>
    if t = 0 then some ([], t :: rest) else
    match decSub (t :: rest) with
    | some (i, r) => (decSubs f r).map fun (l, r') => (i :: l, r')
    | none => none

def decTs (s : Bytes) : Option (TsSub × Bytes) :=
  match rdHdr4 s with
  | some (_, rsv, il, r) => (decodeUid (r.take il)).map fun n => (⟨rsv, n⟩, r.drop il)
  | none => none

/-- `while _next_type(stream) == 0x40` -/
def decTss : Nat → Bytes → Option (List TsSub × Bytes)
  | 0, _ => none
  | f + 1, s =>
    match s with
    | t :: _ =>
      if t.toNat = 0x40 then
        match decTs s with
        | some (x, r) => (decTss f r).map fun (l, r') => (x :: l, r')
        | none => none
      else some ([], s)
    | [] => some ([], [])

/-- `struct.unpack('>B B H B B B B', stream.read(8))` -/
def rdHdr8 : Bytes → Option (Nat × Nat × Nat × Nat × Nat × Nat × Nat × Bytes)
  | t :: r1 :: a :: b :: c :: d :: e :: f :: rest =>
      some (t.toNat, r1.toNat, a.toNat * 256 + b.toNat, c.toNat, d.toNat, e.toNat, f.toNat, rest)
  | _ => none

def decItem (fuel : Nat) (s : Bytes) : Option (Item × Bytes) :=
  match s with
  | [] => none
  | t :: _ =>
    if t.toNat = 0x10 then
      match rdHdr4 s with
      | some (_, rsv, il, r) => (decodeText (r.take il)).map fun n => (.appCtx rsv n, r.drop il)
      | none => none
    else if t.toNat = 0x20 then
      match rdHdr8 s with
      | some (_, r1, _, id, r2, r3, r4, rest) =>
        match rdHdr4 rest with
        | some (_, ar, al, rest') =>
          match decodeUid (rest'.take al) with
          | some abs => (decTss fuel (rest'.drop al)).map fun (ts, r') => (.pcRq r1 id r2 r3 r4 ar abs ts, r')
          | none => none
        | none => none
      | none => none
    else if t.toNat = 0x21 then
      match rdHdr8 s with
      | some (_, r1, _, id, r2, res, r3, rest) => (decTs rest).map fun (x, r') => (.pcAc r1 id r2 res r3 x, r')
      | none => none
    else if t.toNat = 0x50 then
      match rdHdr4 s with
      | some (_, rsv, _, r) => (decSubs fuel r).map fun (l, r') => (.userInfo rsv l, r')
      | none => none
    else none

/-- `iter_items`: `while item_type:` (stops at end of stream or at a zero byte) -/
def decItems : Nat → Bytes → Option (List Item)
  | 0, _ => none
  | _ + 1, [] => some []
  | f + 1, t :: rest =>
    if t = 0 then some [] else
    match decItem (f + 1) (t :: rest) with
    | some (i, r) => (decItems f r).map (i :: ·)
    | none => none

def rd32s : Nat → Bytes → Option (List Nat × Bytes)
  | 0, s => some ([], s)
  | n + 1, s => match rd32 s with
    | some (v, r) => (rd32s n r).map fun (l, r') => (v :: l, r')
    | none => none

def decAssoc (s : Bytes) : Option Assoc :=
  match s with
  | _ :: r1 :: rest =>
    match rd32 rest with
    | some (_, a) => match rd16 a with
      | some (pv, b) => match rd16 b with
        | some (r2, c) =>
          if c.length < 64 then none else
          match decodeTitle (c.take 16), decodeTitle ((c.drop 16).take 16), rd32s 8 (c.drop 32) with
          | some called, some calling, some (rsv3, d) =>
            (decItems (d.length + 1) d).map fun items =>
              { rsv1 := r1.toNat, protoVer := pv, rsv2 := r2, called := called, calling := calling,
                rsv3 := rsv3, items := items }
          | _, _, _ => none
        | none => none
      | none => none
    | none => none
  | _ => none

/-- `PresentationDataValueItem.decode`: item length 0 makes `read(-1)` return the rest of the stream -/
def decPdv (s : Bytes) : Option (Pdv × Bytes) :=
  match rd32 s with
  | some (il, r) => match rd8 r with
    | some (ctx, r') =>
      if il = 0 then some (⟨ctx, r'⟩, []) else some (⟨ctx, r'.take (il - 1)⟩, r'.drop (il - 1))
    | none => none
  | none => none

/-- `while length_read != pdu_length` -/
def decPdvs : Nat → Nat → Nat → Bytes → Option (List Pdv)
  | 0, _, _, _ => none
  | f + 1, lengthRead, pduLength, s =>
    if lengthRead = pduLength then some [] else
    match decPdv s with
    | some (v, r) => (decPdvs f (lengthRead + v.totalLength) pduLength r).map (v :: ·)
    | none => none

def decFixed10 (s : Bytes) : Option (List Nat) :=
  if s.length < 10 then none else some ((s.take 10).map (·.toNat))

/-- `PDU_TYPES[type].decode(raw)`; `none` also for an unknown type (KeyError) -/
def decodePdu (s : Bytes) : Option Pdu :=
  match s with
  | [] => none
  | t :: _ =>
    if t.toNat = 1 then (decAssoc s).map .rq
    else if t.toNat = 2 then (decAssoc s).map .ac
    else if t.toNat = 3 then
      match s with
      | _ :: r1 :: _ :: _ :: _ :: _ :: r2 :: res :: src :: rsn :: _ => some (.rj r1.toNat r2.toNat res.toNat src.toNat rsn.toNat)
      | _ => none
    else if t.toNat = 4 then
      match s with
      | _ :: rsv :: rest => match rd32 rest with
        | some (pl, r) => (decPdvs (r.length + 1) 0 pl r).map (.pdata rsv.toNat)
        | none => none
      | _ => none
    else if t.toNat = 5 ∨ t.toNat = 6 then
      match s with
      | _ :: r1 :: _ :: _ :: _ :: _ :: rest => match rd32 rest with
        | some (r2, _) => some (if t.toNat = 5 then .rlrq r1.toNat r2 else .rlrp r1.toNat r2)
        | none => none
      | _ => none
    else if t.toNat = 7 then
      match s with
      | _ :: r1 :: _ :: _ :: _ :: _ :: r2 :: r3 :: src :: rsn :: _ => some (.abort r1.toNat r2.toNat r3.toNat src.toNat rsn.toNat)
      | _ => none
    else none

end Dicom
