import Dicom.Model.Pdu
/-! Canonical text of PDU values (driver protocol; the Python harness prints the same form). -/
namespace Dicom

def hx (b : Bytes) : String := if b.isEmpty then "-" else bytesToHex b

def SubItem.canon : SubItem → String
  | .maxLen r il ml => s!"maxLen({r},{il},{ml})"
  | .implClass r u => s!"implClass({r},{hx u})"
  | .asyncOps r il i p => s!"asyncOps({r},{il},{i},{p})"
  | .role r u a b => s!"role({r},{hx u},{a},{b})"
  | .implVersion r n => s!"implVersion({r},{hx n})"
  | .extNeg r u i => s!"extNeg({r},{hx u},{hx i})"
  | .userId r t p a b => s!"userId({r},{t},{p},{hx a},{hx b})"
  | .userIdAc r x => s!"userIdAc({r},{hx x})"
  | .generic t r d => s!"generic({t},{r},{hx d})"

def TsSub.canon (t : TsSub) : String := s!"ts({t.rsv},{hx t.name})"

def Item.canon : Item → String
  | .appCtx r n => s!"appCtx({r},{hx n})"
  | .pcRq r1 id r2 r3 r4 ar abs ts => s!"pcRq({r1},{id},{r2},{r3},{r4},abs({ar},{hx abs}),[{";".intercalate (ts.map TsSub.canon)}])"
  | .pcAc r1 id r2 res r3 t => s!"pcAc({r1},{id},{r2},{res},{r3},{t.canon})"
  | .userInfo r subs => s!"userInfo({r},[{";".intercalate (subs.map SubItem.canon)}])"

def Assoc.canon (a : Assoc) : String :=
  s!"({a.rsv1},{a.protoVer},{a.rsv2},{hx a.called},{hx a.calling},{a.rsv3},[{";".intercalate (a.items.map Item.canon)}])"

def Pdu.canon : Pdu → String
  | .rq a => "rq" ++ a.canon
  | .ac a => "ac" ++ a.canon
  | .rj r1 r2 a b c => s!"rj({r1},{r2},{a},{b},{c})"
  | .pdata r pdvs => s!"pdata({r},[{";".intercalate (pdvs.map fun v => s!"{v.ctx}:{hx v.value}")}])"
  | .rlrq a b => s!"rlrq({a},{b})"
  | .rlrp a b => s!"rlrp({a},{b})"
  | .abort a b c d e => s!"abort({a},{b},{c},{d},{e})"

end Dicom
