import Dicom.Spec.Table910
/-! Model of `DULServiceProvider.run` (one pass = `iter`) with the action bodies of `fsm.py`.
Payloads are abstracted to kinds and the receive buffer to the list of complete PDUs it holds (what
the framing theorem of C03 justifies).  Python exceptions escaping `run()` are the explicit `crashed`
state.  Core Lean only. -/
namespace Dicom.Prov
open Dicom.UL

/-- a complete PDU in the receive buffer, as the receive path will classify it -/
inductive Rx
  | rq | ac | rj
  | pdataDone      -- P-DATA-TF completing a DIMSE message
  | pdataMore      -- P-DATA-TF leaving the message incomplete
  | pdataErr       -- P-DATA-TF the DIMSE decoder rejects (empty PDV, bad control header, bad command set)
  | rlrq | rlrp | abort
  | invalid        -- unknown PDU type or undecodable PDU
deriving DecidableEq, Repr

/-- a primitive the local user hands to the provider -/
inductive Tx
  | rq | ac | rj
  | msg (extra : Nat)    -- a DIMSE message of `extra + 1` fragments
  | rlrq | rlrp | abort
deriving DecidableEq, Repr

inductive Out
  | send (k : K) | sendAbort (src : Nat)
  | ind (k : K) | indAbort (src : Nat) | indDimse
  | close | connect | tStart | tStop | tRestart | crash
deriving DecidableEq, Repr

structure P where
  st : St := .s1
  sock : Bool := false
  evq : List Ev := []
  rx : Option Rx := none        -- the received PDU the pending event belongs to
  timer : Bool := false
  now : Nat := 1000             -- the clock (seconds)
  tstart : Nat := 0             -- when ARTIM was last started
  raw : List Rx := []
  inbox : List (Option (List Rx)) := []   -- what the transport holds for us: segments (`some toks`) / end of stream (`none`)
  fromUser : List Tx := []
  gen : Nat := 0                -- fragments of the current outgoing message still to be sent
  requestor : Bool := false
  crashed : Bool := false
deriving DecidableEq, Repr

def evOfRx : Rx → Ev
  | .rq => .e6 | .ac => .e3 | .rj => .e4 | .pdataDone => .e10 | .pdataMore => .e10 | .pdataErr => .e10
  | .rlrq => .e12 | .rlrp => .e13 | .abort => .e16 | .invalid => .e19

def evOfTx : Tx → Ev
  | .rq => .e1 | .ac => .e7 | .rj => .e8 | .msg _ => .e9 | .rlrq => .e11 | .rlrp => .e14 | .abort => .e15

open St Act in
/-- AA-8 (also reached from DT-2/AR-6 when the DIMSE decoder rejects the P-DATA) -/
def aa8Body (p : P) : P × List Out :=
  if p.sock then ({ p with timer := true, tstart := p.now, st := s13 }, [.sendAbort 2, .indAbort 2, .tStart])
  else ({ p with st := s13 }, [])

open St Act in
/-- action bodies of fsm.py -/
def act (a : Act) (p : P) : P × List Out :=
  match a with
  | ae1 => ({ p with sock := true, inbox := [], st := s4 }, [.connect])
  | ae2 => ({ p with st := s5 }, [.send .rq])
  | ae3 => ({ p with st := s6 }, [.ind .ac])
  | ae4 => ({ p with sock := false, st := s1 }, [.ind .rj, .close])
  | ae5 => ({ p with timer := true, tstart := p.now, st := s2 }, [.tStart])
  | ae6 => ({ p with timer := false, st := s3 }, [.tStop, .ind .rq])
  | ae7 => ({ p with st := s6 }, [.send .ac])
  | ae8 => ({ p with timer := true, tstart := p.now, st := s13 }, [.send .rj, .tStart])
  | dt1 => ({ p with st := s6 }, [.send .pdata])
  | dt2 => if p.rx = some .pdataErr then aa8Body p
           else ({ p with st := s6 }, if p.rx = some .pdataDone then [.indDimse] else [])
  | ar1 => ({ p with st := s7 }, [.send .rlrq])
  | ar2 => ({ p with st := s8 }, [.ind .rlrq])
  | ar3 => ({ p with sock := false, st := s1 }, [.ind .rlrp, .close])
  | ar4 => ({ p with timer := true, tstart := p.now, st := s13 }, [.send .rlrp, .tStart])
  | ar5 => ({ p with timer := false, st := s1 }, [.tStop])
  | ar6 => if p.rx = some .pdataErr then aa8Body p
           else ({ p with st := s7 }, if p.rx = some .pdataDone then [.indDimse] else [])
  | ar7 => ({ p with st := s8 }, [.send .pdata])
  | ar8 => ({ p with st := if p.requestor then s9 else s10 }, [.ind .rlrq])
  | ar9 => ({ p with st := s11 }, [.send .rlrp])
  | ar10 => ({ p with st := s12 }, [.ind .rlrp])
  | aa1 => ({ p with timer := true, tstart := p.now, st := s13 }, [.sendAbort 0, .tRestart])
  | aa2 => ({ p with timer := false, sock := false, st := s1 }, [.tStop, .close])
  | aa3 => ({ p with sock := false, st := s1 }, [.ind .abort, .close])
  | aa4 => ({ p with st := s1 }, [.indAbort 2])
  | aa5 => ({ p with timer := false, st := s1 }, [.tStop])
  | aa6 => ({ p with st := s13 }, [])
  | aa7 => ({ p with st := s13 }, [.sendAbort 2])
  | aa8 => aa8Body p

/-- does the action write to the transport first thing (where a transport failure strikes)? -/
def sends (a : Act) (p : P) : Bool :=
  match a with
  | .ae2 | .ae7 | .ae8 | .dt1 | .ar1 | .ar4 | .ar7 | .ar9 | .aa1 | .aa7 => true
  | .aa8 => p.sock
  | .dt2 | .ar6 => p.sock && p.rx == some .pdataErr
  | _ => false

/-- what reaches the transport before this pass: nothing, a segment carrying these PDUs, or the peer's close -/
inductive Net | idle | data (toks : List Rx) | eof
deriving Repr

structure Tick where
  net : Net := .idle
  enq : List Tx := []          -- primitives the local user enqueues before this pass
  dt : Nat := 0                -- seconds that pass before this pass
  sendFails : Bool := false    -- a write to the transport in this pass raises socket.error
deriving Repr

def processIncoming (p : P) : Option P :=
  match p.raw with
  | [] => none
  | r :: rest => some { p with raw := rest, rx := some r, evq := p.evq ++ [evOfRx r] }

/-- `_check_network`: buffered PDU first, then `select`/`recv` of one segment, then the buffer again -/
def checkNetwork (p : P) : P × Bool :=
  if !p.sock then (p, false)
  else if p.st = .s4 then ({ p with evq := p.evq ++ [.e2] }, true)
  else match processIncoming p with
    | some p' => (p', true)
    | none =>
      match p.inbox with
      | [] => (p, false)
      | none :: _ => ({ p with evq := p.evq ++ [.e17], sock := false, inbox := [] }, true)
      | some toks :: rest =>
        match processIncoming { p with raw := p.raw ++ toks, inbox := rest } with
        | some p' => (p', true)
        | none => ({ p with raw := p.raw ++ toks, inbox := rest }, false)

/-- `_check_outgoing_pdu` -/
def checkOutgoing (p : P) : P × Bool :=
  if 0 < p.gen then ({ p with gen := p.gen - 1, evq := p.evq ++ [.e9] }, true)
  else match p.fromUser with
    | [] => (p, false)
    | .msg n :: r => ({ p with fromUser := r, gen := n, evq := p.evq ++ [.e9] }, true)
    | t :: r => ({ p with fromUser := r, evq := p.evq ++ [evOfTx t] }, true)

/-- ARTIM period (seconds) -/
def artim : Nat := 10

/-- `_check_timer`: `Timer.check()` is false when running and `now - start > max` -/
def checkTimer (p : P) : P × Bool :=
  if p.timer && decide (p.now - p.tstart > artim) then ({ p with evq := p.evq ++ [.e18] }, true) else (p, false)

/-- `_check_outgoing_pdu() or _check_timer()` -/
def pollRest (p : P) : P :=
  match checkOutgoing p with
  | (p2, true) => p2
  | (p2, false) => (checkTimer p2).1

/-- `_check_network() or _check_outgoing_pdu() or _check_timer()` -/
def poll (p : P) : P :=
  match checkNetwork p with
  | (p1, true) => p1
  | (p1, false) => pollRest p1

/-- what the environment does before the pass: time passes, the user enqueues, the transport receives -/
def arrive (p : P) (t : Tick) : P :=
  { p with now := p.now + t.dt, fromUser := p.fromUser ++ t.enq,
           inbox := if p.sock then (match t.net with
                                    | .idle => p.inbox
                                    | .data toks => p.inbox ++ [some toks]
                                    | .eof => p.inbox ++ [none]) else p.inbox }

/-- the loop polls only when no event is pending -/
def prePoll (p : P) (t : Tick) : P :=
  if p.evq.isEmpty then poll (arrive p t) else arrive p t

/-- the rest of an outgoing message is dropped once the association cannot carry data -/
def dropGen (p : P) : P := if p.st = .s6 ∨ p.st = .s8 then p else { p with gen := 0 }

def dispatch (p1 : P) (sendFails : Bool) : P × List Out :=
  match p1.evq with
  | [] => (p1, [])
  | e :: q =>
    match table e p1.st with
    | none => ({ p1 with evq := q, crashed := true }, [.indAbort 0, .crash])     -- KeyError out of run()
    | some a =>
      if sendFails && sends a p1 then
        -- socket.error under the action: handled as transport connection closed
        (dropGen { p1 with evq := q ++ [.e17], sock := false }, [.close])
      else
        ((dropGen (act a { p1 with evq := q }).1), (act a { p1 with evq := q }).2)

/-- one pass of `run()` -/
def iter (p : P) (t : Tick) : P × List Out :=
  if p.crashed then (p, [])
  else ((dispatch (prePoll p t) t.sendFails).1,
        -- the reader closes the socket itself when it sees end of stream
        (if p.sock && !(prePoll p t).sock then [Out.close] else []) ++ (dispatch (prePoll p t) t.sendFails).2)

def run (p : P) : List Tick → P × List Out
  | [] => (p, [])
  | t :: ts => ((run (iter p t).1 ts).1, (iter p t).2 ++ (run (iter p t).1 ts).2)

/-- acceptor start: socket given, Evt5 queued -/
def initAcc : P := { sock := true, evq := [.e5] }
/-- requester start: no socket, nothing queued -/
def initReq : P := { requestor := true }

end Dicom.Prov
