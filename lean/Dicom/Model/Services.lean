import Dicom.Model.Bytes
/-! Models of the service-class providers and users of `sopclass.py` at the level of DIMSE messages:
what is sent, on which presentation context, with which correlation fields.  Core Lean only. -/
namespace Dicom.Svc

abbrev Uid := Bytes

/-- the fields of a request that a response must correlate with -/
structure Rq where
  kind : Nat                 -- command field
  msgId : Nat
  sopClass : Uid
  sopInstance : Option Uid := none
  ds : Option Bytes := none
deriving DecidableEq, Repr

structure Counters where
  remaining : Nat
  completed : Nat
  failed : Nat
  warning : Nat
deriving DecidableEq, Repr

/-- a response as transmitted: (message, presentation context id) -/
structure Rsp where
  kind : Nat
  ctx : Nat
  msgIdRsp : Nat
  sopClass : Uid
  sopInstance : Option Uid := none
  status : Nat
  ds : Option Bytes := none
  counters : Option Counters := none
deriving DecidableEq, Repr

/-- what the application handler did: returned a status, or raised EventHandlingError -/
inductive Outcome | status (s : Nat) | handlingError
deriving DecidableEq, Repr

def statusOf (failure : Nat) : Outcome → Nat
  | .status s => s
  | .handlingError => failure

def PROCESSING_FAILURE : Nat := 0x0110
def CANNOT_UNDERSTAND : Nat := 0xC000
def SUCCESS : Nat := 0
def MOVE_PENDING : Nat := 0xFF00

/-- the response type matching a request type (PS3.7: response command field = request | 0x8000) -/
def rspKindOf (k : Nat) : Nat := k + 0x8000

def verificationScp (rq : Rq) (ctx : Nat) (o : Outcome) : List Rsp :=
  [{ kind := 0x8030, ctx := ctx, msgIdRsp := rq.msgId, sopClass := rq.sopClass, status := statusOf PROCESSING_FAILURE o }]

def storageScp (rq : Rq) (ctx : Nat) (o : Outcome) : List Rsp :=
  [{ kind := 0x8001, ctx := ctx, msgIdRsp := rq.msgId, sopClass := rq.sopClass, sopInstance := rq.sopInstance,
     status := statusOf CANNOT_UNDERSTAND o }]

/-- C-FIND provider: one pending response per match (with the handler's status and data set), then one
final success without data set -/
def findScp (rq : Rq) (ctx : Nat) (ms : List (Bytes × Nat)) : List Rsp :=
  ms.map (fun m => { kind := 0x8020, ctx := ctx, msgIdRsp := rq.msgId, sopClass := rq.sopClass, status := m.2,
                     ds := some m.1 })
  ++ [{ kind := 0x8020, ctx := ctx, msgIdRsp := rq.msgId, sopClass := rq.sopClass, status := SUCCESS }]

def isFindPending (s : Nat) : Bool := s == 0xFF00 || s == 0xFF01

/-- C-FIND user: yields (data set, status) for each response up to and including the first non-pending -/
def findScu : List Rsp → List (Option Bytes × Nat)
  | [] => []
  | r :: rs => (r.ds, r.status) :: (if isFindPending r.status then findScu rs else [])

/-- per sub-operation outcome at the move destination -/
inductive SubOutcome | success | warning | failure
deriving DecidableEq, Repr

/-- C-MOVE provider loop: after each sub-operation a pending response with the running counters -/
def moveLoop (rq : Rq) (ctx nop : Nat) : List SubOutcome → Counters → List Rsp
  | [], _ => []
  | o :: os, c =>
    { kind := 0x8021, ctx := ctx, msgIdRsp := rq.msgId, sopClass := rq.sopClass, status := MOVE_PENDING,
      counters := some { remaining := nop - (c.completed + 1), completed := c.completed + 1,
                         failed := c.failed + (if o = .failure then 1 else 0),
                         warning := c.warning + (if o = .warning then 1 else 0) } }
    :: moveLoop rq ctx nop os { c with completed := c.completed + 1,
                                       failed := c.failed + (if o = .failure then 1 else 0),
                                       warning := c.warning + (if o = .warning then 1 else 0) }

def finalCounters : List SubOutcome → Counters → Counters
  | [], c => c
  | o :: os, c => finalCounters os { c with completed := c.completed + 1,
                                            failed := c.failed + (if o = .failure then 1 else 0),
                                            warning := c.warning + (if o = .warning then 1 else 0) }

/-- `qr_move_scp`: nothing to move → one final response; otherwise pending responses and one final -/
def moveScp (rq : Rq) (ctx nop : Nat) (outcomes : List SubOutcome) : List Rsp :=
  if nop = 0 then
    [{ kind := 0x8021, ctx := ctx, msgIdRsp := rq.msgId, sopClass := rq.sopClass, status := SUCCESS,
       counters := some ⟨0, 0, 0, 0⟩ }]
  else
    moveLoop rq ctx nop outcomes ⟨0, 0, 0, 0⟩ ++
      [{ kind := 0x8021, ctx := ctx, msgIdRsp := rq.msgId, sopClass := rq.sopClass, status := SUCCESS,
         counters := some { remaining := nop - (finalCounters outcomes ⟨0, 0, 0, 0⟩).completed,
                            completed := (finalCounters outcomes ⟨0, 0, 0, 0⟩).completed,
                            failed := (finalCounters outcomes ⟨0, 0, 0, 0⟩).failed,
                            warning := (finalCounters outcomes ⟨0, 0, 0, 0⟩).warning } }]

/-- the sub-operations the move provider performs on the sub-association: (instance index, message id) -/
def moveSubOps (n : Nat) : List (Nat × Nat) := (List.range n).map fun k => (k, k)

/-- what arrives at a C-GET user: C-STORE requests (on some context) interleaved with C-GET responses -/
inductive GetIn
  | store (rq : Rq) (ctx : Nat) (o : Outcome)
  | getRsp (status : Nat)
deriving Repr

def isGetPending (s : Nat) : Bool := s == 0xFF00

/-- `qr_get_scu`: (C-STORE responses sent, instances yielded) until the final C-GET response -/
def getScu : List GetIn → List Rsp × List Rq
  | [] => ([], [])
  | .getRsp s :: rest => if isGetPending s then getScu rest else ([], [])
  | .store rq ctx o :: rest =>
    ({ kind := 0x8001, ctx := ctx, msgIdRsp := rq.msgId, sopClass := rq.sopClass, sopInstance := rq.sopInstance,
       status := statusOf CANNOT_UNDERSTAND o } :: (getScu rest).1,
     (match o with | .status _ => [rq] | .handlingError => []) ++ (getScu rest).2)

/-- N-ACTION (storage commitment request): answered before the N-EVENT-REPORT goes out -/
def nActionScp (rq : Rq) (ctx : Nat) (o : Outcome) : List Rsp :=
  [{ kind := 0x8130, ctx := ctx, msgIdRsp := rq.msgId, sopClass := rq.sopClass, sopInstance := rq.sopInstance,
     status := match o with | .status _ => SUCCESS | .handlingError => PROCESSING_FAILURE }]

def nEventReportScp (rq : Rq) (ctx : Nat) (o : Outcome) : List Rsp :=
  [{ kind := 0x8100, ctx := ctx, msgIdRsp := rq.msgId, sopClass := rq.sopClass, sopInstance := rq.sopInstance,
     status := match o with | .status _ => SUCCESS | .handlingError => PROCESSING_FAILURE }]

end Dicom.Svc
