/-! Model of `pynetdicom2._get_storage_file`: the directory as a finite map from names to contents.
A name is (instance UID, k): `uid.dcm` for k = 0 and `uid.dcm_1_2_..._k` for k > 0 — the chain the
Python loop walks (`i += 1; full_name = '{}_{}'.format(full_name, i)`). Core Lean only. -/
namespace Dicom.Store

abbrev Name := String × Nat
abbrev Dir := List (Name × List UInt8)

def exists? (d : Dir) (n : Name) : Bool := d.any (fun e => e.1 == n)

/-- `while os.path.exists(full_name): i += 1; ...` — at most `fuel` probes -/
def pick (d : Dir) (uid : String) : Nat → Nat → Nat
  | 0, k => k
  | fuel + 1, k => if exists? d (uid, k) then pick d uid fuel (k + 1) else k

/-- the name a new file for `uid` gets -/
def freshName (d : Dir) (uid : String) : Name := (uid, pick d uid (d.length + 1) 0)

/-- one store: `open(full_name, 'w+b')`, header and data written -/
def store (d : Dir) (uid : String) (content : List UInt8) : Dir :=
  let n := freshName d uid
  if exists? d n then d.map (fun e => if e.1 == n then (n, content) else e)    -- 'w+b' on an existing file truncates it
  else d ++ [(n, content)]

def storeAll (d : Dir) : List (String × List UInt8) → Dir
  | [] => d
  | (u, c) :: rest => storeAll (store d u c) rest

/-- what happens to the directory between two association: the entity stores, something else (an archiver, an
operator) takes files away -/
inductive DirOp
  | store (uid : String) (content : List UInt8)
  | remove (n : Name)

def applyOp (d : Dir) : DirOp → Dir
  | .store u c => store d u c
  | .remove n => d.filter (fun e => !(e.1 == n))

def applyOps (d : Dir) : List DirOp → Dir
  | [] => d
  | op :: rest => applyOps (applyOp d op) rest

end Dicom.Store
