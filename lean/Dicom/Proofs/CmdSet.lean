import Dicom.Model.CmdSet
import Dicom.Spec.CmdSetGrammar
import Dicom.Proofs.Dimse
namespace Dicom

theorem leTag_trans : ∀ (a b c : Elem), leTag a b = true → leTag b c = true → leTag a c = true := by
  intro a b c h1 h2; simp only [leTag, decide_eq_true_eq] at *; omega

theorem leTag_total : ∀ (a b : Elem), (leTag a b || leTag b a) = true := by
  intro a b; simp only [leTag, Bool.or_eq_true, decide_eq_true_eq]; omega

@[simp] theorem Elem.enc_length (e : Elem) : e.enc.length = 8 + e.value.length := by
  simp [Elem.enc]; omega

theorem flatten_enc_length (l : List Elem) :
    ((l.map Elem.enc).flatten).length = (l.map (fun e => e.enc.length)).sum := by
  induction l with
  | nil => rfl
  | cons e es ih => simp only [List.map_cons, List.flatten_cons, List.length_append, ih, List.sum_cons]

theorem setLength_tags (es : List Elem) : (setLength es).map (·.tag) = es.map (·.tag) := by
  simp only [setLength, List.map_map]
  apply List.map_congr_left
  intro e _
  simp only [Function.comp]
  split <;> simp_all [glElem]

/-- number of elements with tag 0 -/
def countGl (es : List Elem) : Nat := (es.filter (fun e => e.tag = 0)).length

theorem countGl_le_one (es : List Elem) (hnd : (es.map (·.tag)).Nodup) : countGl es ≤ 1 := by
  induction es with
  | nil => simp [countGl]
  | cons e es ih =>
    simp only [List.map_cons, List.nodup_cons] at hnd
    have := ih hnd.2
    by_cases h0 : e.tag = 0
    · have hz : countGl es = 0 := by
        simp only [countGl, List.length_eq_zero_iff, List.filter_eq_nil_iff, decide_eq_true_eq]
        intro a ha h
        exact hnd.1 (by rw [h0, ← h]; exact List.mem_map.mpr ⟨a, ha, rfl⟩)
      simp only [countGl] at hz ⊢
      simp [h0, hz]
    · simp only [countGl] at this ⊢
      simp [h0]; exact this

theorem countGl_pos (es : List Elem) (h : ∃ e ∈ es, e.tag = 0) : 0 < countGl es := by
  obtain ⟨e, he, h0⟩ := h
  simp only [countGl]
  apply List.length_pos_iff.mpr
  intro hnil
  have := List.filter_eq_nil_iff.mp hnil e he
  simp [h0] at this

theorem total_setLength (es : List Elem) (n : Nat) :
    ((es.map fun e => if e.tag = 0 then glElem n else e).map (fun e => e.enc.length)).sum
      = countGl es * 12 + lengthOfOthers es := by
  induction es with
  | nil => simp [countGl, lengthOfOthers]
  | cons e es ih =>
    simp only [List.map_cons, List.sum_cons, ih]
    by_cases h0 : e.tag = 0
    · simp [h0, countGl, lengthOfOthers, glElem]; omega
    · simp [h0, countGl, lengthOfOthers]; omega

theorem mem_same_tag_eq {l : List Elem} (hnd : (l.map (·.tag)).Nodup) {a b : Elem} (ha : a ∈ l) (hb : b ∈ l)
    (h : a.tag = b.tag) : a = b := by
  induction l with
  | nil => simp at ha
  | cons x xs ih =>
    simp only [List.map_cons, List.nodup_cons] at hnd
    simp only [List.mem_cons] at ha hb
    rcases ha with rfl | ha <;> rcases hb with rfl | hb
    · rfl
    · exact absurd (List.mem_map.mpr ⟨b, hb, h.symm⟩) hnd.1
    · exact absurd (List.mem_map.mpr ⟨a, ha, h⟩) hnd.1
    · exact ih hnd.2 ha hb

theorem gl_mem_setLength (es : List Elem) (h : ∃ e ∈ es, e.tag = 0) :
    glElem (lengthOfOthers es) ∈ setLength es := by
  obtain ⟨e, he, h0⟩ := h
  simp only [setLength, List.mem_map]
  exact ⟨e, he, by simp [h0]⟩

/-- the sorted command set starts with the group length element -/
theorem sorted_head (es : List Elem) (hgl : ∃ e ∈ es, e.tag = 0) (hnd : (es.map (·.tag)).Nodup) :
    ∃ xs, (setLength es).mergeSort leTag = glElem (lengthOfOthers es) :: xs := by
  have hperm := List.mergeSort_perm (setLength es) leTag
  have hmem : glElem (lengthOfOthers es) ∈ (setLength es).mergeSort leTag :=
    hperm.symm.subset (gl_mem_setLength es hgl)
  have hnd' : (((setLength es).mergeSort leTag).map (·.tag)).Nodup := by
    have := (hperm.map (·.tag)).nodup_iff.mpr (by rw [setLength_tags]; exact hnd)
    exact this
  have hsorted := List.pairwise_mergeSort leTag_trans leTag_total (setLength es)
  cases hs : (setLength es).mergeSort leTag with
  | nil => rw [hs] at hmem; simp at hmem
  | cons x xs =>
    rw [hs] at hmem hnd' hsorted
    simp only [List.mem_cons] at hmem
    rcases hmem with hx | hx
    · exact ⟨xs, by rw [hx]⟩
    · have hle := (List.pairwise_cons.mp hsorted).1 _ hx
      have hx0 : x.tag = 0 := by
        have : x.tag ≤ 0 := by simpa [leTag, glElem] using hle
        omega
      have : x = glElem (lengthOfOthers es) :=
        mem_same_tag_eq hnd' (by simp) (by simp [hx]) (by simp [hx0, glElem])
      exact ⟨xs, by rw [this]⟩

/-! ### the strict reader reads back what was written -/

theorem readElems_enc (l : List Elem) (hwf : ∀ e ∈ l, e.WF) : ∀ f, l.length < f →
    Spec.readElems f ((l.map Elem.enc).flatten) = some (l.map fun e => (e.tag, e.value)) := by
  induction l with
  | nil => intro f hf; cases f with
    | zero => omega
    | succ f => simp [Spec.readElems]
  | cons e es ih =>
    intro f hf
    cases f with
    | zero => omega
    | succ f =>
      obtain ⟨ht, hl, hev⟩ := hwf e (by simp)
      have hg : e.tag / 65536 < 65536 := by omega
      have he : e.tag % 65536 < 65536 := by omega
      simp only [List.map_cons, List.flatten_cons, Elem.enc, List.append_assoc]
      have hne : le16 (e.tag / 65536) ++ (le16 (e.tag % 65536) ++ (le32 e.value.length ++ (e.value ++ (es.map Elem.enc).flatten))) ≠ [] := by
        simp [le16]
      unfold Spec.readElems
      simp only [hne, ↓reduceIte]
      · simp only [rdLe16_le16 _ hg, rdLe16_le16 _ he, rdLe32_le32 _ hl]
        have hlen : ¬ (e.value.length % 2 ≠ 0 ∨ (e.value ++ (es.map Elem.enc).flatten).length < e.value.length) := by
          simp; omega
        simp only [hlen, ↓reduceIte, List.drop_left, List.take_left]
        rw [ih (fun x hx => hwf x (by simp [hx])) f (by simp at hf; omega)]
        simp only [Option.map_some, Option.some.injEq, List.cons.injEq, Prod.mk.injEq, and_true]
        have := Nat.div_add_mod e.tag 65536
        omega

/-! ### the data-set flag under any operation history -/

theorem lookup_setElem_other (es : List Elem) (t t' : Nat) (v : Bytes) (h : t' ≠ t) :
    lookupTag (setElem es t v) t' = lookupTag es t' := by
  induction es with
  | nil => rfl
  | cons e es ih =>
    simp only [lookupTag, setElem, List.map_cons, List.find?_cons] at ih ⊢
    by_cases he : e.tag = t
    · have : ¬ (t = t') := fun x => h x.symm
      have h2 : ¬ (e.tag = t') := by rw [he]; exact this
      simp only [he, ↓reduceIte, this, decide_false, h2]
      exact ih
    · simp only [he, ↓reduceIte]
      by_cases h2 : e.tag = t'
      · simp [h2]
      · simp only [h2, decide_false]; exact ih

theorem lookup_setElem_same (es : List Elem) (t : Nat) (v : Bytes) (h : (lookupTag es t).isSome) :
    lookupTag (setElem es t v) t = some v := by
  induction es with
  | nil => simp [lookupTag] at h
  | cons e es ih =>
    simp only [lookupTag, setElem, List.map_cons, List.find?_cons] at ih h ⊢
    by_cases he : e.tag = t
    · simp [he]
    · simp only [he, ↓reduceIte, decide_false] at h ⊢
      exact ih h

theorem lookup_setLength (es : List Elem) (t : Nat) (h : t ≠ 0) :
    lookupTag (setLength es) t = lookupTag es t := by
  simp only [setLength]
  generalize lengthOfOthers es = n
  induction es with
  | nil => rfl
  | cons e es ih =>
    simp only [lookupTag, List.map_cons, List.find?_cons] at ih ⊢
    by_cases he : e.tag = 0
    · have h1 : ¬ (e.tag = t) := by rw [he]; exact fun x => h x.symm
      have h2 : ¬ ((glElem n).tag = t) := by simp [glElem]; exact fun x => h x.symm
      simp only [he, ↓reduceIte, h2, decide_false]
      rw [he] at h1
      simp only [h1, decide_false]
      exact ih
    · simp only [he, ↓reduceIte]
      by_cases h2 : e.tag = t
      · simp [h2]
      · simp only [h2, decide_false]; exact ih

end Dicom
