import Dicom.Model.Dimse
namespace Dicom



theorem chunks_concat (n : Nat) (hn : 0 < n) (s : Bytes) :
    ((chunks n s).map (·.1)).flatten = s := by
  fun_induction chunks n s with
  | case1 s h =>
    rcases h with h | h
    · omega
    · simp [h]
  | case2 s h ih => simp [ih]

theorem chunks_bound (n : Nat) (s : Bytes) : ∀ c ∈ chunks n s, c.1 ≠ [] ∧ c.1.length ≤ n := by
  fun_induction chunks n s with
  | case1 => simp
  | case2 s h ih =>
    intro c hc
    simp only [List.mem_cons] at hc
    rcases hc with hc | hc
    · subst hc
      have hs : s ≠ [] := fun e => h (Or.inr e)
      have hz : n ≠ 0 := fun e => h (Or.inl e)
      constructor
      · simp; exact ⟨hz, hs⟩
      · simp [List.length_take]; omega
    · exact ih c hc

/-- exactly the last chunk has has_next = false -/
theorem chunks_flags (n : Nat) (s : Bytes) :
    ∀ (pre : List (Bytes × Bool)) (c : Bytes × Bool) (post : List (Bytes × Bool)),
      chunks n s = pre ++ c :: post → (c.2 = false ↔ post = []) := by
  fun_induction chunks n s with
  | case1 => intro pre c post h; simp at h
  | case2 s h ih =>
    intro pre c post heq
    cases pre with
    | nil =>
      simp only [List.nil_append, List.cons.injEq] at heq
      obtain ⟨h1, h2⟩ := heq
      subst h1
      simp only [decide_eq_false_iff_not, Nat.not_lt]
      constructor
      · intro hle
        rw [← h2]; unfold chunks; simp [List.drop_eq_nil_of_le hle]
      · intro hp
        rw [hp] at h2
        unfold chunks at h2
        split at h2
        · rename_i h3
          rcases h3 with h3 | h3
          · exact absurd h3 (fun e => h (Or.inl e))
          · have := List.drop_eq_nil_iff.mp h3; exact this
        · simp at h2
    | cons p pre =>
      simp only [List.cons_append, List.cons.injEq] at heq
      exact ih pre c post heq.2

/-! ### PDVs and the message fragment stream -/

/-! ### DIMSEDecoder.process model -/

/-! ### shape of a fragment stream -/

theorem chunks_shape (n : Nat) (hn : 0 < n) (s : Bytes) (hs : s ≠ []) :
    ∃ (init : List Bytes) (l : Bytes),
      chunks n s = init.map (·, true) ++ [(l, false)] ∧ init.flatten ++ l = s ∧ l ≠ [] ∧
      (∀ c ∈ init, c ≠ []) := by
  fun_induction chunks n s with
  | case1 s h =>
    rcases h with h | h
    · omega
    · exact absurd h hs
  | case2 s h ih =>
    by_cases hd : s.drop n = []
    · refine ⟨[], s.take n, ?_, ?_, ?_, by simp⟩
      · have hle : s.length ≤ n := List.drop_eq_nil_iff.mp hd
        have : chunks n (s.drop n) = [] := by unfold chunks; simp [hd]
        simp [this]; omega
      · have hle : s.length ≤ n := List.drop_eq_nil_iff.mp hd
        simp [List.take_of_length_le hle]
      · simp; exact ⟨by omega, hs⟩
    · obtain ⟨init, l, h1, h2, h3, h4⟩ := ih hd
      refine ⟨s.take n :: init, l, ?_, ?_, h3, ?_⟩
      · have : n < s.length := by
          have := mt List.drop_eq_nil_iff.mpr hd; omega
        simp [h1, this]
      · simp [List.append_assoc, h2]
      · intro c hc
        simp only [List.mem_cons] at hc
        rcases hc with hc | hc
        · subst hc; simp; exact ⟨by omega, hs⟩
        · exact h4 c hc

theorem flat_normal_cmd (noDs) (d : Dec) (pc : Nat) (init : List Bytes) (rest : List Frag) :
    Dec.flat noDs d (init.map (fun b => ⟨pc, 1, b⟩) ++ rest) =
      (if init = [] then Dec.flat noDs d rest
       else Dec.flat noDs { d with pc := pc, cmd := d.cmd ++ init.flatten } rest) := by
  induction init generalizing d with
  | nil => simp
  | cons b bs ih =>
    simp only [List.map_cons, List.cons_append, Dec.flat, Dec.pdv]
    simp only [true_or, ↓reduceIte, Nat.succ_ne_self, Nat.reduceEqDiff]
    rw [ih]
    by_cases hb : bs = []
    · simp [hb]
    · simp [hb, List.append_assoc]


theorem flat_step0 (noDs) (d : Dec) (pc : Nat) (b : Bytes) (xs : List Frag) :
    Dec.flat noDs d (⟨pc, 0, b⟩ :: xs) = Dec.flat noDs { d with pc := pc, data := d.data ++ b } xs := by
  simp [Dec.flat, Dec.pdv]

theorem flat_step3 (noDs) (d : Dec) (pc : Nat) (b : Bytes) (xs : List Frag) :
    Dec.flat noDs d (⟨pc, 3, b⟩ :: xs) =
      if noDs (d.cmd ++ b) = true ∨ d.dataDone = true
      then some ({ d with pc := pc, cmd := d.cmd ++ b, cmdDone := true, receiving := false }, xs)
      else Dec.flat noDs { d with pc := pc, cmd := d.cmd ++ b, cmdDone := true } xs := by
  by_cases h : noDs (d.cmd ++ b) = true ∨ d.dataDone = true
  · simp [Dec.flat, Dec.pdv, h]
  · simp [Dec.flat, Dec.pdv, h]

theorem flat_step2 (noDs) (d : Dec) (pc : Nat) (b : Bytes) (xs : List Frag) :
    Dec.flat noDs d (⟨pc, 2, b⟩ :: xs) =
      if d.cmdDone = true
      then some ({ d with pc := pc, data := d.data ++ b, dataDone := true, receiving := false }, xs)
      else Dec.flat noDs { d with pc := pc, data := d.data ++ b, dataDone := true } xs := by
  by_cases h : d.cmdDone = true
  · simp [Dec.flat, Dec.pdv, h]
  · simp [Dec.flat, Dec.pdv, h]

theorem flat_normal_data (noDs) (d : Dec) (pc : Nat) (init : List Bytes) (rest : List Frag) :
    Dec.flat noDs d (init.map (fun b => ⟨pc, 0, b⟩) ++ rest) =
      (if init = [] then Dec.flat noDs d rest
       else Dec.flat noDs { d with pc := pc, data := d.data ++ init.flatten } rest) := by
  induction init generalizing d with
  | nil => simp
  | cons b bs ih =>
    simp only [List.map_cons, List.cons_append]
    rw [flat_step0, ih]
    by_cases hb : bs = []
    · simp [hb]
    · simp [hb, List.append_assoc]

theorem fragsOf_shape (pc nrm lst n : Nat) (hn : 0 < n) (s : Bytes) (hs : s ≠ []) :
    ∃ (init : List Bytes) (l : Bytes),
      fragsOf pc nrm lst n s = init.map (fun b => ⟨pc, nrm, b⟩) ++ [⟨pc, lst, l⟩] ∧
      init.flatten ++ l = s := by
  obtain ⟨init, l, h1, h2, _, _⟩ := chunks_shape n hn s hs
  refine ⟨init, l, ?_, h2⟩
  simp [fragsOf, h1, Function.comp_def]

/-- data part of the stream, entered with the command set complete -/
theorem flat_data_part (noDs) (d : Dec) (pc : Nat) (idt : List Bytes) (ld : Bytes) (hcd : d.cmdDone = true) :
    ∃ df, Dec.flat noDs d (idt.map (fun b => ⟨pc, 0, b⟩) ++ [⟨pc, 2, ld⟩]) = some (df, []) ∧
      df.receiving = false ∧ df.cmd = d.cmd ∧ df.data = d.data ++ (idt.flatten ++ ld) ∧ df.pc = pc := by
  rw [flat_normal_data]
  by_cases hid : idt = []
  · subst hid
    simp only [↓reduceIte, flat_step2, hcd]
    exact ⟨_, rfl, rfl, rfl, by simp, rfl⟩
  · simp only [hid, ↓reduceIte, flat_step2, hcd]
    exact ⟨_, rfl, rfl, rfl, by simp [List.append_assoc], rfl⟩

theorem flat_encodeMsg (noDs : Bytes → Bool) (pc maxLen : Nat) (cmd : Bytes) (data : Option Bytes)
    (hm : 7 ≤ effMax maxLen) (hc : cmd ≠ []) (hdne : ∀ d, data = some d → d ≠ [])
    (hd : noDs cmd = data.isNone) :
    ∃ df, Dec.flat noDs {} (encodeMsg pc maxLen cmd data) = some (df, []) ∧
      df.receiving = false ∧ df.cmd = cmd ∧ df.data = data.getD [] ∧ df.pc = pc := by
  have hn : 0 < effMax maxLen - 6 := by omega
  obtain ⟨ic, lc, hfc, hcc⟩ := fragsOf_shape pc 1 3 (effMax maxLen - 6) hn cmd hc
  -- state after the normal command fragments
  have hcmd : ∀ rest, Dec.flat noDs {} (ic.map (fun b => ⟨pc, 1, b⟩) ++ ⟨pc, 3, lc⟩ :: rest) =
      if noDs cmd = true then some ({ pc := pc, cmd := cmd, cmdDone := true, receiving := false }, rest)
      else Dec.flat noDs { pc := pc, cmd := cmd, cmdDone := true } rest := by
    intro rest
    rw [flat_normal_cmd]
    by_cases hic : ic = []
    · subst hic
      simp only [List.flatten_nil, List.nil_append] at hcc
      subst hcc
      simp [flat_step3]
    · simp only [hic, ↓reduceIte, flat_step3]
      simp [hcc]
  cases data with
  | none =>
    simp only [Option.isNone_none] at hd
    simp only [encodeMsg, hfc, List.append_nil]
    rw [hcmd []]
    simp only [hd, ↓reduceIte]
    exact ⟨_, rfl, rfl, rfl, rfl, rfl⟩
  | some dd =>
    have hdd : dd ≠ [] := hdne dd rfl
    obtain ⟨idt, ld, hfd, hdc⟩ := fragsOf_shape pc 0 2 (effMax maxLen - 6) hn dd hdd
    simp only [Option.isNone_some] at hd
    simp only [encodeMsg, hfc, hfd, List.append_assoc, List.cons_append, List.nil_append]
    rw [hcmd]
    simp only [hd, Bool.false_eq_true, ↓reduceIte]
    obtain ⟨df, h1, h2, h3, h4, h5⟩ :=
      flat_data_part noDs { pc := pc, cmd := cmd, cmdDone := true } pc idt ld rfl
    exact ⟨df, h1, h2, h3, by simp [h4, hdc], h5⟩

/-! ### C06 statements on the PDV stream -/

theorem fragsOf_bound (pc nrm lst n : Nat) (s : Bytes) :
    ∀ v ∈ fragsOf pc nrm lst n s, v.body ≠ [] ∧ v.body.length ≤ n ∧ v.pc = pc ∧ (v.mch = nrm ∨ v.mch = lst) := by
  intro v hv
  simp only [fragsOf, List.mem_map] at hv
  obtain ⟨c, hc, rfl⟩ := hv
  have := chunks_bound n s c hc
  refine ⟨this.1, this.2, rfl, ?_⟩
  cases c.2 <;> simp

theorem fragsOf_content (pc nrm lst n : Nat) (hn : 0 < n) (s : Bytes) :
    ((fragsOf pc nrm lst n s).map (·.body)).flatten = s := by
  have := chunks_concat n hn s
  simpa [fragsOf, Function.comp_def] using this

theorem encodeMsg_size_aux (pc maxLen : Nat) (cmd : Bytes) (data : Option Bytes) (hm : 7 ≤ effMax maxLen) :
    ∀ v ∈ encodeMsg pc maxLen cmd data, 6 + v.body.length ≤ effMax maxLen ∧ v.body ≠ [] ∧ v.pc = pc := by
  intro v hv
  simp only [encodeMsg, List.mem_append] at hv
  rcases hv with hv | hv
  · have := fragsOf_bound pc 1 3 (effMax maxLen - 6) cmd v hv
    exact ⟨by omega, this.1, this.2.2.1⟩
  · cases data with
    | none => simp at hv
    | some d =>
      have := fragsOf_bound pc 0 2 (effMax maxLen - 6) d v hv
      exact ⟨by omega, this.1, this.2.2.1⟩

/-! ### from the PDV stream to any grouping into P-DATA-TF PDUs -/

theorem pdv_break_iff (noDs) (d d' : Dec) (v : Frag) (br : Bool) (hr : d.receiving = true)
    (h : d.pdv noDs v = some (d', br)) : (br = true ↔ d'.receiving = false) ∧ (br = false → d'.receiving = true) := by
  unfold Dec.pdv at h
  repeat' split at h
  all_goals first
    | (simp only [Option.some.injEq, Prod.mk.injEq] at h; obtain ⟨rfl, rfl⟩ := h; simp [hr])
    | simp at h

theorem flat_append (noDs) (xs ys : List Frag) : ∀ (d : Dec), d.receiving = true →
    Dec.flat noDs d (xs ++ ys) =
      match Dec.flat noDs d xs with
      | none => none
      | some (d1, r) => if d1.receiving then Dec.flat noDs d1 ys else some (d1, r ++ ys) := by
  induction xs with
  | nil => intro d hr; simp [Dec.flat, hr]
  | cons v vs ih =>
    intro d hr
    simp only [List.cons_append, Dec.flat]
    cases hp : d.pdv noDs v with
    | none => simp
    | some res =>
      obtain ⟨d', br⟩ := res
      have hb := pdv_break_iff noDs d d' v br hr hp
      cases br with
      | true => simp [hb.1.mp rfl]
      | false => simp only []; exact ih d' (hb.2 rfl)

theorem pdu_eq_flat (noDs) (p : List Frag) : ∀ d : Dec, Dec.pdu noDs d p = (Dec.flat noDs d p).map (·.1) := by
  induction p with
  | nil => intro d; simp [Dec.pdu, Dec.flat]
  | cons v vs ih =>
    intro d
    simp only [Dec.pdu, Dec.flat]
    cases hp : d.pdv noDs v with
    | none => simp
    | some res =>
      obtain ⟨d', br⟩ := res
      cases br <;> simp [ih]

theorem flatten_nil_of_nonempty {α} (g : List (List α)) (hne : ∀ p ∈ g, p ≠ []) (h : g.flatten = []) : g = [] := by
  cases g with
  | nil => rfl
  | cons p ps =>
    simp only [List.flatten_cons, List.append_eq_nil_iff] at h
    exact absurd h.1 (hne p (by simp))

theorem run_of_flat (noDs) (g : List (List Frag)) : ∀ (d df : Dec), d.receiving = true →
    (∀ p ∈ g, p ≠ []) → Dec.flat noDs d g.flatten = some (df, []) → df.receiving = false →
    Dec.run noDs d g = some (df, g.length) := by
  induction g with
  | nil =>
    intro d df hr _ hf hdf
    simp [Dec.flat] at hf
    rw [← hf] at hdf; simp [hr] at hdf
  | cons p ps ih =>
    intro d df hr hne hf hdf
    simp only [List.flatten_cons] at hf
    rw [flat_append noDs p ps.flatten d hr] at hf
    simp only [Dec.run, pdu_eq_flat]
    cases hp : Dec.flat noDs d p with
    | none => simp [hp] at hf
    | some res =>
      obtain ⟨d1, r⟩ := res
      simp only [hp] at hf
      simp only [Option.map_some]
      by_cases h1 : d1.receiving = true
      · simp only [h1, ↓reduceIte] at hf ⊢
        rw [ih d1 df h1 (fun q hq => hne q (by simp [hq])) hf hdf]
        simp
      · have h1' : d1.receiving = false := by simpa using h1
        simp only [h1', Bool.false_eq_true, ↓reduceIte, Option.some.injEq, Prod.mk.injEq,
          List.append_eq_nil_iff] at hf ⊢
        obtain ⟨rfl, _, hps⟩ := hf
        have := flatten_nil_of_nonempty ps (fun q hq => hne q (by simp [hq])) hps
        subst this
        simp

theorem reassembly_exact_aux (noDs : Bytes → Bool) (pc maxLen : Nat) (cmd : Bytes) (data : Option Bytes)
    (g : List (List Frag)) (hg : g.flatten = encodeMsg pc maxLen cmd data) (hne : ∀ p ∈ g, p ≠ [])
    (hm : 7 ≤ effMax maxLen) (hc : cmd ≠ []) (hdne : ∀ d, data = some d → d ≠ [])
    (hd : noDs cmd = data.isNone) :
    ∃ df, Dec.run noDs {} g = some (df, g.length) ∧ df.receiving = false ∧
      df.cmd = cmd ∧ df.data = data.getD [] ∧ df.pc = pc := by
  obtain ⟨df, hf, h1, h2, h3, h4⟩ := flat_encodeMsg noDs pc maxLen cmd data hm hc hdne hd
  refine ⟨df, ?_, h1, h2, h3, h4⟩
  exact run_of_flat noDs g {} df rfl hne (by rw [hg]; exact hf) h1

-- non-vacuity: three PDVs grouped [2, 1]
example : ∃ df, Dec.run (fun _ => false) {} [[⟨3, 1, [1, 2]⟩, ⟨3, 3, [3]⟩], [⟨3, 2, [9]⟩]] = some (df, 2)
    ∧ df.cmd = [1, 2, 3] ∧ df.data = [9] := ⟨_, rfl, rfl, rfl⟩

theorem chunksFile_eq (n : Nat) (s : Bytes) : chunksFile n s = chunks n s := by
  fun_induction chunks n s with
  | case1 s h => unfold chunksFile; simp [h]
  | case2 s h ih =>
    unfold chunksFile
    simp only [h, ↓reduceDIte, ih, List.cons.injEq, Prod.mk.injEq, true_and, and_true]
    by_cases hl : n < s.length
    · have : (s.drop n) ≠ [] := by
        intro e; have := List.drop_eq_nil_iff.mp e; omega
      cases hd : s.drop n with
      | nil => exact absurd hd this
      | cons a r => simp [hl]
    · have : s.drop n = [] := List.drop_eq_nil_iff.mpr (by omega)
      simp [this, hl]

/-- usable maximum lengths: 0 (no limit) or at least 7 (room for one payload byte) -/
def usableMax (maxLen : Nat) : Prop := maxLen = 0 ∨ 7 ≤ maxLen

/-- the library default leaves room for a payload byte (checked against the value regenerated from the code) -/
theorem default_ge_7 : 7 ≤ Dicom.Generated.defaultMaxPdu := by decide

theorem effMax_ge_7 {maxLen : Nat} (h : usableMax maxLen) : 7 ≤ effMax maxLen := by
  unfold effMax; rcases h with h | h
  · simp only [h, ↓reduceIte]; exact default_ge_7
  · split
    · exact default_ge_7
    · exact h

end Dicom
