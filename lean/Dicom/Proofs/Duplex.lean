import Dicom.Proofs.Provider2
/-! Full duplex: a PDU arrives and the local user issues a primitive before the same pass.  The loop polls
its three sources lazily (`a or b or c`), so one poll raises at most one event - the single `primitive`
slot belongs to it - and takes at most the head of the user's queue. -/
namespace Dicom.Prov
open Dicom.UL

theorem checkOutgoing_one (p : P) :
    ((checkOutgoing p).2 = false ∧ (checkOutgoing p).1 = p) ∨
    ((checkOutgoing p).2 = true ∧ ∃ e, (checkOutgoing p).1.evq = p.evq ++ [e] ∧
      ((checkOutgoing p).1.fromUser = p.fromUser ∨ ∃ x, p.fromUser = x :: (checkOutgoing p).1.fromUser)) := by
  unfold checkOutgoing
  split
  · exact Or.inr ⟨rfl, _, rfl, Or.inl rfl⟩
  · split
    · exact Or.inl ⟨rfl, rfl⟩
    · rename_i n r h
      exact Or.inr ⟨rfl, _, rfl, Or.inr ⟨_, h⟩⟩
    · rename_i t r _ h
      exact Or.inr ⟨rfl, _, rfl, Or.inr ⟨_, h⟩⟩

theorem checkTimer_one (p : P) :
    ((checkTimer p).1.evq = p.evq ∨ ∃ e, (checkTimer p).1.evq = p.evq ++ [e]) ∧ (checkTimer p).1.fromUser = p.fromUser := by
  unfold checkTimer
  split
  · exact ⟨Or.inr ⟨_, rfl⟩, rfl⟩
  · exact ⟨Or.inl rfl, rfl⟩

theorem pollRest_one (p : P) :
    ((pollRest p).evq = p.evq ∨ ∃ e, (pollRest p).evq = p.evq ++ [e]) ∧
    ((pollRest p).fromUser = p.fromUser ∨ ∃ x, p.fromUser = x :: (pollRest p).fromUser) := by
  unfold pollRest
  rcases checkOutgoing_one p with ⟨h2, h1⟩ | ⟨h2, e, he, hu⟩
  · have : checkOutgoing p = (p, false) := by
      cases hc : checkOutgoing p with
      | mk a b => rw [hc] at h1 h2; simp at h1 h2; subst h1; subst h2; rfl
    rw [this]
    exact ⟨(checkTimer_one p).1, Or.inl (checkTimer_one p).2⟩
  · cases hc : checkOutgoing p with
    | mk a b =>
      rw [hc] at h2 he hu
      simp only at h2 he hu
      subst h2
      exact ⟨Or.inr ⟨e, he⟩, hu⟩

theorem processIncoming_one (p p' : P) (h : processIncoming p = some p') :
    (∃ e, p'.evq = p.evq ++ [e]) ∧ p'.fromUser = p.fromUser := by
  unfold processIncoming at h
  split at h
  · simp at h
  · simp only [Option.some.injEq] at h; subst h; exact ⟨⟨_, rfl⟩, rfl⟩

/-- **one poll, at most one event** (and at most the head of the user's queue is taken): what the single
`primitive` slot of the loop relies on -/
theorem poll_one_event (p : P) :
    ((poll p).evq = p.evq ∨ ∃ e, (poll p).evq = p.evq ++ [e]) ∧
    ((poll p).fromUser = p.fromUser ∨ ∃ x, p.fromUser = x :: (poll p).fromUser) := by
  unfold poll checkNetwork
  by_cases hs : (!p.sock) = true
  · simp only [hs, ↓reduceIte]; exact pollRest_one p
  · simp only [hs, Bool.false_eq_true, ↓reduceIte]
    by_cases h4 : p.st = .s4
    · simp only [h4, ↓reduceIte]; exact ⟨Or.inr ⟨_, rfl⟩, Or.inl trivial⟩
    · simp only [h4, ↓reduceIte]
      cases hpi : processIncoming p with
      | some p' =>
        simp only
        have := processIncoming_one p p' hpi
        exact ⟨Or.inr this.1, Or.inl this.2⟩
      | none =>
        simp only
        cases hin : p.inbox with
        | nil => simp only; exact pollRest_one p
        | cons seg rest =>
          cases seg with
          | none => simp only; exact ⟨Or.inr ⟨_, rfl⟩, Or.inl trivial⟩
          | some toks =>
            simp only
            cases hpi2 : processIncoming { p with raw := p.raw ++ toks, inbox := rest } with
            | some p' =>
              simp only
              have := processIncoming_one _ p' hpi2
              exact ⟨Or.inr this.1, Or.inl this.2⟩
            | none =>
              simp only
              exact pollRest_one { p with raw := p.raw ++ toks, inbox := rest }

/-- the user's primitives are taken in the order they were issued, none is skipped, whatever arrives from the
network meanwhile: after a pass the queue is what it was, plus what was issued, minus at most its head -/
theorem user_queue_fifo (p : P) (t : Tick) (hc : p.crashed = false) :
    (iter p t).1.fromUser = p.fromUser ++ t.enq ∨
    ∃ x, p.fromUser ++ t.enq = x :: (iter p t).1.fromUser := by
  have hdisp : ∀ q sf, (dispatch q sf).1.fromUser = q.fromUser := by
    intro q sf
    unfold dispatch
    split
    · rfl
    · split
      · rfl
      · split
        · rw [(dropGen_fields _).2.2.2.2.2]
        · rw [(dropGen_fields _).2.2.2.2.2, (act_frame _ _).1]
  unfold iter
  simp only [hc, Bool.false_eq_true, ↓reduceIte]
  rw [hdisp]
  unfold prePoll
  split
  · have := (poll_one_event (arrive p t)).2
    rw [(arrive_fields p t).2.2.2.2.2] at this
    exact this
  · exact Or.inl (arrive_fields p t).2.2.2.2.2

end Dicom.Prov
