import Dicom.Model.Framing
namespace Dicom

theorem len32_append (a b : Bytes) (h : 6 ≤ a.length) : len32 (a ++ b) = len32 a := by
  match a, h with
  | _ :: _ :: _ :: _ :: _ :: _ :: _, _ => simp [len32]

theorem frame1_append {a p r} (b : Bytes) (h : frame1 a = some (p, r)) :
    frame1 (a ++ b) = some (p, r ++ b) := by
  unfold frame1 at h ⊢
  split at h
  · simp at h
  · rename_i h6
    split at h
    · simp at h
    · rename_i hfull
      simp only [Option.some.injEq, Prod.mk.injEq] at h
      have h6' : 6 ≤ a.length := by omega
      have hl : len32 (a ++ b) = len32 a := len32_append a b h6'
      have : ¬ (a ++ b).length < 6 := by simp; omega
      simp only [this, ↓reduceIte, hl]
      have : ¬ (a ++ b).length < len32 a + 6 := by simp; omega
      simp only [this, ↓reduceIte, Option.some.injEq, Prod.mk.injEq]
      have hle : len32 a + 6 ≤ a.length := by omega
      constructor
      · rw [List.take_append_of_le_length hle]; exact h.1
      · rw [List.drop_append_of_le_length hle, h.2]

theorem frames_none {a : Bytes} (h : frame1 a = none) : frames a = ([], a) := by
  rw [frames]; split <;> simp_all

theorem frames_some {a p r : Bytes} (h : frame1 a = some (p, r)) :
    frames a = (p :: (frames r).1, (frames r).2) := by
  rw [frames]; split
  · simp_all
  · rename_i p' r' h'
    rw [h] at h'
    simp only [Option.some.injEq, Prod.mk.injEq] at h'
    obtain ⟨rfl, rfl⟩ := h'
    rfl

/-- key lemma: draining `a ++ b` = draining `a`, then draining (tail ++ b) -/
theorem frames_append (a b : Bytes) :
    frames (a ++ b) = ((frames a).1 ++ (frames ((frames a).2 ++ b)).1, (frames ((frames a).2 ++ b)).2) := by
  induction h : a.length using Nat.strongRecOn generalizing a with
  | _ n ih =>
    cases hf : frame1 a with
    | none => simp [frames_none hf]
    | some pr =>
      obtain ⟨p, r⟩ := pr
      have h' := frame1_append b hf
      rw [frames_some h', frames_some hf]
      have hlt := frame1_drop_lt hf
      rw [ih r.length (by omega) r rfl]
      simp

theorem frames_idem (a : Bytes) : frames (frames a).2 = ([], (frames a).2) := by
  induction h : a.length using Nat.strongRecOn generalizing a with
  | _ n ih =>
    cases hf : frame1 a with
    | none => rw [frames_none hf]; exact frames_none hf
    | some pr =>
      obtain ⟨p, r⟩ := pr
      rw [frames_some hf]
      exact ih r.length (by have := frame1_drop_lt hf; omega) r rfl

theorem frame1_eq {a p r : Bytes} (h : frame1 a = some (p, r)) : p ++ r = a := by
  unfold frame1 at h
  split at h
  · simp at h
  · split at h
    · simp at h
    · simp only [Option.some.injEq, Prod.mk.injEq] at h
      rw [← h.1, ← h.2]; exact List.take_append_drop _ _

theorem segmentation_independent_gen (segs : List Bytes) :
    ∀ (out : List Bytes) (buf : Bytes), frames buf = ([], buf) →
      segs.foldl feed (out, buf) =
        (out ++ (frames (buf ++ segs.flatten)).1, (frames (buf ++ segs.flatten)).2) := by
  induction segs with
  | nil => intro out buf h; simp [h]
  | cons s ss ih =>
    intro out buf _
    simp only [List.foldl_cons, feed, List.flatten_cons]
    rw [ih _ _ (frames_idem (buf ++ s))]
    rw [← List.append_assoc buf s, frames_append (buf ++ s)]
    simp [List.append_assoc]

end Dicom
