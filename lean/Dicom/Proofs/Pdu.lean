import Dicom.Model.Pdu
/-! Round-trip lemmas for the PDU codec model. -/
namespace Dicom

/-! ### text -/

def ascii (l : Bytes) : Prop := ∀ b ∈ l, b.toNat < 128

theorem validUtf8_ascii (l : Bytes) (h : ascii l) : validUtf8 l = true := by
  induction l with
  | nil => rfl
  | cons a r ih =>
    have ha := h a (by simp)
    unfold validUtf8
    simp only [ha, ↓reduceIte]
    exact ih (fun b hb => h b (by simp [hb]))

theorem decodeText_ascii (l : Bytes) (h : ascii l) : decodeText l = some l := by
  simp [decodeText, validUtf8_ascii l h]

/-- well-formed UTF-8: the text fields the library keeps as encoded bytes (User Identity) may carry any of it -/
def utf8 (l : Bytes) : Prop := validUtf8 l = true

theorem decodeText_utf8 (l : Bytes) (h : utf8 l) : decodeText l = some l := by
  simp [decodeText, utf8] at *; exact h

theorem utf8_of_ascii (l : Bytes) (h : ascii l) : utf8 l := validUtf8_ascii l h

/-- no leading and no trailing byte satisfying `p` -/
def trimmed (p : UInt8 → Bool) (l : Bytes) : Prop := stripLeft p l = l ∧ stripLeft p l.reverse = l.reverse

theorem strip_trimmed (p : UInt8 → Bool) (l : Bytes) (h : trimmed p l) : strip p l = l := by
  simp [strip, h.1, h.2]

/-- a UID as it survives `uid.UID(...)`: ASCII, no white space at either end -/
def uidOk (u : Bytes) : Prop := ascii u ∧ trimmed isWs u

theorem decodeUid_ok (u : Bytes) (h : uidOk u) : decodeUid u = some u := by
  simp [decodeUid, decodeText_ascii u h.1, strip_trimmed isWs u h.2]

theorem stripLeft_replicate (p : UInt8 → Bool) (z : UInt8) (hz : p z = true) (k : Nat) (r : Bytes) :
    stripLeft p (List.replicate k z ++ r) = stripLeft p r := by
  induction k with
  | zero => simp
  | succ k ih => simp [List.replicate_succ, stripLeft, hz, ih]

theorem stripLeft_append_of_fix (p : UInt8 → Bool) (l r : Bytes) (hl : l ≠ []) (h : stripLeft p l = l) :
    stripLeft p (l ++ r) = l ++ r := by
  cases l with
  | nil => exact absurd rfl hl
  | cons a t =>
    simp only [stripLeft, List.cons_append] at h ⊢
    split at h
    · -- p a: stripLeft t = a :: t is impossible by length
      rename_i hp
      have : ∀ (x : Bytes), (stripLeft p x).length ≤ x.length := by
        intro x; induction x with
        | nil => simp [stripLeft]
        | cons b y ih => simp only [stripLeft]; split <;> simp <;> omega
      have := this t
      rw [h] at this; simp at this; omega
    · rename_i hp; simp [hp]

/-- an AE title as it survives NUL padding and stripping: at most 16 bytes, ASCII, no NUL at the ends -/
def titleOk (t : Bytes) : Prop := t.length ≤ 16 ∧ ascii t ∧ trimmed (· == 0) t

theorem pad16_eq (t : Bytes) (h : t.length ≤ 16) : pad16 t = t ++ List.replicate (16 - t.length) 0 := by
  unfold pad16
  rw [List.take_append]
  have : List.take 16 t = t := List.take_of_length_le h
  rw [this, List.take_replicate]
  congr 2
  omega

theorem pad16_length (t : Bytes) : (pad16 t).length = 16 := by
  simp [pad16, List.length_take]

theorem decodeTitle_pad16 (t : Bytes) (h : titleOk t) : decodeTitle (pad16 t) = some t := by
  obtain ⟨hl, ha, h1, h2⟩ := h
  have hs : strip (· == 0) (pad16 t) = t := by
    rw [pad16_eq t hl]
    unfold strip
    by_cases ht : t = []
    · subst ht
      simp only [List.nil_append, List.length_nil]
      have := stripLeft_replicate (· == 0) 0 (by decide) (16 - 0) []
      simp only [List.append_nil] at this
      rw [this]; simp [stripLeft]
    · rw [stripLeft_append_of_fix _ t _ ht h1]
      simp only [List.reverse_append, List.reverse_replicate]
      rw [stripLeft_replicate _ 0 (by decide)]
      rw [h2]; simp
  simp [decodeTitle, hs, decodeText_ascii t ha]

/-! ### headers -/

theorem rdHdr4_enc (t r n : Nat) (ht : t < 256) (hr : r < 256) (hn : n < 65536) (rest : Bytes) :
    rdHdr4 (u8 t ++ (u8 r ++ (be16 n ++ rest))) = some (t, r, n, rest) := by
  simp [rdHdr4, u8, be16, UInt8.toNat_ofNat']
  omega

theorem rd8_u8 (n : Nat) (h : n < 256) (r : Bytes) : rd8 (u8 n ++ r) = some (n, r) := by
  simp [rd8, u8, UInt8.toNat_ofNat']; omega

theorem u8_toNat (n : Nat) (h : n < 256) : (UInt8.ofNat n).toNat = n := by
  simp [UInt8.toNat_ofNat']; omega

/-! ### sub-items -/

def knownSubType (t : Nat) : Prop :=
  t = 0x51 ∨ t = 0x52 ∨ t = 0x53 ∨ t = 0x54 ∨ t = 0x55 ∨ t = 0x56 ∨ t = 0x58 ∨ t = 0x59

def SubItem.WF : SubItem → Prop
  | .maxLen rsv il ml => rsv < 256 ∧ il < 65536 ∧ ml < 4294967296
  | .implClass rsv uid => rsv < 256 ∧ uidOk uid ∧ uid.length < 65536
  | .asyncOps rsv il i p => rsv < 256 ∧ il < 65536 ∧ i < 65536 ∧ p < 65536
  | .role rsv uid scu scp => rsv < 256 ∧ uidOk uid ∧ uid.length + 4 < 65536 ∧ scu < 256 ∧ scp < 256
  | .implVersion rsv n => rsv < 256 ∧ ascii n ∧ n.length < 65536
  | .extNeg rsv uid info => rsv < 256 ∧ uidOk uid ∧ 2 + uid.length + info.length < 65536
  | .userId rsv ty pr p s => rsv < 256 ∧ ty < 256 ∧ pr < 256 ∧ utf8 p ∧ utf8 s ∧ 6 + p.length + s.length < 65536
  | .userIdAc rsv r => rsv < 256 ∧ utf8 r ∧ 2 + r.length < 65536
  | .generic ty rsv d => ty < 256 ∧ ty ≠ 0 ∧ ¬ knownSubType ty ∧ rsv < 256 ∧ d.length < 65536

theorem decSub_enc (s : SubItem) (h : s.WF) (rest : Bytes) : decSub (s.enc ++ rest) = some (s, rest) := by
  cases s with
  | maxLen rsv il ml =>
    obtain ⟨h1, h2, h3⟩ := h
    have hh := rdHdr4_enc 0x51 rsv il (by omega) h1 h2 (be32 ml ++ rest)
    simp only [SubItem.enc, List.append_assoc]
    unfold decSub
    simp only [u8, List.cons_append, List.nil_append] at hh ⊢
    simp only [hh]
    simp [rd32_be32 ml h3]
  | implClass rsv uid =>
    obtain ⟨h1, h2, h3⟩ := h
    have hh := rdHdr4_enc 0x52 rsv uid.length (by omega) h1 h3 (uid ++ rest)
    simp only [SubItem.enc, List.append_assoc]
    unfold decSub
    simp only [u8, List.cons_append, List.nil_append] at hh ⊢
    simp only [hh]
    simp [decodeUid_ok uid h2]
  | asyncOps rsv il i p =>
    obtain ⟨h1, h2, h3, h4⟩ := h
    have hh := rdHdr4_enc 0x53 rsv il (by omega) h1 h2 (be16 i ++ (be16 p ++ rest))
    simp only [SubItem.enc, List.append_assoc]
    unfold decSub
    simp only [u8, List.cons_append, List.nil_append] at hh ⊢
    simp only [hh]
    simp [rd16_be16 i h3, rd16_be16 p h4]
  | role rsv uid scu scp =>
    obtain ⟨h1, h2, h3, h4, h5⟩ := h
    have hh := rdHdr4_enc 0x54 rsv (4 + uid.length) (by omega) h1 (by omega)
      (be16 uid.length ++ (uid ++ (u8 scu ++ (u8 scp ++ rest))))
    simp only [SubItem.enc, List.append_assoc]
    unfold decSub
    simp only [u8, List.cons_append, List.nil_append] at hh ⊢
    simp only [hh]
    have := rd8_u8 scu h4 (u8 scp ++ rest)
    have h6 := rd8_u8 scp h5 rest
    simp only [u8, List.cons_append, List.nil_append] at this h6
    simp [rd16_be16 uid.length (by omega), decodeUid_ok uid h2, this, h6]
  | implVersion rsv n =>
    obtain ⟨h1, h2, h3⟩ := h
    have hh := rdHdr4_enc 0x55 rsv n.length (by omega) h1 h3 (n ++ rest)
    simp only [SubItem.enc, List.append_assoc]
    unfold decSub
    simp only [u8, List.cons_append, List.nil_append] at hh ⊢
    simp only [hh]
    simp [decodeText_ascii n h2]
  | extNeg rsv uid info =>
    obtain ⟨h1, h2, h3⟩ := h
    have hh := rdHdr4_enc 0x56 rsv (2 + uid.length + info.length) (by omega) h1 h3
      (be16 uid.length ++ (uid ++ (info ++ rest)))
    simp only [SubItem.enc, List.append_assoc]
    unfold decSub
    simp only [u8, List.cons_append, List.nil_append] at hh ⊢
    simp only [hh]
    have hlt : ¬ (2 + uid.length + info.length < uid.length + 2) := by omega
    have he : 2 + uid.length + info.length - uid.length - 2 = info.length := by omega
    simp [rd16_be16 uid.length (by omega), decodeUid_ok uid h2, hlt, he]
  | userId rsv ty pr p s =>
    obtain ⟨h1, h2, h3, h4, h5, h6⟩ := h
    have hh := rdHdr4_enc 0x58 rsv (6 + p.length + s.length) (by omega) h1 h6
      (u8 ty ++ (u8 pr ++ (be16 p.length ++ (p ++ (be16 s.length ++ (s ++ rest))))))
    simp only [SubItem.enc, List.append_assoc]
    unfold decSub
    simp only [u8, List.cons_append, List.nil_append] at hh ⊢
    simp only [hh]
    have e1 := rd8_u8 ty h2 (u8 pr ++ (be16 p.length ++ (p ++ (be16 s.length ++ (s ++ rest)))))
    have e2 := rd8_u8 pr h3 (be16 p.length ++ (p ++ (be16 s.length ++ (s ++ rest))))
    simp only [u8, List.cons_append, List.nil_append] at e1 e2
    simp [e1, e2, rd16_be16 p.length (by omega), rd16_be16 s.length (by omega),
      decodeText_utf8 p h4, decodeText_utf8 s h5]
  | userIdAc rsv r =>
    obtain ⟨h1, h2, h3⟩ := h
    have hh := rdHdr4_enc 0x59 rsv (2 + r.length) (by omega) h1 h3 (be16 r.length ++ (r ++ rest))
    simp only [SubItem.enc, List.append_assoc]
    unfold decSub
    simp only [u8, List.cons_append, List.nil_append] at hh ⊢
    simp only [hh]
    simp [rd16_be16 r.length (by omega), decodeText_utf8 r h2]
  | generic ty rsv d =>
    obtain ⟨h1, h2, h3, h4, h5⟩ := h
    have hh := rdHdr4_enc ty rsv d.length h1 h4 h5 (d ++ rest)
    simp only [SubItem.enc, List.append_assoc]
    unfold decSub
    simp only [u8, List.cons_append, List.nil_append] at hh ⊢
    simp only [hh, u8_toNat ty h1]
    simp only [knownSubType] at h3
    have n1 : ¬ ty = 0x51 := fun e => h3 (by simp [e])
    have n2 : ¬ ty = 0x52 := fun e => h3 (by simp [e])
    have n3 : ¬ ty = 0x53 := fun e => h3 (by simp [e])
    have n4 : ¬ ty = 0x54 := fun e => h3 (by simp [e])
    have n5 : ¬ ty = 0x55 := fun e => h3 (by simp [e])
    have n6 : ¬ ty = 0x56 := fun e => h3 (by simp [e])
    have n8 : ¬ ty = 0x58 := fun e => h3 (by simp [e])
    have n9 : ¬ ty = 0x59 := fun e => h3 (by simp [e])
    simp [n1, n2, n3, n4, n5, n6, n8, n9]

/-- the type byte an encoded sub-item starts with is never zero -/
theorem SubItem.enc_head (s : SubItem) (h : s.WF) : ∃ t r, s.enc = t :: r ∧ t ≠ 0 := by
  cases s <;> simp only [SubItem.enc, u8, List.cons_append, List.nil_append, List.append_assoc]
  case generic ty rsv d =>
    obtain ⟨h1, h2, _⟩ := h
    refine ⟨_, _, rfl, ?_⟩
    intro e
    have := congrArg UInt8.toNat e
    rw [u8_toNat ty h1] at this
    simp at this; exact h2 this
  all_goals exact ⟨_, _, rfl, by decide⟩

/-- **any order, any length**: a sequence of sub-items followed by the end of the stream (or a zero
byte) decodes to exactly that sequence -/
theorem decSubs_enc (l : List SubItem) (h : ∀ s ∈ l, s.WF) (rest : Bytes)
    (hr : rest = [] ∨ ∃ r, rest = 0 :: r) : ∀ f, l.length < f →
    decSubs f (encSubs l ++ rest) = some (l, rest) := by
  induction l with
  | nil =>
    intro f hf
    cases f with
    | zero => omega
    | succ f =>
      rcases hr with rfl | ⟨r, rfl⟩
      · simp [encSubs, decSubs]
      · simp [encSubs, decSubs]
  | cons s ss ih =>
    intro f hf
    cases f with
    | zero => omega
    | succ f =>
      have hs := h s (by simp)
      obtain ⟨t, r, he, ht⟩ := SubItem.enc_head s hs
      have hsplit : encSubs (s :: ss) ++ rest = s.enc ++ (encSubs ss ++ rest) := by
        simp [encSubs, List.append_assoc]
      rw [hsplit]
      have hd := decSub_enc s hs (encSubs ss ++ rest)
      rw [he] at hd ⊢
      simp only [List.cons_append, decSubs, ht, ↓reduceIte]
      simp only [List.cons_append] at hd
      rw [hd]
      simp only [Option.map]
      rw [ih (fun x hx => h x (by simp [hx])) f (by simp at hf; omega)]

end Dicom
