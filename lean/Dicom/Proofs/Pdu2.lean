import Dicom.Proofs.Pdu
/-! Round-trip lemmas: transfer-syntax sub-items, variable items, PDVs, whole PDUs. -/
namespace Dicom

def TsSub.WF (t : TsSub) : Prop := t.rsv < 256 ∧ uidOk t.name ∧ t.name.length < 65536

theorem decTs_enc (t : TsSub) (h : t.WF) (rest : Bytes) : decTs (t.enc ++ rest) = some (t, rest) := by
  obtain ⟨h1, h2, h3⟩ := h
  have hh := rdHdr4_enc 0x40 t.rsv t.name.length (by omega) h1 h3 (t.name ++ rest)
  simp only [TsSub.enc, List.append_assoc]
  unfold decTs
  simp only [hh]
  simp [decodeUid_ok t.name h2]

/-- the stream after a list of transfer syntaxes does not start another one -/
def noTsNext (rest : Bytes) : Prop := rest = [] ∨ ∃ b r, rest = b :: r ∧ b.toNat ≠ 0x40

theorem decTss_enc (l : List TsSub) (h : ∀ t ∈ l, t.WF) (rest : Bytes) (hr : noTsNext rest) :
    ∀ f, l.length < f → decTss f (encTss l ++ rest) = some (l, rest) := by
  induction l with
  | nil =>
    intro f hf
    cases f with
    | zero => omega
    | succ f =>
      rcases hr with rfl | ⟨b, r, rfl, hb⟩
      · simp [encTss, decTss]
      · simp [encTss, decTss, hb]
  | cons t ts ih =>
    intro f hf
    cases f with
    | zero => omega
    | succ f =>
      have ht := h t (by simp)
      have hsplit : encTss (t :: ts) ++ rest = t.enc ++ (encTss ts ++ rest) := by
        simp [encTss, List.append_assoc]
      rw [hsplit]
      have hd := decTs_enc t ht (encTss ts ++ rest)
      have hhead : t.enc ++ (encTss ts ++ rest)
          = UInt8.ofNat 0x40 :: (u8 t.rsv ++ (be16 t.name.length ++ (t.name ++ (encTss ts ++ rest)))) := by
        simp [TsSub.enc, u8, List.append_assoc]
      rw [hhead] at hd ⊢
      simp only [decTss]
      have : (UInt8.ofNat 0x40).toNat = 0x40 := by decide
      simp only [this, ↓reduceIte, hd, Option.map]
      rw [ih (fun x hx => h x (by simp [hx])) f (by simp at hf; omega)]

theorem encTss_length (l : List TsSub) : l.length ≤ (encTss l).length := by
  induction l with
  | nil => simp [encTss]
  | cons t ts ih =>
    simp only [encTss, List.map_cons, List.flatten_cons, List.length_append, List.length_cons] at ih ⊢
    have : 4 ≤ t.enc.length := by simp [TsSub.enc, u8]
    omega

theorem encSubs_length (l : List SubItem) : l.length ≤ (encSubs l).length := by
  induction l with
  | nil => simp [encSubs]
  | cons t ts ih =>
    simp only [encSubs, List.map_cons, List.flatten_cons, List.length_append, List.length_cons] at ih ⊢
    have : 1 ≤ t.enc.length := by cases t <;> simp [SubItem.enc, u8]
    omega

/-! ### variable items -/

def Item.WF : Item → Prop
  | .appCtx rsv n => rsv < 256 ∧ ascii n ∧ n.length < 65536
  | .pcRq r1 id r2 r3 r4 ar abs ts =>
      r1 < 256 ∧ id < 256 ∧ r2 < 256 ∧ r3 < 256 ∧ r4 < 256 ∧ ar < 256 ∧ uidOk abs ∧ abs.length < 65536 ∧
      (∀ t ∈ ts, t.WF) ∧ (Item.pcRq r1 id r2 r3 r4 ar abs ts).itemLength < 65536
  | .pcAc r1 id r2 res r3 t => r1 < 256 ∧ id < 256 ∧ r2 < 256 ∧ res < 256 ∧ r3 < 256 ∧ t.WF ∧
      (Item.pcAc r1 id r2 res r3 t).itemLength < 65536
  | .userInfo rsv subs => rsv < 256 ∧ (∀ s ∈ subs, s.WF) ∧ (Item.userInfo rsv subs).itemLength < 65536

def Item.isUserInfo : Item → Bool
  | .userInfo _ _ => true
  | _ => false

/-- what may follow an item in the stream: nothing, or (unless the item is User Information, which
reads to the end) the type byte of another variable item -/
def restOk (i : Item) (rest : Bytes) : Prop :=
  rest = [] ∨ (i.isUserInfo = false ∧ ∃ b r, rest = b :: r ∧
    (b.toNat = 0x10 ∨ b.toNat = 0x20 ∨ b.toNat = 0x21 ∨ b.toNat = 0x50))

theorem rdHdr8_enc (t r1 n c d e f : Nat) (ht : t < 256) (h1 : r1 < 256) (hn : n < 65536) (hc : c < 256)
    (hd : d < 256) (he : e < 256) (hf : f < 256) (rest : Bytes) :
    rdHdr8 (u8 t ++ (u8 r1 ++ (be16 n ++ (u8 c ++ (u8 d ++ (u8 e ++ (u8 f ++ rest)))))))
      = some (t, r1, n, c, d, e, f, rest) := by
  simp [rdHdr8, u8, be16, UInt8.toNat_ofNat']
  omega

theorem decItem_enc (i : Item) (h : i.WF) (rest : Bytes) (hr : restOk i rest) (fuel : Nat)
    (hf : i.enc.length < fuel) : decItem fuel (i.enc ++ rest) = some (i, rest) := by
  cases i with
  | appCtx rsv n =>
    obtain ⟨h1, h2, h3⟩ := h
    have hh := rdHdr4_enc 0x10 rsv n.length (by omega) h1 h3 (n ++ rest)
    simp only [Item.enc, List.append_assoc]
    unfold decItem
    simp only [u8, List.cons_append, List.nil_append] at hh ⊢
    simp only [hh]
    simp [decodeText_ascii n h2]
  | pcRq r1 id r2 r3 r4 ar abs ts =>
    obtain ⟨h1, h2, h3, h4, h5, h6, h7, h8, h9, h10⟩ := h
    have hh := rdHdr8_enc 0x20 r1 (Item.pcRq r1 id r2 r3 r4 ar abs ts).itemLength id r2 r3 r4 (by omega) h1 h10 h2 h3 h4 h5
      ((u8 0x30 ++ (u8 ar ++ (be16 abs.length ++ abs))) ++ (encTss ts ++ rest))
    have hh2 := rdHdr4_enc 0x30 ar abs.length (by omega) h6 h8 (abs ++ (encTss ts ++ rest))
    have hnt : noTsNext rest := by
      rcases hr with rfl | ⟨_, b, r, rfl, hb⟩
      · exact Or.inl rfl
      · exact Or.inr ⟨b, r, rfl, by omega⟩
    have hfuel : ts.length < fuel := by
      have := encTss_length ts
      simp only [Item.enc, List.length_append] at hf
      omega
    have htss := decTss_enc ts h9 rest hnt fuel hfuel
    simp only [Item.enc, List.append_assoc]
    unfold decItem
    simp only [u8, List.cons_append, List.nil_append, List.append_assoc] at hh hh2 ⊢
    simp only [hh, hh2]
    simp [decodeUid_ok abs h7, htss]
  | pcAc r1 id r2 res r3 t =>
    obtain ⟨h1, h2, h3, h4, h5, h6, hl⟩ := h
    have hh := rdHdr8_enc 0x21 r1 (Item.pcAc r1 id r2 res r3 t).itemLength id r2 res r3 (by omega) h1 hl h2 h3 h4 h5
      (t.enc ++ rest)
    simp only [Item.enc, List.append_assoc]
    unfold decItem
    simp only [u8, List.cons_append, List.nil_append, List.append_assoc] at hh ⊢
    simp only [hh]
    simp [decTs_enc t h6 rest]
  | userInfo rsv subs =>
    obtain ⟨h1, h2, h3⟩ := h
    have hh := rdHdr4_enc 0x50 rsv (Item.userInfo rsv subs).itemLength (by omega) h1 h3 (encSubs subs ++ rest)
    have hrest : rest = [] := by
      rcases hr with rfl | ⟨hu, _⟩
      · rfl
      · simp [Item.isUserInfo] at hu
    subst hrest
    have hfuel : subs.length < fuel := by
      have := encSubs_length subs
      simp only [Item.enc, List.length_append] at hf
      omega
    have hs := decSubs_enc subs h2 [] (Or.inl rfl) fuel hfuel
    simp only [Item.enc, List.append_assoc]
    unfold decItem
    simp only [u8, List.cons_append, List.nil_append, List.append_assoc] at hh ⊢
    simp only [hh]
    simp only [List.append_nil] at hs ⊢
    simp [hs]

/-- the first byte of an encoded item is its type code -/
theorem Item.enc_head (i : Item) : ∃ b r, i.enc = b :: r ∧
    (b.toNat = 0x10 ∨ b.toNat = 0x20 ∨ b.toNat = 0x21 ∨ b.toNat = 0x50) := by
  cases i <;> simp only [Item.enc, u8, List.cons_append, List.nil_append, List.append_assoc]
  · exact ⟨_, _, rfl, by decide⟩
  · exact ⟨_, _, rfl, by decide⟩
  · exact ⟨_, _, rfl, by decide⟩
  · exact ⟨_, _, rfl, by decide⟩

/-- item lists the decoder can read back: every item well formed, User Information (if any) last -/
def itemsOk : List Item → Prop
  | [] => True
  | [i] => i.WF
  | i :: j :: r => i.WF ∧ i.isUserInfo = false ∧ itemsOk (j :: r)

theorem itemsOk_head {i : Item} {l : List Item} (h : itemsOk (i :: l)) : i.WF := by
  cases l with
  | nil => exact h
  | cons j r => exact h.1

theorem itemsOk_tail {i : Item} {l : List Item} (h : itemsOk (i :: l)) : itemsOk l := by
  cases l with
  | nil => trivial
  | cons j r => exact h.2.2

theorem decItems_enc (l : List Item) (h : itemsOk l) : ∀ f, (encItems l).length < f →
    decItems f (encItems l) = some l := by
  induction l with
  | nil => intro f hf; cases f with
    | zero => omega
    | succ f => simp [encItems, decItems]
  | cons i is ih =>
    intro f hf
    cases f with
    | zero => omega
    | succ f =>
      have hi := itemsOk_head h
      have hsplit : encItems (i :: is) = i.enc ++ encItems is := by simp [encItems]
      rw [hsplit] at hf ⊢
      obtain ⟨b, r, he, hb⟩ := Item.enc_head i
      have hro : restOk i (encItems is) := by
        cases is with
        | nil => left; simp [encItems]
        | cons j js =>
          right
          refine ⟨h.2.1, ?_⟩
          obtain ⟨b', r', he', hb'⟩ := Item.enc_head j
          exact ⟨b', r' ++ encItems js, by simp [encItems, he'], hb'⟩
      have hlen : i.enc.length < f + 1 := by simp only [List.length_append] at hf; omega
      have hd := decItem_enc i hi (encItems is) hro (f + 1) hlen
      have hb0 : b ≠ 0 := by
        intro e; subst e
        have : (0 : UInt8).toNat = 0 := rfl
        omega
      rw [he] at hd ⊢
      simp only [List.cons_append] at hd ⊢
      simp only [decItems, hb0, ↓reduceIte, hd, Option.map]
      have hlen2 : (encItems is).length < f := by
        simp only [List.length_append] at hf
        have : 1 ≤ i.enc.length := by rw [he]; simp
        omega
      rw [ih (itemsOk_tail h) f hlen2]

/-! ### A-ASSOCIATE-RQ / -AC -/

def Assoc.WF (a : Assoc) : Prop :=
  a.rsv1 < 256 ∧ a.protoVer < 65536 ∧ a.rsv2 < 65536 ∧ titleOk a.called ∧ titleOk a.calling ∧
  a.rsv3.length = 8 ∧ (∀ x ∈ a.rsv3, x < 4294967296) ∧ itemsOk a.items ∧ a.pduLength < 4294967296

theorem rd32s_enc (l : List Nat) (h : ∀ x ∈ l, x < 4294967296) (rest : Bytes) :
    rd32s l.length ((l.map be32).flatten ++ rest) = some (l, rest) := by
  induction l with
  | nil => simp [rd32s]
  | cons x xs ih =>
    simp only [List.length_cons, List.map_cons, List.flatten_cons, List.append_assoc, rd32s]
    rw [rd32_be32 x (h x (by simp))]
    simp only [Option.map]
    rw [ih (fun y hy => h y (by simp [hy]))]

theorem decAssoc_enc (ty : Nat) (a : Assoc) (h : a.WF) : decAssoc (a.enc ty) = some a := by
  obtain ⟨h1, h2, h3, h4, h5, h6, h7, h8, h9⟩ := h
  unfold Assoc.enc decAssoc
  simp only [u8, List.cons_append, List.nil_append, List.append_assoc]
  rw [rd32_be32 _ h9]
  simp only []
  rw [rd16_be16 _ h2]
  simp only []
  rw [rd16_be16 _ h3]
  simp only []
  have hl : ¬ (pad16 a.called ++ (pad16 a.calling ++ ((a.rsv3.map be32).flatten ++ encItems a.items))).length < 64 := by
    simp only [List.length_append, pad16_length]
    have : ((a.rsv3.map be32).flatten).length = 32 := by
      have : ∀ (l : List Nat), ((l.map be32).flatten).length = 4 * l.length := by
        intro l; induction l with
        | nil => simp
        | cons x xs ih => simp only [List.map_cons, List.flatten_cons, List.length_append, be32_length, ih, List.length_cons]; omega
      rw [this, h6]
    omega
  simp only [hl, ↓reduceIte]
  have t1 : (pad16 a.called ++ (pad16 a.calling ++ ((a.rsv3.map be32).flatten ++ encItems a.items))).take 16 = pad16 a.called := by
    rw [List.take_append_of_le_length (by simp [pad16_length])]
    exact List.take_of_length_le (by simp [pad16_length])
  have d1 : (pad16 a.called ++ (pad16 a.calling ++ ((a.rsv3.map be32).flatten ++ encItems a.items))).drop 16
      = pad16 a.calling ++ ((a.rsv3.map be32).flatten ++ encItems a.items) := by
    have := List.drop_left (l₁ := pad16 a.called) (l₂ := pad16 a.calling ++ ((a.rsv3.map be32).flatten ++ encItems a.items))
    rwa [pad16_length] at this
  have t2 : (pad16 a.calling ++ ((a.rsv3.map be32).flatten ++ encItems a.items)).take 16 = pad16 a.calling := by
    rw [List.take_append_of_le_length (by simp [pad16_length])]
    exact List.take_of_length_le (by simp [pad16_length])
  have d2 : (pad16 a.called ++ (pad16 a.calling ++ ((a.rsv3.map be32).flatten ++ encItems a.items))).drop 32
      = (a.rsv3.map be32).flatten ++ encItems a.items := by
    have : (32 : Nat) = 16 + 16 := rfl
    rw [this, ← List.drop_drop, d1]
    have := List.drop_left (l₁ := pad16 a.calling) (l₂ := (a.rsv3.map be32).flatten ++ encItems a.items)
    rwa [pad16_length] at this
  rw [t1, d1, t2, d2, decodeTitle_pad16 _ h4, decodeTitle_pad16 _ h5]
  have hr := rd32s_enc a.rsv3 h7 (encItems a.items)
  rw [h6] at hr
  rw [hr]
  simp only []
  rw [decItems_enc a.items h8 _ (by omega)]
  simp only [Option.map, u8_toNat a.rsv1 h1]

/-! ### P-DATA-TF -/

def Pdv.WF (v : Pdv) : Prop := v.ctx < 256 ∧ v.value.length + 1 < 4294967296

theorem decPdv_enc (v : Pdv) (h : v.WF) (rest : Bytes) : decPdv (v.enc ++ rest) = some (v, rest) := by
  obtain ⟨h1, h2⟩ := h
  unfold decPdv Pdv.enc
  simp only [List.append_assoc]
  rw [rd32_be32 _ h2]
  simp only []
  rw [rd8_u8 _ h1]
  simp

theorem decPdvs_step (f n total : Nat) (v : Pdv) (hv : v.WF) (rest : Bytes) (hne : n ≠ total) :
    decPdvs (f + 1) n total (v.enc ++ rest) = (decPdvs f (n + v.totalLength) total rest).map (v :: ·) := by
  rw [decPdvs]
  simp only [hne, ↓reduceIte, decPdv_enc v hv rest]

theorem decPdvs_enc (l : List Pdv) (h : ∀ v ∈ l, v.WF) : ∀ f n, l.length < f →
    decPdvs f n (n + (l.map Pdv.totalLength).sum) (encPdvs l) = some l := by
  induction l with
  | nil => intro f n hf; cases f with
    | zero => omega
    | succ f => simp [decPdvs]
  | cons v vs ih =>
    intro f n hf
    cases f with
    | zero => omega
    | succ f =>
      have hv := h v (by simp)
      have hne : n ≠ n + ((v :: vs).map Pdv.totalLength).sum := by
        simp only [List.map_cons, List.sum_cons, Pdv.totalLength]; omega
      have hsplit : encPdvs (v :: vs) = v.enc ++ encPdvs vs := by simp [encPdvs]
      rw [hsplit, decPdvs_step f n _ v hv _ hne]
      have e : n + ((v :: vs).map Pdv.totalLength).sum = (n + v.totalLength) + (vs.map Pdv.totalLength).sum := by
        simp only [List.map_cons, List.sum_cons]; omega
      rw [e, ih (fun x hx => h x (by simp [hx])) f (n + v.totalLength) (by simp at hf; omega)]
      rfl
theorem encPdvs_length (l : List Pdv) : l.length ≤ (encPdvs l).length := by
  induction l with
  | nil => simp [encPdvs]
  | cons t ts ih =>
    simp only [encPdvs, List.map_cons, List.flatten_cons, List.length_append, List.length_cons] at ih ⊢
    have : 5 ≤ t.enc.length := by simp [Pdv.enc, u8]; omega
    omega

/-! ### whole PDUs -/

def Pdu.WF : Pdu → Prop
  | .rq a => a.WF
  | .ac a => a.WF
  | .rj r1 r2 res src rsn => r1 < 256 ∧ r2 < 256 ∧ res < 256 ∧ src < 256 ∧ rsn < 256
  | .pdata rsv pdvs => rsv < 256 ∧ (∀ v ∈ pdvs, v.WF) ∧ (pdvs.map Pdv.totalLength).sum < 4294967296
  | .rlrq r1 r2 => r1 < 256 ∧ r2 < 4294967296
  | .rlrp r1 r2 => r1 < 256 ∧ r2 < 4294967296
  | .abort r1 r2 r3 src rsn => r1 < 256 ∧ r2 < 256 ∧ r3 < 256 ∧ src < 256 ∧ rsn < 256

theorem decodePdu_enc (p : Pdu) (h : p.WF) : decodePdu p.enc = some p := by
  cases p with
  | rq a =>
    have := decAssoc_enc 1 a h
    unfold decodePdu
    have he : ∃ r, a.enc 1 = UInt8.ofNat 1 :: r := ⟨_, rfl⟩
    obtain ⟨r, hr⟩ := he
    rw [hr] at this
    simp only [Pdu.enc, hr]
    have h1 : (UInt8.ofNat 1).toNat = 1 := by decide
    simp only [h1]
    simp only [Nat.reduceEqDiff, ↓reduceIte, this, Option.map]
  | ac a =>
    have := decAssoc_enc 2 a h
    unfold decodePdu
    have he : ∃ r, a.enc 2 = UInt8.ofNat 2 :: r := ⟨_, rfl⟩
    obtain ⟨r, hr⟩ := he
    rw [hr] at this
    simp only [Pdu.enc, hr]
    have h1 : (UInt8.ofNat 2).toNat = 2 := by decide
    simp only [h1]
    simp only [Nat.reduceEqDiff, ↓reduceIte, this, Option.map]
  | rj r1 r2 res src rsn =>
    obtain ⟨h1, h2, h3, h4, h5⟩ := h
    simp [decodePdu, Pdu.enc, u8, be32, u8_toNat, h1, h2, h3, h4, h5]
  | pdata rsv pdvs =>
    obtain ⟨h1, h2, h3⟩ := h
    unfold decodePdu
    simp only [Pdu.enc, u8, List.cons_append, List.nil_append]
    have h4 : (UInt8.ofNat 4).toNat = 4 := by decide
    simp only [h4]
    simp only [Nat.reduceEqDiff, ↓reduceIte]
    rw [rd32_be32 _ h3]
    simp only []
    have := decPdvs_enc pdvs h2 ((encPdvs pdvs).length + 1) 0 (by have := encPdvs_length pdvs; omega)
    simp only [Nat.zero_add] at this
    rw [this]
    simp [u8_toNat rsv h1]
  | rlrq r1 r2 =>
    obtain ⟨h1, h2⟩ := h
    unfold decodePdu
    simp only [Pdu.enc, u8, be32, List.cons_append, List.nil_append]
    have h5 : (UInt8.ofNat 5).toNat = 5 := by decide
    simp only [h5]
    have := rd32_be32 r2 h2 []
    simp only [be32, List.append_nil] at this
    simp [this, u8_toNat r1 h1]
  | rlrp r1 r2 =>
    obtain ⟨h1, h2⟩ := h
    unfold decodePdu
    simp only [Pdu.enc, u8, be32, List.cons_append, List.nil_append]
    have h6 : (UInt8.ofNat 6).toNat = 6 := by decide
    simp only [h6]
    have := rd32_be32 r2 h2 []
    simp only [be32, List.append_nil] at this
    simp [this, u8_toNat r1 h1]
  | abort r1 r2 r3 src rsn =>
    obtain ⟨h1, h2, h3, h4, h5⟩ := h
    simp [decodePdu, Pdu.enc, u8, be32, u8_toNat, h1, h2, h3, h4, h5]

end Dicom
