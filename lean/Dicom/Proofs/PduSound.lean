import Dicom.Proofs.PduSpec
/-! The strict PS3.8 reader accepts only encodings: whatever it reads, re-encoded, gives the bytes back,
and every integer it yields is in wire range. -/
namespace Dicom
open Dicom.Spec

theorem u8_of_toNat (t : UInt8) : u8 t.toNat = [t] := by
  simp [u8]

theorem toNat_lt (t : UInt8) : t.toNat < 256 := UInt8.toNat_lt t

theorem be16_of_bytes (a b : UInt8) : be16 (a.toNat * 256 + b.toNat) = [a, b] := by
  have ha := toNat_lt a; have hb := toNat_lt b
  simp only [be16]
  have h1 : (a.toNat * 256 + b.toNat) / 256 = a.toNat := by omega
  rw [h1]
  have : UInt8.ofNat (a.toNat * 256 + b.toNat) = b := by
    apply UInt8.toNat_inj.mp
    simp
  rw [this]; simp

theorem be32_of_bytes (a b c d : UInt8) :
    be32 (a.toNat * 16777216 + b.toNat * 65536 + c.toNat * 256 + d.toNat) = [a, b, c, d] := by
  have ha := toNat_lt a; have hb := toNat_lt b; have hc := toNat_lt c; have hd := toNat_lt d
  simp only [be32]
  have e1 : UInt8.ofNat ((a.toNat * 16777216 + b.toNat * 65536 + c.toNat * 256 + d.toNat) / 16777216) = a := by
    apply UInt8.toNat_inj.mp; simp [UInt8.toNat_ofNat']; omega
  have e2 : UInt8.ofNat ((a.toNat * 16777216 + b.toNat * 65536 + c.toNat * 256 + d.toNat) / 65536) = b := by
    apply UInt8.toNat_inj.mp; simp [UInt8.toNat_ofNat']; omega
  have e3 : UInt8.ofNat ((a.toNat * 16777216 + b.toNat * 65536 + c.toNat * 256 + d.toNat) / 256) = c := by
    apply UInt8.toNat_inj.mp; simp [UInt8.toNat_ofNat']; omega
  have e4 : UInt8.ofNat (a.toNat * 16777216 + b.toNat * 65536 + c.toNat * 256 + d.toNat) = d := by
    apply UInt8.toNat_inj.mp; simp
  rw [e1, e2, e3, e4]

theorem slice_some {n : Nat} {s v r : Bytes} (h : slice n s = some (v, r)) : s = v ++ r ∧ v.length = n := by
  unfold slice at h
  split at h
  · simp at h
  · simp only [Option.some.injEq, Prod.mk.injEq] at h
    obtain ⟨h1, h2⟩ := h
    subst h1 h2
    exact ⟨(List.take_append_drop n s).symm, by simp; omega⟩

theorem rd16_some {s r : Bytes} {n : Nat} (h : rd16 s = some (n, r)) : s = be16 n ++ r ∧ n < 65536 := by
  match s, h with
  | a :: b :: r', h =>
    simp only [rd16, Option.some.injEq, Prod.mk.injEq] at h
    obtain ⟨h1, h2⟩ := h
    subst h1 h2
    have ha := toNat_lt a; have hb := toNat_lt b
    exact ⟨by rw [be16_of_bytes]; rfl, by omega⟩

theorem rd32_some {s r : Bytes} {n : Nat} (h : rd32 s = some (n, r)) : s = be32 n ++ r ∧ n < 4294967296 := by
  match s, h with
  | a :: b :: c :: d :: r', h =>
    simp only [rd32, Option.some.injEq, Prod.mk.injEq] at h
    obtain ⟨h1, h2⟩ := h
    subst h1 h2
    have ha := toNat_lt a; have hb := toNat_lt b; have hc := toNat_lt c; have hd := toNat_lt d
    exact ⟨by rw [be32_of_bytes]; rfl, by omega⟩

theorem tlv_some {s v rest : Bytes} {t r : Nat} (h : tlv s = some (t, r, v, rest)) :
    s = u8 t ++ (u8 r ++ (be16 v.length ++ (v ++ rest))) ∧ t < 256 ∧ r < 256 ∧ v.length < 65536 := by
  match s, h with
  | t' :: r' :: a :: b :: rest', h =>
    simp only [tlv, Option.map_eq_some_iff, Prod.mk.injEq] at h
    obtain ⟨⟨v', rest''⟩, hs, h1, h2, h3, h4⟩ := h
    subst h1 h2 h3 h4
    obtain ⟨e, hl⟩ := slice_some hs
    have ha := toNat_lt a; have hb := toNat_lt b
    refine ⟨?_, toNat_lt _, toNat_lt _, by show v'.length < 65536; omega⟩
    rw [hl, be16_of_bytes, u8_of_toNat, u8_of_toNat, e]; rfl

/-- what conformance asks of the text a sub-item carries (the integers are in range by construction) -/
def SubItem.Conf : SubItem → Prop
  | .implClass _ uid => uidOk uid
  | .role _ uid _ _ => uidOk uid
  | .implVersion _ n => ascii n
  | .extNeg _ uid _ => uidOk uid
  | .userId _ _ _ p s => utf8 p ∧ utf8 s
  | .userIdAc _ r => utf8 r
  | .generic ty _ _ => ty ≠ 0
  | _ => True

theorem parseSub_sound {t rsv : Nat} {v : Bytes} {x : SubItem} (h : parseSub t rsv v = some x)
    (ht : t < 256) (hr : rsv < 256) (hv : v.length < 65536) :
    x.ty = t ∧ x.rsv = rsv ∧ x.body = v ∧ x.strict ∧ (x.Conf → x.WF) := by
  unfold parseSub at h
  split at h
  · -- 0x51
    rename_i h51
    match v, h with
    | [a, b, c, d], h =>
      simp only [Option.some.injEq] at h; subst h
      have := toNat_lt a; have := toNat_lt b; have := toNat_lt c; have := toNat_lt d
      refine ⟨h51.symm, rfl, ?_, rfl, fun _ => ⟨hr, by omega, by omega⟩⟩
      simp only [SubItem.body]; rw [be32_of_bytes]
  · split at h
    · rename_i _ h52
      simp only [Option.some.injEq] at h; subst h
      exact ⟨h52.symm, rfl, rfl, trivial, fun hc => ⟨hr, hc, hv⟩⟩
    · split at h
      · rename_i _ _ h53
        match v, h with
        | [a, b, c, d], h =>
          simp only [Option.some.injEq] at h; subst h
          have := toNat_lt a; have := toNat_lt b; have := toNat_lt c; have := toNat_lt d
          refine ⟨h53.symm, rfl, ?_, rfl, fun _ => ⟨hr, by omega, by omega, by omega⟩⟩
          simp only [SubItem.body]; rw [be16_of_bytes, be16_of_bytes]; rfl
      · split at h
        · rename_i _ _ _ h54
          split at h
          · rename_i ul r hrd
            split at h
            · rename_i uid scu scp hsl
              simp only [Option.some.injEq] at h; subst h
              obtain ⟨e1, hul⟩ := rd16_some hrd
              obtain ⟨e2, hlen⟩ := slice_some hsl
              subst e1 e2
              refine ⟨h54.symm, rfl, ?_, trivial, fun hc => ⟨hr, hc, ?_, toNat_lt _, toNat_lt _⟩⟩
              · simp only [SubItem.body, hlen, u8_of_toNat]; simp
              · simp at hv; omega
            · simp at h
          · simp at h
        · split at h
          · rename_i _ _ _ _ h55
            simp only [Option.some.injEq] at h; subst h
            exact ⟨h55.symm, rfl, rfl, trivial, fun hc => ⟨hr, hc, hv⟩⟩
          · split at h
            · rename_i _ _ _ _ _ h56
              split at h
              · rename_i ul r hrd
                simp only [Option.map_eq_some_iff] at h
                obtain ⟨⟨uid, info⟩, hsl, hx⟩ := h
                subst hx
                obtain ⟨e1, hul⟩ := rd16_some hrd
                obtain ⟨e2, hlen⟩ := slice_some hsl
                subst e1 e2
                refine ⟨h56.symm, rfl, ?_, trivial, fun hc => ⟨hr, hc, ?_⟩⟩
                · simp only [SubItem.body, hlen]
                · show 2 + uid.length + info.length < 65536
                  simp at hv; omega
              · simp at h
            · split at h
              · rename_i _ _ _ _ _ _ h58
                split at h
                · rename_i ty pr r
                  split at h
                  · rename_i pl r1 hrd1
                    split at h
                    · rename_i p r2 hsl1
                      split at h
                      · rename_i sl r3 hrd2
                        split at h
                        · rename_i sc hsl2
                          simp only [Option.some.injEq] at h; subst h
                          obtain ⟨e1, _⟩ := rd16_some hrd1
                          obtain ⟨e2, hl1⟩ := slice_some hsl1
                          obtain ⟨e3, _⟩ := rd16_some hrd2
                          obtain ⟨e4, hl2⟩ := slice_some hsl2
                          subst e1 e2 e3 e4
                          refine ⟨h58.symm, rfl, ?_, trivial, fun hc => ⟨hr, toNat_lt _, toNat_lt _, hc.1, hc.2, ?_⟩⟩
                          · simp only [SubItem.body, hl1, hl2, u8_of_toNat]; simp
                          · simp at hv; omega
                        · simp at h
                      · simp at h
                    · simp at h
                  · simp at h
                · simp at h
              · split at h
                · rename_i _ _ _ _ _ _ _ h59
                  split at h
                  · rename_i rl r hrd
                    split at h
                    · rename_i x' hsl
                      simp only [Option.some.injEq] at h; subst h
                      obtain ⟨e1, _⟩ := rd16_some hrd
                      obtain ⟨e2, hl⟩ := slice_some hsl
                      subst e1 e2
                      refine ⟨h59.symm, rfl, ?_, trivial, fun hc => ⟨hr, hc, ?_⟩⟩
                      · simp only [SubItem.body, hl]; simp
                      · simp at hv; omega
                    · simp at h
                  · simp at h
                · rename_i n51 n52 n53 n54 n55 n56 n58 n59
                  simp only [Option.some.injEq] at h; subst h
                  refine ⟨rfl, rfl, rfl, trivial, fun hc => ⟨ht, hc, ?_, hr, hv⟩⟩
                  unfold knownSubType; omega

theorem parseSubs_sound : ∀ (f : Nat) (s : Bytes) (l : List SubItem), parseSubs f s = some l →
    encSubs l = s ∧ ∀ x ∈ l, x.strict ∧ (x.Conf → x.WF) := by
  intro f
  induction f with
  | zero => intro s l h; simp [parseSubs] at h
  | succ f ih =>
    intro s l h
    cases s with
    | nil => simp only [parseSubs, Option.some.injEq] at h; subst h; simp [encSubs]
    | cons b bs =>
      simp only [parseSubs] at h
      split at h
      · rename_i t rsv v rest htl
        split at h
        · rename_i x hx
          simp only [Option.map_eq_some_iff] at h
          obtain ⟨l', hl', e⟩ := h
          subst e
          obtain ⟨es, ht, hr, hv⟩ := tlv_some htl
          obtain ⟨h1, h2, h3, h4, h5⟩ := parseSub_sound hx ht hr hv
          obtain ⟨e', hall⟩ := ih rest l' hl'
          constructor
          · simp only [encSubs, List.map_cons, List.flatten_cons] at e' ⊢
            rw [e', SubItem.enc_tlv x h4, h1, h2, h3, es]; simp
          · intro y hy
            simp only [List.mem_cons] at hy
            rcases hy with rfl | hy
            · exact ⟨h4, h5⟩
            · exact hall y hy
        · simp at h
      · simp at h

def TsSub.Conf (t : TsSub) : Prop := uidOk t.name

theorem parseTss_sound : ∀ (f : Nat) (s : Bytes) (l : List TsSub), parseTss f s = some l →
    encTss l = s ∧ ∀ x ∈ l, (x.Conf → x.WF) := by
  intro f
  induction f with
  | zero => intro s l h; simp [parseTss] at h
  | succ f ih =>
    intro s l h
    cases s with
    | nil => simp only [parseTss, Option.some.injEq] at h; subst h; simp [encTss]
    | cons b bs =>
      simp only [parseTss] at h
      split at h
      · rename_i t rsv v rest htl
        split at h
        · rename_i h40
          simp only [Option.map_eq_some_iff] at h
          obtain ⟨l', hl', e⟩ := h
          subst e
          obtain ⟨es, ht, hr, hv⟩ := tlv_some htl
          obtain ⟨e', hall⟩ := ih rest l' hl'
          constructor
          · simp only [encTss, List.map_cons, List.flatten_cons] at e' ⊢
            rw [e', es, h40]; simp [TsSub.enc]
          · intro y hy
            simp only [List.mem_cons] at hy
            rcases hy with rfl | hy
            · exact fun hc => ⟨hr, hc, hv⟩
            · exact hall y hy
        · simp at h
      · simp at h

def Item.Conf : Item → Prop
  | .appCtx _ n => ascii n
  | .pcRq _ _ _ _ _ _ abs ts => uidOk abs ∧ ∀ t ∈ ts, t.Conf
  | .pcAc _ _ _ _ _ t => t.Conf
  | .userInfo _ subs => ∀ s ∈ subs, s.Conf

theorem parseItem_sound {rq : Bool} {t rsv : Nat} {v : Bytes} {x : Item} (h : parseItem rq t rsv v = some x)
    (hr : rsv < 256) (hv : v.length < 65536) :
    x.ty = t ∧ x.rsv = rsv ∧ x.body = v ∧ x.strict ∧ x.fits rq ∧ (x.Conf → x.WF) := by
  unfold parseItem at h
  split at h
  · rename_i h10
    simp only [Option.some.injEq] at h; subst h
    exact ⟨h10.symm, rfl, rfl, trivial, trivial, fun hc => ⟨hr, hc, hv⟩⟩
  · split at h
    · rename_i _ h20
      split at h
      · rename_i id r2 r3 r4 r
        split at h
        · rename_i ar abs r' htl
          simp only [Option.map_eq_some_iff] at h
          obtain ⟨ts, hts, e⟩ := h
          subst e
          obtain ⟨es, _, har, habs⟩ := tlv_some htl
          obtain ⟨ets, hall⟩ := parseTss_sound _ _ _ hts
          have hb : (Item.pcRq rsv id.toNat r2.toNat r3.toNat r4.toNat ar abs ts).body = id :: r2 :: r3 :: r4 :: r := by
            simp only [Item.body, u8_of_toNat, ets, es]; simp
          have hil : (Item.pcRq rsv id.toNat r2.toNat r3.toNat r4.toNat ar abs ts).itemLength =
              (Item.pcRq rsv id.toNat r2.toNat r3.toNat r4.toNat ar abs ts).body.length := by
            simp [Item.itemLength, Item.body, u8, encTss_len]; omega
          refine ⟨h20.1.symm, rfl, hb, trivial, h20.2, fun hc => ⟨hr, toNat_lt _, toNat_lt _, toNat_lt _, toNat_lt _,
            har, hc.1, habs, fun t ht => hall t ht (hc.2 t ht), ?_⟩⟩
          rw [hil, hb]; exact hv
        · simp at h
      · simp at h
    · split at h
      · rename_i _ _ h21
        split at h
        · rename_i id r2 res r3 r
          split at h
          · rename_i tr ts htl
            simp only [Option.some.injEq] at h; subst h
            obtain ⟨es, _, htr, hts⟩ := tlv_some htl
            have hb : (Item.pcAc rsv id.toNat r2.toNat res.toNat r3.toNat ⟨tr, ts⟩).body = id :: r2 :: res :: r3 :: r := by
              simp only [Item.body, u8_of_toNat, TsSub.enc, es]; simp
            have hil : (Item.pcAc rsv id.toNat r2.toNat res.toNat r3.toNat ⟨tr, ts⟩).itemLength =
                (Item.pcAc rsv id.toNat r2.toNat res.toNat r3.toNat ⟨tr, ts⟩).body.length := by
              simp [Item.itemLength, Item.body, u8, TsSub.enc_length]; omega
            refine ⟨h21.1.symm, rfl, hb, trivial, by simpa [Item.fits] using h21.2,
              fun hc => ⟨hr, toNat_lt _, toNat_lt _, toNat_lt _, toNat_lt _, ⟨htr, hc, hts⟩, ?_⟩⟩
            rw [hil, hb]; exact hv
          · simp at h
        · simp at h
      · split at h
        · rename_i _ _ _ h50
          simp only [Option.map_eq_some_iff] at h
          obtain ⟨subs, hs, e⟩ := h
          subst e
          obtain ⟨es, hall⟩ := parseSubs_sound _ _ _ hs
          have hstr : ∀ s ∈ subs, s.strict := fun s hs => (hall s hs).1
          have hil : (Item.userInfo rsv subs).itemLength = (Item.userInfo rsv subs).body.length := by
            simp [Item.itemLength, Item.body, encSubs_len subs hstr]
          refine ⟨h50.symm, rfl, es, hstr, trivial, fun hc => ⟨hr, fun s hs => (hall s hs).2 (hc s hs), ?_⟩⟩
          rw [hil]; show (encSubs subs).length < 65536; rw [es]; exact hv
        · simp at h

theorem parseItems_sound (rq : Bool) : ∀ (f : Nat) (s : Bytes) (l : List Item), parseItems rq f s = some l →
    encItems l = s ∧ ∀ x ∈ l, x.strict ∧ x.fits rq ∧ (x.Conf → x.WF) := by
  intro f
  induction f with
  | zero => intro s l h; simp [parseItems] at h
  | succ f ih =>
    intro s l h
    cases s with
    | nil => simp only [parseItems, Option.some.injEq] at h; subst h; simp [encItems]
    | cons b bs =>
      simp only [parseItems] at h
      split at h
      · rename_i t rsv v rest htl
        split at h
        · rename_i x hx
          simp only [Option.map_eq_some_iff] at h
          obtain ⟨l', hl', e⟩ := h
          subst e
          obtain ⟨es, ht, hr, hv⟩ := tlv_some htl
          obtain ⟨h1, h2, h3, h4, h5, h6⟩ := parseItem_sound hx hr hv
          obtain ⟨e', hall⟩ := ih rest l' hl'
          constructor
          · simp only [encItems, List.map_cons, List.flatten_cons] at e' ⊢
            rw [e', Item.enc_tlv x h4, h1, h2, h3, es]; simp
          · intro y hy
            simp only [List.mem_cons] at hy
            rcases hy with rfl | hy
            · exact ⟨h4, h5, h6⟩
            · exact hall y hy
        · simp at h
      · simp at h

theorem parsePdvs_sound : ∀ (f : Nat) (s : Bytes) (l : List Pdv), parsePdvs f s = some l →
    encPdvs l = s ∧ ∀ v ∈ l, v.WF := by
  intro f
  induction f with
  | zero => intro s l h; simp [parsePdvs] at h
  | succ f ih =>
    intro s l h
    cases s with
    | nil => simp only [parsePdvs, Option.some.injEq] at h; subst h; simp [encPdvs]
    | cons b bs =>
      simp only [parsePdvs] at h
      split at h
      · rename_i il r hrd
        split at h
        · simp at h
        · split at h
          · rename_i c v rest hsl
            simp only [Option.map_eq_some_iff] at h
            obtain ⟨l', hl', e⟩ := h
            subst e
            obtain ⟨e1, hil⟩ := rd32_some hrd
            obtain ⟨e2, hlen⟩ := slice_some hsl
            obtain ⟨e', hall⟩ := ih rest l' hl'
            simp only [List.length_cons] at hlen
            constructor
            · simp only [encPdvs, List.map_cons, List.flatten_cons] at e' ⊢
              rw [e', e1, e2]; simp [Pdv.enc, hlen, u8_of_toNat]
            · intro y hy
              simp only [List.mem_cons] at hy
              rcases hy with rfl | hy
              · exact ⟨toNat_lt _, by show v.length + 1 < 4294967296; omega⟩
              · exact hall y hy
          · simp at h
      · simp at h

theorem parse32s_sound : ∀ (n : Nat) (s : Bytes) (l : List Nat), parse32s n s = some l →
    (l.map be32).flatten = s ∧ l.length = n ∧ ∀ x ∈ l, x < 4294967296 := by
  intro n
  induction n with
  | zero =>
    intro s l h
    cases s with
    | nil => simp only [parse32s, Option.some.injEq] at h; subst h; simp
    | cons a r => simp [parse32s] at h
  | succ n ih =>
    intro s l h
    simp only [parse32s] at h
    split at h
    · rename_i v r hrd
      simp only [Option.map_eq_some_iff] at h
      obtain ⟨l', hl', e⟩ := h
      subst e
      obtain ⟨e1, hv⟩ := rd32_some hrd
      obtain ⟨e', hn, hall⟩ := ih r l' hl'
      refine ⟨by simp [e', e1], by simp [hn], ?_⟩
      intro y hy
      simp only [List.mem_cons] at hy
      rcases hy with rfl | hy
      · exact hv
      · exact hall y hy
    · simp at h

/-! ### titles -/

theorem stripLeft_suffix (p : UInt8 → Bool) (l : Bytes) : ∃ pre, l = pre ++ stripLeft p l := by
  induction l with
  | nil => exact ⟨[], rfl⟩
  | cons a r ih =>
    simp only [stripLeft]
    split
    · obtain ⟨pre, h⟩ := ih; exact ⟨a :: pre, by simp [← h]⟩
    · exact ⟨[], rfl⟩

theorem stripLeft_idem (p : UInt8 → Bool) (l : Bytes) : stripLeft p (stripLeft p l) = stripLeft p l := by
  induction l with
  | nil => rfl
  | cons a r ih =>
    simp only [stripLeft]
    split
    · exact ih
    · rename_i h; simp [stripLeft, h]

theorem stripLeft_prefix_fix (p : UInt8 → Bool) (m k rest : Bytes) (hm : stripLeft p m = m) (e : m = k ++ rest) :
    stripLeft p k = k := by
  cases k with
  | nil => rfl
  | cons a t =>
    subst e
    simp only [List.cons_append, stripLeft] at hm ⊢
    split at hm
    · rename_i hp
      have := stripLeft_suffix p (t ++ rest)
      obtain ⟨pre, h⟩ := this
      rw [hm] at h
      have := congrArg List.length h
      simp at this; omega
    · rename_i hp; simp [hp]

theorem strip_trimmed' (p : UInt8 → Bool) (l : Bytes) : trimmed p (strip p l) := by
  unfold trimmed strip
  have hm := stripLeft_idem p l
  obtain ⟨pre, hk⟩ := stripLeft_suffix p (stripLeft p l).reverse
  constructor
  · apply stripLeft_prefix_fix p (stripLeft p l) _ pre.reverse hm
    have := congrArg List.reverse hk
    simpa using this
  · simp [stripLeft_idem]

theorem strip_sub (p : UInt8 → Bool) (l : Bytes) : ∀ b ∈ strip p l, b ∈ l := by
  intro b hb
  unfold strip at hb
  obtain ⟨pre1, h1⟩ := stripLeft_suffix p l
  obtain ⟨pre2, h2⟩ := stripLeft_suffix p (stripLeft p l).reverse
  have hb' : b ∈ stripLeft p (stripLeft p l).reverse := by simpa using hb
  have : b ∈ (stripLeft p l).reverse := by rw [h2]; simp [hb']
  have : b ∈ stripLeft p l := by simpa using this
  rw [h1]; simp [this]

theorem strip_length_le (p : UInt8 → Bool) (l : Bytes) : (strip p l).length ≤ l.length := by
  unfold strip
  obtain ⟨pre1, h1⟩ := stripLeft_suffix p l
  obtain ⟨pre2, h2⟩ := stripLeft_suffix p (stripLeft p l).reverse
  have e1 := congrArg List.length h1
  have e2 := congrArg List.length h2
  simp at e1 e2 ⊢; omega

/-- a 16-byte title field whose bytes are ASCII unpads to a title the library reads back -/
theorem titleOk_strip (t : Bytes) (hl : t.length = 16) (ha : ascii t) : titleOk (strip (· == 0) t) :=
  ⟨by have := strip_length_le (· == 0) t; omega, fun b hb => ha b (strip_sub _ t b hb), strip_trimmed' _ t⟩

/-! ### whole PDUs -/

/-- the encoding with the AE title fields written as they are (16 raw bytes) -/
def Assoc.encRaw (ty : Nat) (a : Assoc) : Bytes :=
  u8 ty ++ (u8 a.rsv1 ++ (be32 a.pduLength ++ (be16 a.protoVer ++ (be16 a.rsv2 ++ (a.called ++ (a.calling
    ++ ((a.rsv3.map be32).flatten ++ encItems a.items)))))))

def Pdu.encRaw : Pdu → Bytes
  | .rq a => a.encRaw 1
  | .ac a => a.encRaw 2
  | p => p.enc

/-- User Information, where present, is the last variable item (PS3.8 Table 9-11/9-17) -/
def userInfoLast : List Item → Prop
  | [] => True
  | [_] => True
  | i :: j :: r => i.isUserInfo = false ∧ userInfoLast (j :: r)

theorem itemsOk_of (l : List Item) (h : ∀ i ∈ l, i.WF) (hu : userInfoLast l) : itemsOk l := by
  induction l with
  | nil => trivial
  | cons i r ih =>
    cases r with
    | nil => exact h i (by simp)
    | cons j r' => exact ⟨h i (by simp), hu.1, ih (fun x hx => h x (by simp [hx])) hu.2⟩

/-- conformance of the text in an A-ASSOCIATE PDU as the strict reader returns it: titles ASCII and
padded on the right only, text fields as `SubItem.Conf`/`Item.Conf`, User Information last -/
def Assoc.Conf (a : Assoc) : Prop :=
  ascii a.called ∧ pad16 (strip (· == 0) a.called) = a.called ∧
  ascii a.calling ∧ pad16 (strip (· == 0) a.calling) = a.calling ∧
  (∀ i ∈ a.items, i.Conf) ∧ userInfoLast a.items

def Pdu.Conf : Pdu → Prop
  | .rq a => a.Conf
  | .ac a => a.Conf
  | _ => True

def Assoc.unpad (a : Assoc) : Assoc :=
  { a with called := strip (· == 0) a.called, calling := strip (· == 0) a.calling }

theorem parseAssoc_sound {t r1 : UInt8} {len pv r2 : Nat} {rest body b1 b2 b3 b4 b5 called calling r3 : Bytes}
    {rsv3 : List Nat} {items : List Item} {rq : Bool}
    (h0 : rd32 rest = some (len, body)) (hlen : body.length = len)
    (h1 : rd16 body = some (pv, b1)) (h2 : rd16 b1 = some (r2, b2)) (h3 : slice 16 b2 = some (called, b3))
    (h4 : slice 16 b3 = some (calling, b4)) (h5 : slice 32 b4 = some (r3, b5))
    (h6 : parse32s 8 r3 = some rsv3) (h7 : parseItems rq (b5.length + 1) b5 = some items) :
    let a : Assoc := { rsv1 := r1.toNat, protoVer := pv, rsv2 := r2, called := called, calling := calling,
                       rsv3 := rsv3, items := items }
    a.encRaw t.toNat = t :: r1 :: rest ∧ (∀ i ∈ items, i.strict ∧ i.fits rq) ∧ (a.Conf → a.unpad.WF ∧ a.unpad.enc t.toNat = t :: r1 :: rest) := by
  intro a
  obtain ⟨e0, hl32⟩ := rd32_some h0
  obtain ⟨e1, hpv⟩ := rd16_some h1
  obtain ⟨e2, hr2⟩ := rd16_some h2
  obtain ⟨e3, hc1⟩ := slice_some h3
  obtain ⟨e4, hc2⟩ := slice_some h4
  obtain ⟨e5, hc3⟩ := slice_some h5
  obtain ⟨e6, hn8, hall8⟩ := parse32s_sound _ _ _ h6
  obtain ⟨e7, hitems⟩ := parseItems_sound rq _ _ _ h7
  have hstrict : ∀ i ∈ items, i.strict := fun i hi => (hitems i hi).1
  have hsum := encItems_len items hstrict
  have hpl : a.pduLength = len := by
    show 68 + (items.map Item.totalLength).sum = len
    rw [← hsum, e7, ← hlen, e1, e2, e3, e4, e5]
    simp only [List.length_append, be16_length, hc1, hc2, hc3]; omega
  have hraw : a.encRaw t.toNat = t :: r1 :: rest := by
    show u8 t.toNat ++ (u8 r1.toNat ++ (be32 a.pduLength ++ (be16 pv ++ (be16 r2 ++ (called ++ (calling ++
      ((rsv3.map be32).flatten ++ encItems items))))))) = _
    rw [hpl, e6, e7, u8_of_toNat, u8_of_toNat, e0, e1, e2, e3, e4, e5]; simp
  refine ⟨hraw, fun i hi => ⟨(hitems i hi).1, (hitems i hi).2.1⟩, ?_⟩
  intro hc
  obtain ⟨ha1, hp1, ha2, hp2, hci, hul⟩ := hc
  have hwfi : ∀ i ∈ items, i.WF := fun i hi => (hitems i hi).2.2 (hci i hi)
  constructor
  · exact ⟨toNat_lt _, hpv, hr2, titleOk_strip _ hc1 ha1, titleOk_strip _ hc2 ha2, hn8, hall8,
      itemsOk_of items hwfi hul, by show a.pduLength < 4294967296; omega⟩
  · have : a.unpad.enc t.toNat = a.encRaw t.toNat := by
      simp only [Assoc.enc, Assoc.encRaw, Assoc.unpad, Assoc.pduLength, hp1, hp2, List.append_assoc]
    rw [this, hraw]

def Pdu.unpad : Pdu → Pdu
  | .rq a => .rq a.unpad
  | .ac a => .ac a.unpad
  | p => p

theorem unpadTitles_eq (p : Pdu) : unpadTitles p = p.unpad := by
  cases p <;> rfl

/-- items of the kind PS3.8 allows in this PDU, length-carrying sub-items carrying the standard's 4 -/
def Pdu.Shape : Pdu → Prop
  | .rq a => ∀ i ∈ a.items, i.strict ∧ i.fits true
  | .ac a => ∀ i ∈ a.items, i.strict ∧ i.fits false
  | _ => True

theorem parsePdu_sound {b : Bytes} {v : Pdu} (h : parsePdu b = some v) :
    v.encRaw = b ∧ v.Shape ∧ (v.Conf → v.unpad.WF ∧ v.unpad.enc = b) := by
  unfold parsePdu at h
  split at h
  · rename_i t r1 rest
    split at h
    · rename_i len body h0
      split at h
      · simp at h
      · rename_i hlen
        have hlen : body.length = len := by simpa using hlen
        obtain ⟨e0, hl32⟩ := rd32_some h0
        split at h
        · rename_i h12
          split at h
          · rename_i pv b1 h1
            split at h
            · rename_i r2 b2 h2
              split at h
              · rename_i called b3 h3
                split at h
                · rename_i calling b4 h4
                  split at h
                  · rename_i r3 b5 h5
                    split at h
                    · rename_i rsv3 items h6 h7
                      simp only [Option.some.injEq] at h
                      by_cases ht1 : t.toNat = 1
                      · simp only [ht1, ↓reduceIte] at h
                        subst h
                        have h7' : parseItems true (b5.length + 1) b5 = some items := by simpa [ht1] using h7
                        have := parseAssoc_sound (t := t) (r1 := r1) h0 hlen h1 h2 h3 h4 h5 h6 h7'
                        rw [ht1] at this
                        exact ⟨this.1, this.2.1, this.2.2⟩
                      · have ht2 : t.toNat = 2 := by omega
                        simp only [ht1, ↓reduceIte] at h
                        subst h
                        have h7' : parseItems false (b5.length + 1) b5 = some items := by simpa [ht1] using h7
                        have := parseAssoc_sound (t := t) (r1 := r1) h0 hlen h1 h2 h3 h4 h5 h6 h7'
                        rw [ht2] at this
                        exact ⟨this.1, this.2.1, this.2.2⟩
                    · simp at h
                  · simp at h
                · simp at h
              · simp at h
            · simp at h
          · simp at h
        · split at h
          · rename_i _ h3
            split at h
            · rename_i r2 res src rsn _
              simp only [Option.some.injEq] at h; subst h
              have hb : len = 4 := by simpa using hlen.symm
              subst hb
              have henc : (Pdu.rj r1.toNat r2.toNat res.toNat src.toNat rsn.toNat).enc = t :: r1 :: rest := by
                simp only [Pdu.enc, u8_of_toNat, e0]
                have : u8 3 = [t] := by rw [← h3, u8_of_toNat]
                rw [this]; simp
              exact ⟨henc, trivial, fun _ => ⟨⟨toNat_lt _, toNat_lt _, toNat_lt _, toNat_lt _, toNat_lt _⟩, henc⟩⟩
            · simp at h
          · split at h
            · rename_i _ _ h4
              simp only [Option.map_eq_some_iff] at h
              obtain ⟨pdvs, hp, e⟩ := h
              subst e
              obtain ⟨ep, hall⟩ := parsePdvs_sound _ _ _ hp
              have hs := encPdvs_len pdvs
              have henc : (Pdu.pdata r1.toNat pdvs).enc = t :: r1 :: rest := by
                simp only [Pdu.enc, u8_of_toNat, e0]
                have : u8 4 = [t] := by rw [← h4, u8_of_toNat]
                rw [this, ← hs, ep, hlen]; simp
              exact ⟨henc, trivial, fun _ => ⟨⟨toNat_lt _, hall, by rw [← hs, ep, hlen]; exact hl32⟩, henc⟩⟩
            · split at h
              · rename_i _ _ _ h5
                split at h
                · rename_i r2 hr
                  simp only [Option.some.injEq] at h; subst h
                  obtain ⟨eb, hr2⟩ := rd32_some hr
                  have hb : len = 4 := by rw [← hlen, eb]; simp
                  subst hb
                  have henc : (Pdu.rlrq r1.toNat r2).enc = t :: r1 :: rest := by
                    simp only [Pdu.enc, u8_of_toNat, e0, eb]
                    have : u8 5 = [t] := by rw [← h5, u8_of_toNat]
                    rw [this]; simp
                  exact ⟨henc, trivial, fun _ => ⟨⟨toNat_lt _, hr2⟩, henc⟩⟩
                · simp at h
              · split at h
                · rename_i _ _ _ _ h6
                  split at h
                  · rename_i r2 hr
                    simp only [Option.some.injEq] at h; subst h
                    obtain ⟨eb, hr2⟩ := rd32_some hr
                    have hb : len = 4 := by rw [← hlen, eb]; simp
                    subst hb
                    have henc : (Pdu.rlrp r1.toNat r2).enc = t :: r1 :: rest := by
                      simp only [Pdu.enc, u8_of_toNat, e0, eb]
                      have : u8 6 = [t] := by rw [← h6, u8_of_toNat]
                      rw [this]; simp
                    exact ⟨henc, trivial, fun _ => ⟨⟨toNat_lt _, hr2⟩, henc⟩⟩
                  · simp at h
                · split at h
                  · rename_i _ _ _ _ _ h7
                    split at h
                    · rename_i r2 r3 src rsn _
                      simp only [Option.some.injEq] at h; subst h
                      have hb : len = 4 := by simpa using hlen.symm
                      subst hb
                      have henc : (Pdu.abort r1.toNat r2.toNat r3.toNat src.toNat rsn.toNat).enc = t :: r1 :: rest := by
                        simp only [Pdu.enc, u8_of_toNat, e0]
                        have : u8 7 = [t] := by rw [← h7, u8_of_toNat]
                        rw [this]; simp
                      exact ⟨henc, trivial, fun _ => ⟨⟨toNat_lt _, toNat_lt _, toNat_lt _, toNat_lt _, toNat_lt _⟩, henc⟩⟩
                    · simp at h
                  · simp at h
    · simp at h
  · simp at h

end Dicom
