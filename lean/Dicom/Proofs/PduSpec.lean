import Dicom.Proofs.Pdu2
import Dicom.Spec.PduGrammar
/-! The strict PS3.8 reader reads what the model encoder writes. -/
namespace Dicom
open Dicom.Spec

theorem slice_append (v rest : Bytes) : slice v.length (v ++ rest) = some (v, rest) := by
  simp [slice]

theorem tlv_enc (t r : Nat) (v rest : Bytes) (ht : t < 256) (hr : r < 256) (hv : v.length < 65536) :
    tlv (u8 t ++ (u8 r ++ (be16 v.length ++ (v ++ rest)))) = some (t, r, v, rest) := by
  simp only [u8, be16, List.cons_append, List.nil_append, tlv]
  have h1 : (UInt8.ofNat (v.length / 256)).toNat * 256 + (UInt8.ofNat v.length).toNat = v.length := by
    simp [UInt8.toNat_ofNat']; omega
  rw [h1, slice_append]
  simp [u8_toNat t ht, u8_toNat r hr]

/-- type code, reserved byte and body of a sub-item -/
def SubItem.ty : SubItem → Nat
  | .maxLen .. => 0x51 | .implClass .. => 0x52 | .asyncOps .. => 0x53 | .role .. => 0x54
  | .implVersion .. => 0x55 | .extNeg .. => 0x56 | .userId .. => 0x58 | .userIdAc .. => 0x59
  | .generic t _ _ => t

def SubItem.rsv : SubItem → Nat
  | .maxLen r _ _ | .implClass r _ | .asyncOps r _ _ _ | .role r _ _ _ | .implVersion r _
  | .extNeg r _ _ | .userId r _ _ _ _ | .userIdAc r _ | .generic _ r _ => r

def SubItem.body : SubItem → Bytes
  | .maxLen _ _ ml => be32 ml
  | .implClass _ u => u
  | .asyncOps _ _ i p => be16 i ++ be16 p
  | .role _ u a b => be16 u.length ++ (u ++ (u8 a ++ u8 b))
  | .implVersion _ n => n
  | .extNeg _ u i => be16 u.length ++ (u ++ i)
  | .userId _ t pr p s => u8 t ++ (u8 pr ++ (be16 p.length ++ (p ++ (be16 s.length ++ s))))
  | .userIdAc _ r => be16 r.length ++ r
  | .generic _ _ d => d

/-- the two sub-items that store the item length they were constructed with carry the standard's 4 -/
def SubItem.strict : SubItem → Prop
  | .maxLen _ il _ => il = 4
  | .asyncOps _ il _ _ => il = 4
  | _ => True

theorem SubItem.enc_tlv (s : SubItem) (hs : s.strict) :
    s.enc = u8 s.ty ++ (u8 s.rsv ++ (be16 s.body.length ++ s.body)) := by
  cases s <;> simp only [SubItem.strict] at hs <;>
    simp [SubItem.enc, SubItem.ty, SubItem.rsv, SubItem.body, u8, hs] <;> (try (congr 1; omega))

theorem SubItem.body_length (s : SubItem) (h : s.WF) : s.body.length < 65536 ∧ s.ty < 256 ∧ s.rsv < 256 := by
  cases s <;> simp only [SubItem.WF] at h <;> simp [SubItem.body, SubItem.ty, SubItem.rsv, u8] <;> omega

theorem parseSub_body (s : SubItem) (h : s.WF) (hs : s.strict) : parseSub s.ty s.rsv s.body = some s := by
  cases s with
  | maxLen rsv il ml =>
    simp only [SubItem.strict] at hs; subst hs
    obtain ⟨_, _, h3⟩ := h
    simp [parseSub, SubItem.ty, SubItem.rsv, SubItem.body, be32, UInt8.toNat_ofNat']; omega
  | implClass rsv uid => simp [parseSub, SubItem.ty, SubItem.rsv, SubItem.body]
  | asyncOps rsv il i p =>
    simp only [SubItem.strict] at hs; subst hs
    obtain ⟨_, _, h3, h4⟩ := h
    simp [parseSub, SubItem.ty, SubItem.rsv, SubItem.body, be16, UInt8.toNat_ofNat']; omega
  | role rsv uid scu scp =>
    obtain ⟨_, _, h3, h4, h5⟩ := h
    simp only [parseSub, SubItem.ty, SubItem.rsv, SubItem.body]
    simp only [Nat.reduceEqDiff, ↓reduceIte]
    simp only [rd16_be16 uid.length (by omega), slice_append]
    simp [u8, u8_toNat, h4, h5]
  | implVersion rsv n => simp [parseSub, SubItem.ty, SubItem.rsv, SubItem.body]
  | extNeg rsv uid info =>
    obtain ⟨_, _, h3⟩ := h
    simp only [parseSub, SubItem.ty, SubItem.rsv, SubItem.body]
    simp only [Nat.reduceEqDiff, ↓reduceIte]
    simp only [rd16_be16 uid.length (by omega), slice_append]
    simp
  | userId rsv ty pr p s =>
    obtain ⟨_, h2, h3, _, _, h6⟩ := h
    simp only [parseSub, SubItem.ty, SubItem.rsv, SubItem.body, u8, List.cons_append, List.nil_append]
    simp only [Nat.reduceEqDiff, ↓reduceIte]
    have := slice_append s []
    simp only [List.append_nil] at this
    simp only [rd16_be16 p.length (by omega), slice_append, rd16_be16 s.length (by omega), this]
    simp [u8_toNat, h2, h3]
  | userIdAc rsv r =>
    obtain ⟨_, _, h3⟩ := h
    simp only [parseSub, SubItem.ty, SubItem.rsv, SubItem.body]
    simp only [Nat.reduceEqDiff, ↓reduceIte]
    have := slice_append r []
    simp only [List.append_nil] at this
    simp only [rd16_be16 r.length (by omega), this]
  | generic ty rsv d =>
    obtain ⟨_, _, h3, _, _⟩ := h
    simp only [knownSubType] at h3
    simp only [parseSub, SubItem.ty, SubItem.rsv, SubItem.body]
    have n1 : ¬ ty = 0x51 := fun e => h3 (by simp [e])
    have n2 : ¬ ty = 0x52 := fun e => h3 (by simp [e])
    have n3 : ¬ ty = 0x53 := fun e => h3 (by simp [e])
    have n4 : ¬ ty = 0x54 := fun e => h3 (by simp [e])
    have n5 : ¬ ty = 0x55 := fun e => h3 (by simp [e])
    have n6 : ¬ ty = 0x56 := fun e => h3 (by simp [e])
    have n8 : ¬ ty = 0x58 := fun e => h3 (by simp [e])
    have n9 : ¬ ty = 0x59 := fun e => h3 (by simp [e])
    simp [n1, n2, n3, n4, n5, n6, n8, n9]

theorem parseSubs_enc (l : List SubItem) (h : ∀ s ∈ l, s.WF ∧ s.strict) : ∀ f, l.length < f →
    parseSubs f (encSubs l) = some l := by
  induction l with
  | nil => intro f hf; cases f with
    | zero => omega
    | succ f => simp [encSubs, parseSubs]
  | cons s ss ih =>
    intro f hf
    cases f with
    | zero => omega
    | succ f =>
      obtain ⟨hw, hs⟩ := h s (by simp)
      obtain ⟨hb, ht, hr⟩ := SubItem.body_length s hw
      have hsplit : encSubs (s :: ss) = u8 s.ty ++ (u8 s.rsv ++ (be16 s.body.length ++ (s.body ++ encSubs ss))) := by
        simp only [encSubs, List.map_cons, List.flatten_cons]
        rw [SubItem.enc_tlv s hs]; simp [List.append_assoc]
      have hne : encSubs (s :: ss) ≠ [] := by rw [hsplit]; simp [u8]
      rw [parseSubs]
      · rw [hsplit, tlv_enc _ _ _ _ ht hr hb]
        simp only [parseSub_body s hw hs]
        rw [ih (fun x hx => h x (by simp [hx])) f (by simp at hf; omega)]
        rfl
      · exact hne

/-! ### lengths: what `total_length()` reports is what `encode()` emits -/

theorem SubItem.enc_length (s : SubItem) (hs : s.strict) : s.enc.length = s.totalLength := by
  cases s <;> simp only [SubItem.strict] at hs <;>
    simp [SubItem.enc, SubItem.totalLength, u8, hs] <;> omega

theorem encSubs_len (l : List SubItem) (h : ∀ s ∈ l, s.strict) :
    (encSubs l).length = (l.map SubItem.totalLength).sum := by
  induction l with
  | nil => simp [encSubs]
  | cons s ss ih =>
    have := ih (fun x hx => h x (by simp [hx]))
    simp only [encSubs] at this
    simp [encSubs, SubItem.enc_length s (h s (by simp)), this]

theorem TsSub.enc_length (t : TsSub) : t.enc.length = t.totalLength := by
  simp [TsSub.enc, TsSub.totalLength, u8]; omega

theorem encTss_len (l : List TsSub) : (encTss l).length = (l.map TsSub.totalLength).sum := by
  induction l with
  | nil => simp [encTss]
  | cons s ss ih => simp only [encTss] at ih; simp [encTss, TsSub.enc_length, ih]

def Item.strict : Item → Prop
  | .userInfo _ subs => ∀ s ∈ subs, s.strict
  | _ => True

theorem Item.enc_length (i : Item) (hs : i.strict) : i.enc.length = i.totalLength := by
  cases i with
  | appCtx rsv n => simp [Item.enc, Item.totalLength, Item.itemLength, u8]; omega
  | pcRq r1 id r2 r3 r4 ar abs ts =>
    simp [Item.enc, Item.totalLength, Item.itemLength, u8, encTss_len]; omega
  | pcAc r1 id r2 res r3 t =>
    simp [Item.enc, Item.totalLength, Item.itemLength, u8, TsSub.enc_length]; omega
  | userInfo rsv subs =>
    simp only [Item.strict] at hs
    simp [Item.enc, Item.totalLength, Item.itemLength, u8, encSubs_len subs hs]; omega

theorem encItems_len (l : List Item) (h : ∀ i ∈ l, i.strict) :
    (encItems l).length = (l.map Item.totalLength).sum := by
  induction l with
  | nil => simp [encItems]
  | cons s ss ih =>
    have := ih (fun x hx => h x (by simp [hx]))
    simp only [encItems] at this
    simp [encItems, Item.enc_length s (h s (by simp)), this]

theorem Pdv.enc_length (v : Pdv) : v.enc.length = v.totalLength := by
  simp [Pdv.enc, Pdv.totalLength, u8]

theorem encPdvs_len (l : List Pdv) : (encPdvs l).length = (l.map Pdv.totalLength).sum := by
  induction l with
  | nil => simp [encPdvs]
  | cons s ss ih => simp only [encPdvs] at ih; simp [encPdvs, Pdv.enc_length, ih]

def Pdu.strict : Pdu → Prop
  | .rq a => (∀ i ∈ a.items, i.strict) ∧ a.rsv3.length = 8
  | .ac a => (∀ i ∈ a.items, i.strict) ∧ a.rsv3.length = 8
  | _ => True

theorem flatten_be32_length (l : List Nat) : ((l.map be32).flatten).length = 4 * l.length := by
  induction l with
  | nil => simp
  | cons x xs ih => simp only [List.map_cons, List.flatten_cons, List.length_append, be32_length, ih, List.length_cons]; omega

theorem Assoc.enc_length (ty : Nat) (a : Assoc) (hs : ∀ i ∈ a.items, i.strict) (h8 : a.rsv3.length = 8) :
    (a.enc ty).length = 6 + a.pduLength := by
  have h32 := flatten_be32_length a.rsv3
  simp only [Assoc.enc, Assoc.pduLength, u8, List.length_append, List.length_cons, List.length_nil, be32_length,
    be16_length, pad16_length, h32, h8, encItems_len a.items hs]
  omega

theorem Pdu.enc_length (p : Pdu) (hs : p.strict) : p.enc.length = p.totalLength := by
  cases p with
  | rq a => exact Assoc.enc_length 1 a hs.1 hs.2
  | ac a => exact Assoc.enc_length 2 a hs.1 hs.2
  | rj r1 r2 a b c => simp [Pdu.enc, Pdu.totalLength, u8]
  | pdata rsv pdvs => simp [Pdu.enc, Pdu.totalLength, u8, encPdvs_len]; omega
  | rlrq r1 r2 => simp [Pdu.enc, Pdu.totalLength, u8]
  | rlrp r1 r2 => simp [Pdu.enc, Pdu.totalLength, u8]
  | abort r1 r2 r3 a b => simp [Pdu.enc, Pdu.totalLength, u8]

/-! ### the strict reader on items and whole PDUs -/

theorem parseTss_enc (l : List TsSub) (h : ∀ t ∈ l, t.WF) : ∀ f, l.length < f →
    parseTss f (encTss l) = some l := by
  induction l with
  | nil => intro f hf; cases f with
    | zero => omega
    | succ f => simp [encTss, parseTss]
  | cons t ts ih =>
    intro f hf
    cases f with
    | zero => omega
    | succ f =>
      obtain ⟨h1, _, h3⟩ := h t (by simp)
      have hsplit : encTss (t :: ts) = u8 0x40 ++ (u8 t.rsv ++ (be16 t.name.length ++ (t.name ++ encTss ts))) := by
        simp [encTss, TsSub.enc, List.append_assoc]
      have hne : encTss (t :: ts) ≠ [] := by rw [hsplit]; simp [u8]
      rw [parseTss]
      · rw [hsplit, tlv_enc _ _ _ _ (by omega) h1 h3]
        simp only [↓reduceIte]
        rw [ih (fun x hx => h x (by simp [hx])) f (by simp at hf; omega)]
        rfl
      · exact hne

def Item.ty : Item → Nat
  | .appCtx .. => 0x10 | .pcRq .. => 0x20 | .pcAc .. => 0x21 | .userInfo .. => 0x50

def Item.rsv : Item → Nat
  | .appCtx r _ | .pcRq r _ _ _ _ _ _ _ | .pcAc r _ _ _ _ _ | .userInfo r _ => r

def Item.body : Item → Bytes
  | .appCtx _ n => n
  | .pcRq _ id r2 r3 r4 ar abs ts =>
      u8 id ++ (u8 r2 ++ (u8 r3 ++ (u8 r4 ++ (u8 0x30 ++ (u8 ar ++ (be16 abs.length ++ (abs ++ encTss ts)))))))
  | .pcAc _ id r2 res r3 t => u8 id ++ (u8 r2 ++ (u8 res ++ (u8 r3 ++ t.enc)))
  | .userInfo _ subs => encSubs subs

theorem Item.enc_tlv (i : Item) (hs : i.strict) :
    i.enc = u8 i.ty ++ (u8 i.rsv ++ (be16 i.body.length ++ i.body)) := by
  have hl := Item.enc_length i hs
  cases i with
  | appCtx rsv n => simp [Item.enc, Item.ty, Item.rsv, Item.body]
  | pcRq r1 id r2 r3 r4 ar abs ts =>
    have : (Item.pcRq r1 id r2 r3 r4 ar abs ts).itemLength = (Item.pcRq r1 id r2 r3 r4 ar abs ts).body.length := by
      simp [Item.itemLength, Item.body, u8, encTss_len]; omega
    simp [Item.enc, Item.ty, Item.rsv, this, Item.body, List.append_assoc]
  | pcAc r1 id r2 res r3 t =>
    have : (Item.pcAc r1 id r2 res r3 t).itemLength = (Item.pcAc r1 id r2 res r3 t).body.length := by
      simp [Item.itemLength, Item.body, u8, TsSub.enc_length]; omega
    simp [Item.enc, Item.ty, Item.rsv, this, Item.body, List.append_assoc]
  | userInfo rsv subs =>
    simp only [Item.strict] at hs
    have : (Item.userInfo rsv subs).itemLength = (Item.userInfo rsv subs).body.length := by
      simp [Item.itemLength, Item.body, encSubs_len subs hs]
    simp [Item.enc, Item.ty, Item.rsv, this, Item.body]

/-- the item kind is one PS3.8 allows in this PDU: Presentation Context (RQ) items only in an
A-ASSOCIATE-RQ, Presentation Context (AC) items only in an A-ASSOCIATE-AC -/
def Item.fits (rq : Bool) : Item → Prop
  | .pcRq .. => rq = true
  | .pcAc .. => rq = false
  | _ => True

theorem Item.body_bounds (i : Item) (h : i.WF) (hs : i.strict) : i.body.length < 65536 ∧ i.rsv < 256 := by
  have hl := Item.enc_length i hs
  cases i with
  | appCtx rsv n => exact ⟨h.2.2, h.1⟩
  | pcRq r1 id r2 r3 r4 ar abs ts =>
    obtain ⟨h1, _, _, _, _, _, _, _, _, h10⟩ := h
    refine ⟨?_, h1⟩
    have : (Item.pcRq r1 id r2 r3 r4 ar abs ts).itemLength = (Item.pcRq r1 id r2 r3 r4 ar abs ts).body.length := by
      simp [Item.itemLength, Item.body, u8, encTss_len]; omega
    omega
  | pcAc r1 id r2 res r3 t =>
    obtain ⟨h1, _, _, _, _, _, h7⟩ := h
    refine ⟨?_, h1⟩
    have : (Item.pcAc r1 id r2 res r3 t).itemLength = (Item.pcAc r1 id r2 res r3 t).body.length := by
      simp [Item.itemLength, Item.body, u8, TsSub.enc_length]; omega
    omega
  | userInfo rsv subs =>
    obtain ⟨h1, _, h3⟩ := h
    simp only [Item.strict] at hs
    refine ⟨?_, h1⟩
    have : (Item.userInfo rsv subs).itemLength = (Item.userInfo rsv subs).body.length := by
      simp [Item.itemLength, Item.body, encSubs_len subs hs]
    omega

theorem parseItem_body (rq : Bool) (i : Item) (h : i.WF) (hs : i.strict) (hf : i.fits rq) :
    parseItem rq i.ty i.rsv i.body = some i := by
  cases i with
  | appCtx rsv n => simp [parseItem, Item.ty, Item.rsv, Item.body]
  | pcRq r1 id r2 r3 r4 ar abs ts =>
    obtain ⟨_, h2, h3, h4, h5, h6, _, h8, h9, _⟩ := h
    simp only [Item.fits] at hf
    subst hf
    simp only [parseItem, Item.ty, Item.rsv, Item.body, u8, List.cons_append, List.nil_append]
    simp only [Nat.reduceEqDiff, ↓reduceIte, and_true]
    have ht := tlv_enc 0x30 ar abs (encTss ts) (by omega) h6 h8
    simp only [u8, List.cons_append, List.nil_append] at ht
    rw [ht]
    simp only []
    rw [parseTss_enc ts h9 _ (by have := encTss_length ts; omega)]
    simp [u8_toNat, h2, h3, h4, h5]
  | pcAc r1 id r2 res r3 t =>
    obtain ⟨_, h2, h3, h4, h5, h6, _⟩ := h
    simp only [Item.fits] at hf
    subst hf
    simp only [parseItem, Item.ty, Item.rsv, Item.body, u8, List.cons_append, List.nil_append]
    simp only [Nat.reduceEqDiff, ↓reduceIte, Bool.false_eq_true, and_false, not_false_eq_true, and_true]
    have ht := tlv_enc 0x40 t.rsv t.name [] (by omega) h6.1 h6.2.2
    simp only [u8, List.cons_append, List.nil_append, List.append_nil] at ht
    simp only [TsSub.enc, u8, List.cons_append, List.nil_append, List.append_assoc]
    rw [ht]
    simp [u8_toNat, h2, h3, h4, h5]
  | userInfo rsv subs =>
    obtain ⟨_, h2, _⟩ := h
    simp only [Item.strict] at hs
    simp only [parseItem, Item.ty, Item.rsv, Item.body]
    simp only [Nat.reduceEqDiff, ↓reduceIte, false_and]
    rw [parseSubs_enc subs (fun s hx => ⟨h2 s hx, hs s hx⟩) _ (by have := encSubs_length subs; omega)]
    rfl

theorem encItems_length_ge (l : List Item) : l.length ≤ (encItems l).length := by
  induction l with
  | nil => simp [encItems]
  | cons i is ih =>
    obtain ⟨b, r, he, _⟩ := Item.enc_head i
    have h1 : 1 ≤ i.enc.length := by rw [he]; simp
    simp only [encItems, List.map_cons, List.flatten_cons, List.length_append, List.length_cons] at ih ⊢
    omega

theorem parseItems_enc (rq : Bool) (l : List Item) (h : ∀ i ∈ l, i.WF ∧ i.strict ∧ i.fits rq) : ∀ f, l.length < f →
    parseItems rq f (encItems l) = some l := by
  induction l with
  | nil => intro f hf; cases f with
    | zero => omega
    | succ f => simp [encItems, parseItems]
  | cons i is ih =>
    intro f hf
    cases f with
    | zero => omega
    | succ f =>
      obtain ⟨hw, hs, hfit⟩ := h i (by simp)
      obtain ⟨hb, hr⟩ := Item.body_bounds i hw hs
      have hty : i.ty < 256 := by cases i <;> simp [Item.ty]
      have hsplit : encItems (i :: is) = u8 i.ty ++ (u8 i.rsv ++ (be16 i.body.length ++ (i.body ++ encItems is))) := by
        simp only [encItems, List.map_cons, List.flatten_cons]
        rw [Item.enc_tlv i hs]; simp [List.append_assoc]
      have hne : encItems (i :: is) ≠ [] := by rw [hsplit]; simp [u8]
      rw [parseItems]
      · rw [hsplit, tlv_enc _ _ _ _ hty hr hb]
        simp only [parseItem_body rq i hw hs hfit]
        rw [ih (fun x hx => h x (by simp [hx])) f (by simp at hf; omega)]
        rfl
      · exact hne

theorem parsePdvs_enc (l : List Pdv) (h : ∀ v ∈ l, v.WF) : ∀ f, l.length < f →
    parsePdvs f (encPdvs l) = some l := by
  induction l with
  | nil => intro f hf; cases f with
    | zero => omega
    | succ f => simp [encPdvs, parsePdvs]
  | cons v vs ih =>
    intro f hf
    cases f with
    | zero => omega
    | succ f =>
      obtain ⟨h1, h2⟩ := h v (by simp)
      have hsplit : encPdvs (v :: vs) = be32 (v.value.length + 1) ++ ((u8 v.ctx ++ v.value) ++ encPdvs vs) := by
        simp [encPdvs, Pdv.enc, List.append_assoc]
      have hne : encPdvs (v :: vs) ≠ [] := by rw [hsplit]; simp [be32]
      rw [parsePdvs]
      · rw [hsplit, rd32_be32 _ h2]
        simp only [Nat.add_eq_zero_iff, Nat.succ_ne_self, and_false, ↓reduceIte]
        have hl : (u8 v.ctx ++ v.value).length = v.value.length + 1 := by simp [u8]
        rw [← hl, slice_append]
        simp only [u8, List.cons_append, List.nil_append]
        rw [ih (fun x hx => h x (by simp [hx])) f (by simp at hf; omega)]
        simp [u8_toNat v.ctx h1]
      · exact hne

theorem parse32s_enc (l : List Nat) (h : ∀ x ∈ l, x < 4294967296) :
    parse32s l.length ((l.map be32).flatten) = some l := by
  induction l with
  | nil => simp [parse32s]
  | cons x xs ih =>
    simp only [List.length_cons, List.map_cons, List.flatten_cons, parse32s]
    rw [rd32_be32 x (h x (by simp))]
    simp only []
    rw [ih (fun y hy => h y (by simp [hy]))]
    rfl

theorem strip_pad16 (t : Bytes) (h : titleOk t) : strip (· == 0) (pad16 t) = t := by
  have := decodeTitle_pad16 t h
  simp only [decodeTitle, decodeText] at this
  split at this
  · simpa using this
  · simp at this

end Dicom
