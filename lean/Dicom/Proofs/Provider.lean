import Dicom.Model.Provider
/-! Invariants of the provider loop model, for every schedule. -/
namespace Dicom.Prov
open Dicom.UL

def TimerOk (p : P) : Prop := p.timer = true ↔ (p.st = .s2 ∨ p.st = .s13)

/-- quiescent: nothing pending, ARTIM consistent, idle exactly when the transport is closed -/
def Quiet (p : P) : Prop :=
  p.crashed = false ∧ TimerOk p ∧ p.evq = [] ∧ (p.st = .s1 ↔ p.sock = false)

/-- the state right after event `e` has been popped -/
def Pre (e : Ev) (p : P) : Prop :=
  p.crashed = false ∧ TimerOk p ∧ p.evq = [] ∧
  (e = .e17 → p.sock = false ∧ p.st ≠ .s1) ∧
  (e = .e5 → p.sock = true ∧ p.st = .s1) ∧
  (e ≠ .e17 → e ≠ .e5 → (p.st = .s1 ↔ p.sock = false))

theorem dropGen_fields (p : P) :
    (dropGen p).st = p.st ∧ (dropGen p).sock = p.sock ∧ (dropGen p).timer = p.timer ∧
    (dropGen p).evq = p.evq ∧ (dropGen p).crashed = p.crashed ∧ (dropGen p).fromUser = p.fromUser := by
  unfold dropGen; split <;> simp

theorem quiet_dropGen {p : P} (h : Quiet p) : Quiet (dropGen p) := by
  obtain ⟨h1, h2, h3, h4, h5, _⟩ := dropGen_fields p
  unfold Quiet TimerOk at *
  rw [h1, h2, h3, h4, h5]; exact h

theorem act_quiet (e : Ev) (p : P) (a : Act) (h : Pre e p) (ht : table e p.st = some a) :
    Quiet (act a p).1 := by
  obtain ⟨hc, htm, hq, h17, h5, hs⟩ := h
  obtain ⟨st, sock, evq, rx, timer, now, tstart, raw, inbox, fromUser, gen, requestor, crashed⟩ := p
  simp only at hc hq ht h17 h5 hs
  subst hc hq
  unfold TimerOk at htm
  simp only at htm
  cases e <;> cases st <;> simp [table] at ht <;> subst ht <;>
    simp_all [act, aa8Body, Quiet, TimerOk] <;>
    (try (split <;> simp_all)) <;> (try (cases sock <;> simp_all)) <;> (try (cases requestor <;> simp_all))

def PInv (p : P) : Prop :=
  p.crashed = false →
    (Quiet p ∨ (TimerOk p ∧ p.sock = true ∧ p.st = .s1 ∧ p.evq = [.e5]) ∨
      (TimerOk p ∧ p.sock = false ∧ p.st ≠ .s1 ∧ p.evq = [.e17]))

theorem arrive_fields (p : P) (t : Tick) :
    (arrive p t).st = p.st ∧ (arrive p t).sock = p.sock ∧ (arrive p t).timer = p.timer ∧
    (arrive p t).evq = p.evq ∧ (arrive p t).crashed = p.crashed ∧
    (arrive p t).fromUser = p.fromUser ++ t.enq := by
  simp [arrive]

theorem quiet_arrive {p : P} (t : Tick) (h : Quiet p) : Quiet (arrive p t) := by
  obtain ⟨h1, h2, h3, h4, h5, _⟩ := arrive_fields p t
  unfold Quiet TimerOk at *
  rw [h1, h2, h3, h4, h5]; exact h

theorem pollRest_quiet (pp : P) (h : Quiet pp) :
    (Quiet (pollRest pp)) ∨ (∃ e, (pollRest pp).evq = [e] ∧ Pre e { (pollRest pp) with evq := [] }) := by
  obtain ⟨hc, htm, hq, hs⟩ := h
  obtain ⟨st, sock, evq, rx, timer, now, tstart, raw, inbox, fromUser, gen, requestor, crashed⟩ := pp
  simp only at hc hq hs
  subst hc hq
  unfold TimerOk at htm
  simp only at htm
  simp only [pollRest, checkOutgoing, checkTimer]
  by_cases hg : 0 < gen
  · simp only [hg, ↓reduceIte]
    right; refine ⟨.e9, by simp, ?_⟩
    simp_all [Pre, TimerOk]
  · simp only [hg, ↓reduceIte]
    cases fromUser with
    | nil =>
      simp only []
      by_cases hx : (timer && decide (now - tstart > artim)) = true
      · simp only [hx, ↓reduceIte]
        right; refine ⟨.e18, by simp, ?_⟩
        simp_all [Pre, TimerOk]
      · simp only [hx]
        left; simp_all [Quiet, TimerOk]
    | cons k r =>
      cases k <;> simp only [] <;> right
      · refine ⟨.e1, by simp [evOfTx], ?_⟩; simp_all [Pre, TimerOk]
      · refine ⟨.e7, by simp [evOfTx], ?_⟩; simp_all [Pre, TimerOk]
      · refine ⟨.e8, by simp [evOfTx], ?_⟩; simp_all [Pre, TimerOk]
      · refine ⟨.e9, by simp, ?_⟩; simp_all [Pre, TimerOk]
      · refine ⟨.e11, by simp [evOfTx], ?_⟩; simp_all [Pre, TimerOk]
      · refine ⟨.e14, by simp [evOfTx], ?_⟩; simp_all [Pre, TimerOk]
      · refine ⟨.e15, by simp [evOfTx], ?_⟩; simp_all [Pre, TimerOk]

/-- polling a quiet provider: still quiet, or exactly one event whose popped state satisfies `Pre` -/
theorem poll_quiet (p : P) (h : Quiet p) :
    (Quiet (poll p)) ∨ (∃ e, (poll p).evq = [e] ∧ Pre e { (poll p) with evq := [] }) := by
  have h0 := h
  obtain ⟨hc, htm, hq, hs⟩ := h
  obtain ⟨st, sock, evq, rx, timer, now, tstart, raw, inbox, fromUser, gen, requestor, crashed⟩ := p
  simp only at hc hq hs
  subst hc hq
  unfold TimerOk at htm
  simp only at htm
  simp only [poll, checkNetwork, processIncoming]
  cases sock
  · -- no socket: the network check does nothing
    simp only [Bool.not_false, ↓reduceIte]
    exact pollRest_quiet _ h0
  · simp only [Bool.not_true, Bool.false_eq_true, ↓reduceIte]
    have hne : st ≠ .s1 := fun e => by simp_all
    by_cases h4 : st = .s4
    · subst h4
      simp only [↓reduceIte]
      right; refine ⟨.e2, by simp, ?_⟩
      simp_all [Pre, TimerOk]
    · simp only [h4, ↓reduceIte]
      cases raw with
      | cons tk r =>
        right; refine ⟨evOfRx tk, by simp, ?_⟩
        cases tk <;> simp_all [Pre, TimerOk, evOfRx]
      | nil =>
        simp only []
        cases inbox with
        | nil =>
          simp only []
          exact pollRest_quiet _ h0
        | cons seg rest =>
          cases seg with
          | none =>
            right; refine ⟨.e17, by simp, ?_⟩
            simp_all [Pre, TimerOk]
          | some toks =>
            simp only [List.nil_append]
            cases toks with
            | cons tk r =>
              right; refine ⟨evOfRx tk, by simp, ?_⟩
              cases tk <;> simp_all [Pre, TimerOk, evOfRx]
            | nil =>
              simp only []
              apply pollRest_quiet
              unfold Quiet TimerOk
              simp only
              exact ⟨trivial, htm, trivial, hs⟩

theorem sends_s1 (e : Ev) (a : Act) (p : P) (hs : p.st = .s1) (ht : table e p.st = some a) : sends a p = false := by
  rw [hs] at ht
  cases e <;> simp [table] at ht <;> subst ht <;> rfl

theorem iter_inv (p : P) (t : Tick) (h : PInv p) : PInv (iter p t).1 := by
  unfold iter
  by_cases hc : p.crashed = true
  · simp only [hc, ↓reduceIte]; intro h'; simp [hc] at h'
  · have hc' : p.crashed = false := by simpa using hc
    simp only [hc', Bool.false_eq_true, ↓reduceIte]
    -- what dispatch does with exactly one pending event whose popped state satisfies Pre
    have step : ∀ (q : P) (e : Ev), q.evq = [e] → Pre e { q with evq := [] } → PInv (dispatch q t.sendFails).1 := by
      intro q e he hpre
      unfold dispatch
      simp only [he]
      cases htab : table e q.st with
      | none => intro h'; simp at h'
      | some a =>
        simp only []
        by_cases hsf : (t.sendFails && sends a q) = true
        · simp only [hsf, ↓reduceIte]
          intro _
          right; right
          obtain ⟨h1, h2, h3, h4, h5, _⟩ := dropGen_fields { q with evq := [] ++ [Ev.e17], sock := false }
          have hst : q.st ≠ .s1 := by
            intro hs1
            have := sends_s1 e a q hs1 htab
            simp [this] at hsf
          unfold TimerOk
          rw [h1, h2, h3, h4]
          exact ⟨hpre.2.1, rfl, hst, rfl⟩
        · simp only [hsf, Bool.false_eq_true, ↓reduceIte]
          intro _
          exact Or.inl (quiet_dropGen (act_quiet e { q with evq := [] } a hpre htab))
    rcases h hc' with hq | ⟨htm, hsk, hst, hev⟩ | ⟨htm, hsk, hst, hev⟩
    · -- quiet: poll
      have hqe : p.evq.isEmpty = true := by simp [hq.2.2.1]
      unfold prePoll
      simp only [hqe, ↓reduceIte]
      rcases poll_quiet (arrive p t) (quiet_arrive t hq) with hq1 | ⟨e, he, hpre⟩
      · intro _
        unfold dispatch
        simp only [hq1.2.2.1]
        exact Or.inl hq1
      · exact step _ e he hpre
    · -- initial acceptor state: Evt5 pending, no poll
      have hne : p.evq.isEmpty = false := by simp [hev]
      unfold prePoll
      simp only [hne, Bool.false_eq_true, ↓reduceIte]
      obtain ⟨h1, h2, h3, h4, h5, _⟩ := arrive_fields p t
      apply step (arrive p t) .e5 (by rw [h4, hev])
      unfold Pre TimerOk
      unfold TimerOk at htm
      simp only [h1, h2, h3, h5]
      refine ⟨hc', htm, ?_, ?_, ?_, ?_⟩ <;> simp [hsk, hst]
    · -- transport failure under an action: Evt17 pending
      have hne : p.evq.isEmpty = false := by simp [hev]
      unfold prePoll
      simp only [hne, Bool.false_eq_true, ↓reduceIte]
      obtain ⟨h1, h2, h3, h4, h5, _⟩ := arrive_fields p t
      apply step (arrive p t) .e17 (by rw [h4, hev])
      unfold Pre TimerOk
      unfold TimerOk at htm
      simp only [h1, h2, h3, h5]
      refine ⟨hc', htm, ?_, ?_, ?_, ?_⟩ <;> simp [hsk, hst]

theorem run_inv (σ : List Tick) : ∀ p, PInv p → PInv (run p σ).1 := by
  induction σ with
  | nil => intro p h; simpa [run] using h
  | cons t ts ih =>
    intro p h
    simp only [run]
    exact ih _ (iter_inv p t h)

theorem initAcc_inv : PInv initAcc := by
  intro _; right; left; simp [initAcc, TimerOk]

theorem initReq_inv : PInv initReq := by
  intro _; left; simp [initReq, Quiet, TimerOk]

end Dicom.Prov
