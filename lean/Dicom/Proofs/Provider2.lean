import Dicom.Proofs.Provider
/-! Further facts about one pass of the loop. -/
namespace Dicom.Prov
open Dicom.UL

theorem pollRest_st (p : P) : (pollRest p).st = p.st ∧ (pollRest p).sock = p.sock ∧ (pollRest p).crashed = p.crashed := by
  unfold pollRest checkOutgoing checkTimer
  split
  · rename_i p2 h
    split at h
    · simp only [Prod.mk.injEq] at h; rw [← h.1]; simp
    · split at h <;> simp only [Prod.mk.injEq] at h <;> (try (rw [← h.1]; simp)) <;> (try exact absurd h.2 (by simp))
  · rename_i p2 h
    have hp : p2.st = p.st ∧ p2.sock = p.sock ∧ p2.crashed = p.crashed := by
      split at h
      · simp at h
      · split at h <;> simp only [Prod.mk.injEq] at h <;> (try (rw [← h.1]; simp)) <;> (try exact absurd h.2 (by simp))
    split <;> simp [hp]

theorem poll_st (p : P) : (poll p).st = p.st := by
  unfold poll checkNetwork processIncoming
  split
  · rename_i p1 h
    split at h
    · simp at h
    · split at h
      · simp only [Prod.mk.injEq] at h; rw [← h.1]
      · split at h
        · rename_i p' hp
          split at hp <;> simp only [Option.some.injEq, reduceCtorEq] at hp
          simp only [Prod.mk.injEq] at h; rw [← h.1, ← hp]
        · split at h
          · simp at h
          · simp only [Prod.mk.injEq] at h; rw [← h.1]
          · split at h
            · rename_i p' hp
              split at hp <;> simp only [Option.some.injEq, reduceCtorEq] at hp
              simp only [Prod.mk.injEq] at h; rw [← h.1, ← hp]
            · simp at h
  · rename_i p1 h
    have : p1.st = p.st := by
      split at h
      · simp only [Prod.mk.injEq] at h; rw [← h.1]
      · split at h
        · simp at h
        · split at h
          · simp at h
          · split at h
            · simp only [Prod.mk.injEq] at h; rw [← h.1]
            · simp at h
            · split at h
              · simp at h
              · simp only [Prod.mk.injEq] at h; rw [← h.1]
    rw [(pollRest_st p1).1, this]

theorem prePoll_st (p : P) (t : Tick) : (prePoll p t).st = p.st := by
  unfold prePoll
  split
  · rw [poll_st]; simp [arrive]
  · simp [arrive]

/-- which (event, state) cells put P-DATA on the wire or hand a DIMSE message to the user -/
theorem act_pdata (e : Ev) (p : P) (a : Act) (ht : table e p.st = some a) :
    (Out.send .pdata ∈ (act a p).2 → p.st = .s6 ∨ p.st = .s8) ∧
    (Out.indDimse ∈ (act a p).2 → p.st = .s6 ∨ p.st = .s7) := by
  obtain ⟨st, sock, evq, rx, timer, now, tstart, raw, inbox, fromUser, gen, requestor, crashed⟩ := p
  simp only at ht
  cases e <;> cases st <;> simp [table] at ht <;> subst ht <;>
    simp [act, aa8Body] <;> (repeat' split) <;> simp

/-- actions reachable in Sta13 give the user nothing -/
theorem act_s13_silent (e : Ev) (p : P) (a : Act) (hs : p.st = .s13) (ht : table e p.st = some a) :
    ∀ o ∈ (act a p).2, (∀ k, o ≠ .ind k) ∧ (∀ n, o ≠ .indAbort n) ∧ o ≠ .indDimse := by
  obtain ⟨st, sock, evq, rx, timer, now, tstart, raw, inbox, fromUser, gen, requestor, crashed⟩ := p
  simp only at hs ht
  subst hs
  cases e <;> simp [table] at ht <;> subst ht <;> simp [act]

theorem table_rx (r : Rx) (st : St) (h1 : st ≠ .s1) (h4 : st ≠ .s4) :
    (table (evOfRx r) st).isSome = true := by
  cases r <;> cases st <;> first | rfl | exact absurd rfl h1 | exact absurd rfl h4

theorem table_e17 (st : St) (h1 : st ≠ .s1) : (table .e17 st).isSome = true := by
  cases st <;> first | rfl | exact absurd rfl h1

theorem table_e18 (st : St) (h : st = .s2 ∨ st = .s13) : (table .e18 st).isSome = true := by
  rcases h with h | h <;> subst h <;> rfl

/-- with nothing of the local user pending, the event a poll raises is always one Table 9-10 defines
for the current state -/
theorem pollRest_peer (pp : P) (h : Quiet pp) (hu : pp.fromUser = []) (hg : pp.gen = 0) :
    (pollRest pp).fromUser = [] ∧ (pollRest pp).gen = 0 ∧
    ∀ e, (pollRest pp).evq = [e] → (table e pp.st).isSome = true := by
  obtain ⟨hc, htm, hq, hs⟩ := h
  obtain ⟨st, sock, evq, rx, timer, now, tstart, raw, inbox, fromUser, gen, requestor, crashed⟩ := pp
  simp only at hc hq hs hu hg
  subst hc hq hu hg
  unfold TimerOk at htm
  simp only at htm
  simp only [pollRest, checkOutgoing, checkTimer, Nat.lt_irrefl, ↓reduceIte]
  by_cases hx : (timer && decide (now - tstart > artim)) = true
  · simp only [hx, ↓reduceIte]
    refine ⟨trivial, trivial, ?_⟩
    intro e he
    simp at he; subst he
    have : timer = true := by simp_all
    exact table_e18 st (htm.mp this)
  · simp only [hx]
    refine ⟨by simp, by simp, ?_⟩
    intro e he; simp at he

theorem poll_peer (p : P) (h : Quiet p) (hu : p.fromUser = []) (hg : p.gen = 0) :
    (poll p).fromUser = [] ∧ (poll p).gen = 0 ∧
    ∀ e, (poll p).evq = [e] → (table e p.st).isSome = true := by
  have h0 := h
  obtain ⟨hc, htm, hq, hs⟩ := h
  obtain ⟨st, sock, evq, rx, timer, now, tstart, raw, inbox, fromUser, gen, requestor, crashed⟩ := p
  simp only at hc hq hs hu hg
  subst hc hq hu hg
  unfold TimerOk at htm
  simp only at htm
  simp only [poll, checkNetwork, processIncoming]
  cases sock
  · simp only [Bool.not_false, ↓reduceIte]
    exact pollRest_peer _ h0 rfl rfl
  · simp only [Bool.not_true, Bool.false_eq_true, ↓reduceIte]
    have hne : st ≠ .s1 := fun e => by simp_all
    by_cases h4 : st = .s4
    · subst h4; simp [table]
    · simp only [h4, ↓reduceIte]
      cases raw with
      | cons tk r =>
        refine ⟨rfl, rfl, ?_⟩
        intro e he; simp at he; subst he
        exact table_rx tk st hne h4
      | nil =>
        simp only []
        cases inbox with
        | nil => simp only []; exact pollRest_peer _ h0 rfl rfl
        | cons seg rest =>
          cases seg with
          | none =>
            refine ⟨rfl, rfl, ?_⟩
            intro e he; simp at he; subst he
            exact table_e17 st hne
          | some toks =>
            simp only [List.nil_append]
            cases toks with
            | cons tk r =>
              refine ⟨rfl, rfl, ?_⟩
              intro e he; simp at he; subst he
              exact table_rx tk st hne h4
            | nil =>
              simp only []
              apply pollRest_peer _ _ rfl rfl
              unfold Quiet TimerOk
              simp only
              exact ⟨trivial, htm, trivial, hs⟩

/-- where the effects of a pass come from -/
theorem dispatch_outs (q : P) (sf : Bool) (o : Out) (ho : o ∈ (dispatch q sf).2) :
    o = .close ∨ o = .indAbort 0 ∨ o = .crash ∨
    ∃ e r a, q.evq = e :: r ∧ table e q.st = some a ∧ o ∈ (act a { q with evq := r }).2 := by
  unfold dispatch at ho
  cases hev : q.evq with
  | nil => rw [hev] at ho; simp at ho
  | cons e r =>
    rw [hev] at ho
    simp only [] at ho
    cases htab : table e q.st with
    | none => rw [htab] at ho; simp at ho; rcases ho with h | h <;> simp [h]
    | some a =>
      rw [htab] at ho
      simp only [] at ho
      split at ho
      · simp at ho; exact Or.inl ho
      · exact Or.inr (Or.inr (Or.inr ⟨e, r, a, rfl, htab, ho⟩))

theorem dispatch_outs_defined (q : P) (sf : Bool)
    (hd : ∀ e r, q.evq = e :: r → (table e q.st).isSome = true) (o : Out) (ho : o ∈ (dispatch q sf).2) :
    o = .close ∨ ∃ e r a, q.evq = e :: r ∧ table e q.st = some a ∧ o ∈ (act a { q with evq := r }).2 := by
  rcases dispatch_outs q sf o ho with h | h | h | h
  · exact Or.inl h
  · exfalso
    unfold dispatch at ho
    cases hev : q.evq with
    | nil => rw [hev] at ho; simp at ho
    | cons e r =>
      have := hd e r hev
      rw [hev] at ho
      simp only [] at ho
      cases htab : table e q.st with
      | none => rw [htab] at this; simp at this
      | some a =>
        rw [htab] at ho
        simp only [] at ho
        subst h
        split at ho
        · simp at ho
        · obtain ⟨st, sock, evq, rx, timer, now, tstart, raw, inbox, fromUser, gen, requestor, crashed⟩ := q
          simp only at htab ho
          cases e <;> cases st <;> simp [table] at htab <;> subst htab <;>
            simp [act, aa8Body] at ho <;> (repeat' split at ho) <;> simp at ho
  · exfalso
    unfold dispatch at ho
    cases hev : q.evq with
    | nil => rw [hev] at ho; simp at ho
    | cons e r =>
      have := hd e r hev
      rw [hev] at ho
      simp only [] at ho
      cases htab : table e q.st with
      | none => rw [htab] at this; simp at this
      | some a =>
        rw [htab] at ho
        simp only [] at ho
        subst h
        split at ho
        · simp at ho
        · obtain ⟨st, sock, evq, rx, timer, now, tstart, raw, inbox, fromUser, gen, requestor, crashed⟩ := q
          simp only at htab ho
          cases e <;> cases st <;> simp [table] at htab <;> subst htab <;>
            simp [act, aa8Body] at ho <;> (repeat' split at ho) <;> simp at ho
  · exact Or.inr h

theorem iter_outs (p : P) (t : Tick) (o : Out) (ho : o ∈ (iter p t).2) :
    p.crashed = false ∧ (o = .close ∨ o ∈ (dispatch (prePoll p t) t.sendFails).2) := by
  unfold iter at ho
  by_cases hc : p.crashed = true
  · simp [hc] at ho
  · have hc' : p.crashed = false := by simpa using hc
    simp only [hc', Bool.false_eq_true, ↓reduceIte, List.mem_append] at ho
    refine ⟨hc', ?_⟩
    rcases ho with ho | ho
    · split at ho <;> simp at ho; exact Or.inl ho
    · exact Or.inr ho

theorem act_frame (a : Act) (p : P) :
    (act a p).1.fromUser = p.fromUser ∧ (act a p).1.crashed = p.crashed ∧ (act a p).1.gen = p.gen := by
  cases a <;> simp [act, aa8Body] <;> (repeat' split) <;> simp

end Dicom.Prov
