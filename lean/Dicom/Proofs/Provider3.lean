import Dicom.Proofs.Provider2
/-! Peer-only schedules never crash the loop. -/
namespace Dicom.Prov
open Dicom.UL

/-- nothing of the local user is pending -/
def NoUser (p : P) : Prop := p.crashed = false ∧ p.fromUser = [] ∧ p.gen = 0

theorem dispatch_defined_frame (q : P) (sf : Bool) (e : Ev) (he : q.evq = [e])
    (hd : (table e q.st).isSome = true) :
    (dispatch q sf).1.crashed = q.crashed ∧ (dispatch q sf).1.fromUser = q.fromUser ∧
    (q.gen = 0 → (dispatch q sf).1.gen = 0) := by
  unfold dispatch
  simp only [he]
  cases htab : table e q.st with
  | none => rw [htab] at hd; simp at hd
  | some a =>
    simp only []
    split
    · obtain ⟨_, _, _, _, h5, h6⟩ := dropGen_fields { q with evq := [] ++ [Ev.e17], sock := false }
      refine ⟨h5, h6, ?_⟩
      intro hg; unfold dropGen; split <;> simp [hg]
    · obtain ⟨_, _, _, _, h5, h6⟩ := dropGen_fields (act a { q with evq := [] }).1
      obtain ⟨f1, f2, f3⟩ := act_frame a { q with evq := [] }
      refine ⟨by rw [h5, f2], by rw [h6, f1], ?_⟩
      intro hg; unfold dropGen; split
      · rw [f3]; exact hg
      · rfl

theorem iter_peer (p : P) (t : Tick) (h : PInv p) (hn : NoUser p) (ht : t.enq = []) : NoUser (iter p t).1 := by
  obtain ⟨hc, hu, hg⟩ := hn
  unfold iter
  simp only [hc, Bool.false_eq_true, ↓reduceIte]
  have hua : (arrive p t).fromUser = [] := by simp [arrive, hu, ht]
  have hga : (arrive p t).gen = 0 := by simp [arrive, hg]
  have hca : (arrive p t).crashed = false := by simp [arrive, hc]
  rcases h hc with hq | ⟨htm, hsk, hst, hev⟩ | ⟨htm, hsk, hst, hev⟩
  · have hqe : p.evq.isEmpty = true := by simp [hq.2.2.1]
    have hpp : prePoll p t = poll (arrive p t) := by unfold prePoll; simp [hqe]
    have hqa := quiet_arrive t hq
    have hpeer := poll_peer (arrive p t) hqa hua hga
    rw [hpp]
    rcases poll_quiet (arrive p t) hqa with hq1 | ⟨e, he, hpre⟩
    · unfold dispatch
      simp only [hq1.2.2.1]
      exact ⟨hq1.1, hpeer.1, hpeer.2.1⟩
    · have hd := hpeer.2.2 e he
      rw [← poll_st] at hd
      obtain ⟨d1, d2, d3⟩ := dispatch_defined_frame (poll (arrive p t)) t.sendFails e he hd
      exact ⟨by rw [d1]; exact hpre.1, by rw [d2]; exact hpeer.1, d3 hpeer.2.1⟩
  · have hne : p.evq.isEmpty = false := by simp [hev]
    have hpp : prePoll p t = arrive p t := by unfold prePoll; simp [hne]
    rw [hpp]
    have he : (arrive p t).evq = [.e5] := by simp [arrive, hev]
    have hd : (table .e5 (arrive p t).st).isSome = true := by simp [arrive, hst, table]
    obtain ⟨d1, d2, d3⟩ := dispatch_defined_frame (arrive p t) t.sendFails .e5 he hd
    exact ⟨by rw [d1]; exact hca, by rw [d2]; exact hua, d3 hga⟩
  · have hne : p.evq.isEmpty = false := by simp [hev]
    have hpp : prePoll p t = arrive p t := by unfold prePoll; simp [hne]
    rw [hpp]
    have he : (arrive p t).evq = [.e17] := by simp [arrive, hev]
    have hd : (table .e17 (arrive p t).st).isSome = true := by
      have : (arrive p t).st = p.st := by simp [arrive]
      rw [this]; exact table_e17 p.st hst
    obtain ⟨d1, d2, d3⟩ := dispatch_defined_frame (arrive p t) t.sendFails .e17 he hd
    exact ⟨by rw [d1]; exact hca, by rw [d2]; exact hua, d3 hga⟩

def PeerOnly (σ : List Tick) : Prop := ∀ t ∈ σ, t.enq = []

theorem run_peer (σ : List Tick) (hσ : PeerOnly σ) : ∀ p, PInv p → NoUser p → NoUser (run p σ).1 := by
  induction σ with
  | nil => intro p _ hn; simpa [run] using hn
  | cons t ts ih =>
    intro p hi hn
    simp only [run]
    exact ih (fun t' ht' => hσ t' (by simp [ht'])) _ (iter_inv p t hi) (iter_peer p t hi hn (hσ t (by simp)))

end Dicom.Prov
