import Dicom.Proofs.Provider3
import Dicom.Proofs.Framing
/-! The provider loop as a function of the peer's token stream: how the transport groups the PDUs into
segments, and when it delivers them, changes neither what the provider does nor where it ends. -/
namespace Dicom.Prov
open Dicom.UL

/-- nothing of the local user pending, ARTIM not about to expire, no event queued, not waiting for the
transport connection to open -/
def CalmB (p : P) : Prop :=
  p.fromUser = [] ∧ p.gen = 0 ∧ (p.timer = true → p.now - p.tstart ≤ artim) ∧ (p.sock = true → p.st ≠ .s4)

def Calm (p : P) : Prop := CalmB p ∧ p.evq = []

/-- a tick in which only the network acts -/
def NetOnly (t : Tick) : Prop := t.enq = [] ∧ t.dt = 0 ∧ t.sendFails = false

/-- what a tick hands to the transport, as one inbox entry -/
def delSeg (t : Tick) : List (Option (List Rx)) :=
  match t.net with
  | .idle => []
  | .data toks => [some toks]
  | .eof => [none]

def flat : List (Option (List Rx)) → List (Option Rx)
  | [] => []
  | none :: r => none :: flat r
  | some t :: r => t.map some ++ flat r

theorem flat_append (a b : List (Option (List Rx))) : flat (a ++ b) = flat a ++ flat b := by
  induction a with
  | nil => rfl
  | cons x xs ih => cases x <;> simp [flat, ih]

/-- the peer's tokens (and end of stream) the provider has not yet looked at, in order -/
def stream (p : P) : List (Option Rx) := p.raw.map some ++ flat p.inbox

def withNet (p : P) (r : List Rx) (i : List (Option (List Rx))) : P := { p with raw := r, inbox := i }

/-- the state without its unread input -/
def core (p : P) : P := withNet p [] []

/-- processing one PDU -/
def tokStep (p : P) (r : Rx) : P × List Out := dispatch { p with rx := some r, evq := [evOfRx r] } false

/-- processing the end of the stream: the reader closes the socket and raises Evt17 -/
def eofStep (p : P) : P × List Out :=
  ((dispatch { p with evq := [.e17], sock := false, inbox := [] } false).1,
   Out.close :: (dispatch { p with evq := [.e17], sock := false, inbox := [] } false).2)

/-- nothing more will be read: the transport is closed, or the loop is dead -/
def halted (p : P) : Bool := !p.sock || p.crashed

/-- the provider as a function of the token stream: one item at a time, until the transport is closed -/
def consume : P → List (Option Rx) → P × List Out
  | p, [] => (p, [])
  | p, x :: xs =>
    if halted p then (p, []) else
    match x with
    | some r => ((consume (tokStep p r).1 xs).1, (tokStep p r).2 ++ (consume (tokStep p r).1 xs).2)
    | none => ((consume (eofStep p).1 xs).1, (eofStep p).2 ++ (consume (eofStep p).1 xs).2)

theorem consume_closed (p : P) (h : halted p = true) (s : List (Option Rx)) : consume p s = (p, []) := by
  cases s <;> simp [consume, h]

theorem consume_append (s s' : List (Option Rx)) : ∀ p,
    consume p (s ++ s') = ((consume (consume p s).1 s').1, (consume p s).2 ++ (consume (consume p s).1 s').2) := by
  induction s with
  | nil => intro p; simp [consume]
  | cons x xs ih =>
    intro p
    by_cases hs : halted p = true
    · simp [consume, hs, consume_closed p hs]
    · have hs' : halted p = false := by simpa using hs
      cases x with
      | some r => simp [consume, hs', ih, List.append_assoc]
      | none => simp [consume, hs', ih, List.append_assoc]

theorem table_ae1 (e : Ev) (st : St) (h : table e st = some .ae1) : e = .e1 := by
  cases e <;> cases st <;> simp [table] at h <;> rfl

/-- no action but AE-1 (open the transport connection) looks at, or touches, the unread input -/
theorem dispatch_withNet (p0 : P) (f : Bool) (R : List Rx) (I : List (Option (List Rx)))
    (h : ∀ es, p0.evq ≠ .e1 :: es) :
    dispatch (withNet p0 R I) f = (withNet (dispatch p0 f).1 R I, (dispatch p0 f).2) := by
  obtain ⟨st, sock, evq, rx, timer, now, tstart, raw, inbox, fromUser, gen, requestor, crashed⟩ := p0
  cases evq with
  | nil => simp [dispatch, withNet]
  | cons e es =>
    have he : e ≠ .e1 := fun x => h es (by simp [x])
    simp only [dispatch, withNet]
    cases ht : table e st with
    | none => simp
    | some a =>
      have ha : a ≠ .ae1 := fun x => he (table_ae1 e st (by rw [ht, x]))
      simp only []
      cases a <;> first | exact absurd rfl ha | (simp [act, aa8Body, dropGen, sends] <;> (repeat' split) <;> simp_all)

/-- processing a peer event keeps the provider calm -/
theorem dispatch_calm (p' : P) (e : Ev) (hb : CalmB p') (he : p'.evq = [e]) (h1 : e ≠ .e1) :
    Calm (dispatch p' false).1 := by
  obtain ⟨st, sock, evq, rx, timer, now, tstart, raw, inbox, fromUser, gen, requestor, crashed⟩ := p'
  obtain ⟨hu, hg, hf, h4⟩ := hb
  simp only at he hu hg hf h4
  subst he hu hg
  simp only [dispatch]
  cases ht : table e st with
  | none => exact ⟨⟨rfl, rfl, hf, h4⟩, rfl⟩
  | some a =>
    have ha : a ≠ .ae1 := fun x => h1 (table_ae1 e st (by rw [ht, x]))
    simp only [Bool.false_and, Bool.false_eq_true, ↓reduceIte]
    cases a <;> first | exact absurd rfl ha |
      (simp [act, aa8Body, dropGen, Calm, CalmB] <;> (repeat' split) <;> simp_all [artim])

/-- one pass of the loop over a state that already holds what the tick delivered -/
def pass (q : P) : P × List Out :=
  if q.crashed then (q, [])
  else ((dispatch (poll q) false).1,
        (if q.sock && !(poll q).sock then [Out.close] else []) ++ (dispatch (poll q) false).2)

theorem core_withNet (x : P) (R : List Rx) (I : List (Option (List Rx))) : core (withNet x R I) = core x := rfl

theorem stream_withNet (x : P) (R : List Rx) (I : List (Option (List Rx))) : stream (withNet x R I) = R.map some ++ flat I := rfl

/-- a state produced by `dispatch` from one without unread input has none -/
theorem dispatch_core (p0 : P) (h : ∀ es, p0.evq ≠ .e1 :: es) (h0 : p0 = core p0) :
    core (dispatch p0 false).1 = (dispatch p0 false).1 := by
  have := dispatch_withNet p0 false [] [] h
  have e : withNet p0 [] [] = p0 := h0.symm
  rw [e] at this
  exact (congrArg Prod.fst this).symm

theorem evOfRx_ne_e1 (r : Rx) (es : List Ev) : [evOfRx r] ≠ .e1 :: es := by
  cases r <;> simp [evOfRx]

theorem calm_withNet {x : P} (h : Calm x) (R : List Rx) (I : List (Option (List Rx))) : Calm (withNet x R I) := h

/-- the common part of every case in which a PDU `r` is processed: the state before had (after taking
`r`) `R`/`I` unread, the stream was `some r :: (R' ++ flat I')` -/
theorem tok_case (st : St) (rx : Option Rx) (timer : Bool) (now tstart : Nat) (requestor : Bool) (r : Rx)
    (R : List Rx) (I : List (Option (List Rx)))
    (hf : timer = true → now - tstart ≤ artim) (hs4 : st ≠ .s4) :
    let p0 : P := ⟨st, true, [evOfRx r], some r, timer, now, tstart, [], [], [], 0, requestor, false⟩
    Calm (dispatch (withNet p0 R I) false).1 ∧
    consume ⟨st, true, [], rx, timer, now, tstart, [], [], [], 0, requestor, false⟩ (some r :: (R.map some ++ flat I)) =
      ((consume (core (dispatch (withNet p0 R I) false).1) (stream (dispatch (withNet p0 R I) false).1)).1,
       (dispatch (withNet p0 R I) false).2 ++
         (consume (core (dispatch (withNet p0 R I) false).1) (stream (dispatch (withNet p0 R I) false).1)).2) := by
  intro p0
  have hne : ∀ es, p0.evq ≠ .e1 :: es := fun es => evOfRx_ne_e1 r es
  rw [dispatch_withNet p0 false R I hne]
  have hc : Calm (dispatch p0 false).1 := dispatch_calm p0 (evOfRx r) ⟨rfl, rfl, hf, fun _ => hs4⟩ rfl
    (fun e => evOfRx_ne_e1 r [] (by rw [e]))
  refine ⟨calm_withNet hc R I, ?_⟩
  simp only [core_withNet, stream_withNet]
  rw [dispatch_core p0 hne rfl]
  simp only [consume, halted, Bool.not_true, Bool.or_self, Bool.false_eq_true, ↓reduceIte, tokStep]
  rfl

theorem dispatch_sock_false (p' : P) (e : Ev) (he : p'.evq = [e]) (h1 : e ≠ .e1) (hs : p'.sock = false) :
    (dispatch p' false).1.sock = false := by
  obtain ⟨st, sock, evq, rx, timer, now, tstart, raw, inbox, fromUser, gen, requestor, crashed⟩ := p'
  simp only at he hs
  subst he hs
  simp only [dispatch]
  cases ht : table e st with
  | none => rfl
  | some a =>
    have ha : a ≠ .ae1 := fun x => h1 (table_ae1 e st (by rw [ht, x]))
    simp only [Bool.false_and, Bool.false_eq_true, ↓reduceIte]
    cases a <;> first | exact absurd rfl ha | (simp [act, aa8Body, dropGen] <;> (repeat' split) <;> simp_all)

/-- **one pass = the next item of the stream** (or nothing, when there is none or the loop is halted) -/
theorem pass_consume (q : P) (h : Calm q) :
    Calm (pass q).1 ∧
    consume (core q) (stream q) =
      ((consume (core (pass q).1) (stream (pass q).1)).1,
       (pass q).2 ++ (consume (core (pass q).1) (stream (pass q).1)).2) := by
  obtain ⟨⟨hu, hg, hf, h4⟩, hq⟩ := h
  obtain ⟨st, sock, evq, rx, timer, now, tstart, raw, inbox, fromUser, gen, requestor, crashed⟩ := q
  simp only at hu hg hf h4 hq
  subst hu hg hq
  have htm : (timer && decide (now - tstart > artim)) = false := by
    cases timer with
    | false => rfl
    | true => have := hf rfl; simp; omega
  cases crashed with
  | true => exact ⟨⟨⟨rfl, rfl, hf, h4⟩, rfl⟩, by simp [pass]⟩
  | false =>
  cases sock with
  | false =>
    have hp : pass ⟨st, false, [], rx, timer, now, tstart, raw, inbox, [], 0, requestor, false⟩ =
        (⟨st, false, [], rx, timer, now, tstart, raw, inbox, [], 0, requestor, false⟩, []) := by
      simp [pass, poll, checkNetwork, pollRest, checkOutgoing, checkTimer, htm, dispatch]
    rw [hp]
    exact ⟨⟨⟨rfl, rfl, hf, h4⟩, rfl⟩, by simp⟩
  | true =>
    have hs4 : st ≠ .s4 := h4 rfl
    cases raw with
    | cons r rest =>
      -- a buffered PDU is processed
      have hp : pass ⟨st, true, [], rx, timer, now, tstart, r :: rest, inbox, [], 0, requestor, false⟩ =
          ((dispatch (withNet ⟨st, true, [evOfRx r], some r, timer, now, tstart, [], [], [], 0, requestor, false⟩ rest inbox) false).1,
           (dispatch (withNet ⟨st, true, [evOfRx r], some r, timer, now, tstart, [], [], [], 0, requestor, false⟩ rest inbox) false).2) := by
        simp [pass, poll, checkNetwork, processIncoming, hs4, withNet]
      rw [hp]
      exact tok_case st rx timer now tstart requestor r rest inbox hf hs4
    | nil =>
      cases inbox with
      | nil =>
        -- nothing to read
        have hp : pass ⟨st, true, [], rx, timer, now, tstart, [], [], [], 0, requestor, false⟩ =
            (⟨st, true, [], rx, timer, now, tstart, [], [], [], 0, requestor, false⟩, []) := by
          simp [pass, poll, checkNetwork, processIncoming, pollRest, checkOutgoing, checkTimer, htm, dispatch, hs4]
        rw [hp]
        exact ⟨⟨⟨rfl, rfl, hf, h4⟩, rfl⟩, by simp [stream, flat, consume]⟩
      | cons seg rest' =>
        cases seg with
        | none =>
          -- end of stream
          have hp : pass ⟨st, true, [], rx, timer, now, tstart, [], none :: rest', [], 0, requestor, false⟩ =
              ((dispatch ⟨st, false, [.e17], rx, timer, now, tstart, [], [], [], 0, requestor, false⟩ false).1,
               Out.close :: (dispatch ⟨st, false, [.e17], rx, timer, now, tstart, [], [], [], 0, requestor, false⟩ false).2) := by
            simp [pass, poll, checkNetwork, processIncoming, hs4]
          rw [hp]
          have hne : ∀ es, ([.e17] : List Ev) ≠ .e1 :: es := by intro es; simp
          have hc := dispatch_calm ⟨st, false, [.e17], rx, timer, now, tstart, [], [], [], 0, requestor, false⟩ .e17
            ⟨rfl, rfl, hf, fun h => by simp at h⟩ rfl (by simp)
          have hsf := dispatch_sock_false ⟨st, false, [.e17], rx, timer, now, tstart, [], [], [], 0, requestor, false⟩ .e17
            rfl (by simp) rfl
          have hcore := dispatch_core ⟨st, false, [.e17], rx, timer, now, tstart, [], [], [], 0, requestor, false⟩ hne rfl
          refine ⟨hc, ?_⟩
          have hh : halted (dispatch ⟨st, false, [.e17], rx, timer, now, tstart, [], [], [], 0, requestor, false⟩ false).1 = true := by
            simp [halted, hsf]
          have e1 : consume (core ⟨st, true, [], rx, timer, now, tstart, [], none :: rest', [], 0, requestor, false⟩)
              (stream ⟨st, true, [], rx, timer, now, tstart, [], none :: rest', [], 0, requestor, false⟩) =
              ((dispatch ⟨st, false, [.e17], rx, timer, now, tstart, [], [], [], 0, requestor, false⟩ false).1,
               Out.close :: (dispatch ⟨st, false, [.e17], rx, timer, now, tstart, [], [], [], 0, requestor, false⟩ false).2) := by
            show consume ⟨st, true, [], rx, timer, now, tstart, [], [], [], 0, requestor, false⟩ (none :: flat rest') = _
            simp only [consume, halted, Bool.not_true, Bool.or_self, Bool.false_eq_true, ↓reduceIte, eofStep]
            rw [consume_closed _ hh]
            simp
          rw [e1, hcore, consume_closed _ hh]
          simp
        | some toks =>
          cases toks with
          | nil =>
            -- an empty segment: consumed, nothing happens
            have hp : pass ⟨st, true, [], rx, timer, now, tstart, [], some [] :: rest', [], 0, requestor, false⟩ =
                (⟨st, true, [], rx, timer, now, tstart, [], rest', [], 0, requestor, false⟩, []) := by
              simp [pass, poll, checkNetwork, processIncoming, pollRest, checkOutgoing, checkTimer, htm, dispatch, hs4]
            rw [hp]
            exact ⟨⟨⟨rfl, rfl, hf, h4⟩, rfl⟩, by simp [stream, flat, core, withNet]⟩
          | cons r tl =>
            have hp : pass ⟨st, true, [], rx, timer, now, tstart, [], some (r :: tl) :: rest', [], 0, requestor, false⟩ =
                ((dispatch (withNet ⟨st, true, [evOfRx r], some r, timer, now, tstart, [], [], [], 0, requestor, false⟩ tl rest') false).1,
                 (dispatch (withNet ⟨st, true, [evOfRx r], some r, timer, now, tstart, [], [], [], 0, requestor, false⟩ tl rest') false).2) := by
              simp [pass, poll, checkNetwork, processIncoming, hs4, withNet]
            rw [hp]
            have := tok_case st rx timer now tstart requestor r tl rest' hf hs4
            simpa [stream, flat, core, withNet] using this

theorem arrive_net (p : P) (t : Tick) (ht : NetOnly t) :
    arrive p t = withNet p p.raw (if p.sock then p.inbox ++ delSeg t else p.inbox) := by
  obtain ⟨st, sock, evq, rx, timer, now, tstart, raw, inbox, fromUser, gen, requestor, crashed⟩ := p
  obtain ⟨net, enq, dt, sf⟩ := t
  obtain ⟨h1, h2, h3⟩ := ht
  simp only at h1 h2 h3
  subst h1 h2 h3
  cases sock <;> cases net <;> simp [arrive, withNet, delSeg]

theorem iter_pass (p : P) (t : Tick) (h : Calm p) (ht : NetOnly t) (hc : p.crashed = false) :
    iter p t = pass (arrive p t) := by
  have he : p.evq = [] := h.2
  have h3 : t.sendFails = false := ht.2.2
  simp [iter, pass, prePoll, hc, he, h3, arrive]

/-- **one tick = the stream grows by what the tick delivers, and one pass consumes from its front** -/
theorem iter_consume (p : P) (t : Tick) (h : Calm p) (ht : NetOnly t) :
    Calm (iter p t).1 ∧
    consume (core p) (stream p ++ flat (delSeg t)) =
      ((consume (core (iter p t).1) (stream (iter p t).1)).1,
       (iter p t).2 ++ (consume (core (iter p t).1) (stream (iter p t).1)).2) := by
  by_cases hc : p.crashed = true
  · have hi : iter p t = (p, []) := by simp [iter, hc]
    have hh : halted (core p) = true := by simp [halted, core, withNet, hc]
    rw [hi]
    exact ⟨h, by rw [consume_closed _ hh, consume_closed _ hh]; simp⟩
  · have hc : p.crashed = false := by simpa using hc
    rw [iter_pass p t h ht hc, arrive_net p t ht]
    have hq : Calm (withNet p p.raw (if p.sock then p.inbox ++ delSeg t else p.inbox)) := calm_withNet h _ _
    obtain ⟨h1, h2⟩ := pass_consume _ hq
    refine ⟨h1, ?_⟩
    rw [← h2]
    by_cases hs : p.sock = true
    · simp only [hs, ↓reduceIte, core_withNet, stream_withNet, flat_append]
      simp [stream]
    · have hs : p.sock = false := by simpa using hs
      have hh : halted (core p) = true := by simp [halted, core, withNet, hs]
      simp only [core_withNet]
      rw [consume_closed _ hh, consume_closed _ hh]

/-- everything a schedule delivers, in order -/
def dels (ts : List Tick) : List (Option Rx) := (ts.map fun t => flat (delSeg t)).flatten

/-- **the run as a function of the stream**: what a network-only schedule makes the provider do, followed
by what the unread rest would still make it do, is what the whole stream makes it do -/
theorem run_consume (ts : List Tick) : ∀ p, Calm p → (∀ t ∈ ts, NetOnly t) →
    Calm (run p ts).1 ∧
    consume (core p) (stream p ++ dels ts) =
      ((consume (core (run p ts).1) (stream (run p ts).1)).1,
       (run p ts).2 ++ (consume (core (run p ts).1) (stream (run p ts).1)).2) := by
  induction ts with
  | nil => intro p h _; exact ⟨h, by simp [run, dels]⟩
  | cons t ts ih =>
    intro p h hn
    obtain ⟨hc1, e1⟩ := iter_consume p t h (hn t (by simp))
    obtain ⟨hc2, e2⟩ := ih (iter p t).1 hc1 (fun x hx => hn x (by simp [hx]))
    refine ⟨hc2, ?_⟩
    have hd : dels (t :: ts) = flat (delSeg t) ++ dels ts := by simp [dels]
    rw [hd, ← List.append_assoc, consume_append, e1]
    rw [consume_append] at e2
    simp only [run]
    have e2a := congrArg Prod.fst e2
    have e2b := congrArg Prod.snd e2
    simp only at e2a e2b
    rw [e2a, List.append_assoc, e2b, List.append_assoc]

/-- nothing unread is left (or nothing more will be read) -/
def Drained (p : P) : Prop := halted (core p) = true ∨ stream p = []

theorem consume_drained (p : P) (h : Drained p) : consume (core p) (stream p) = (core p, []) := by
  rcases h with h | h
  · exact consume_closed _ h _
  · rw [h]; rfl

/-- once the schedule has been drained, the final state (without its empty buffers) and the whole ordered
list of effects are a function of the initial state and of the stream delivered — not of the schedule -/
theorem run_function_of_stream (ts : List Tick) (p : P) (h : Calm p) (hn : ∀ t ∈ ts, NetOnly t)
    (hd : Drained (run p ts).1) :
    (core (run p ts).1, (run p ts).2) = consume (core p) (stream p ++ dels ts) := by
  rw [(run_consume ts p h hn).2, consume_drained _ hd]; simp

theorem schedule_independent (ts₁ ts₂ : List Tick) (p : P) (h : Calm p)
    (h₁ : ∀ t ∈ ts₁, NetOnly t) (h₂ : ∀ t ∈ ts₂, NetOnly t) (hs : dels ts₁ = dels ts₂)
    (d₁ : Drained (run p ts₁).1) (d₂ : Drained (run p ts₂).1) :
    core (run p ts₁).1 = core (run p ts₂).1 ∧ (run p ts₁).2 = (run p ts₂).2 := by
  have e₁ := run_function_of_stream ts₁ p h h₁ d₁
  have e₂ := run_function_of_stream ts₂ p h h₂ d₂
  rw [hs] at e₁
  have := e₁.trans e₂.symm
  exact ⟨(Prod.mk.inj this).1, (Prod.mk.inj this).2⟩

/-! ### idle passes drain the input -/

def segCost : Option (List Rx) → Nat
  | none => 1
  | some t => 1 + t.length

/-- passes still needed to read everything the transport holds -/
def mu (p : P) : Nat := if halted p then 0 else p.raw.length + (p.inbox.map segCost).sum

theorem mu_withNet_le (x : P) (R : List Rx) (I : List (Option (List Rx))) :
    mu (withNet x R I) ≤ R.length + (I.map segCost).sum := by
  unfold mu; split <;> simp [withNet]

theorem mu_zero_drained (p : P) (h : mu p = 0) : Drained p := by
  unfold mu at h
  split at h
  · left; rename_i hh; simpa [halted, core, withNet] using hh
  · right
    have h1 : p.raw.length = 0 := by omega
    have h2 : (p.inbox.map segCost).sum = 0 := by omega
    have hr : p.raw = [] := List.length_eq_zero_iff.mp h1
    have hi : p.inbox = [] := by
      cases hi : p.inbox with
      | nil => rfl
      | cons s r => rw [hi] at h2; cases s <;> simp [segCost] at h2 <;> omega
    simp [stream, hr, hi, flat]

theorem pass_mu (q : P) (h : Calm q) : mu (pass q).1 ≤ mu q - 1 := by
  obtain ⟨⟨hu, hg, hf, h4⟩, hq⟩ := h
  obtain ⟨st, sock, evq, rx, timer, now, tstart, raw, inbox, fromUser, gen, requestor, crashed⟩ := q
  simp only at hu hg hf h4 hq
  subst hu hg hq
  have htm : (timer && decide (now - tstart > artim)) = false := by
    cases timer with
    | false => rfl
    | true => have := hf rfl; simp; omega
  cases crashed with
  | true => simp [pass, mu, halted]
  | false =>
  cases sock with
  | false =>
    have hp : pass ⟨st, false, [], rx, timer, now, tstart, raw, inbox, [], 0, requestor, false⟩ =
        (⟨st, false, [], rx, timer, now, tstart, raw, inbox, [], 0, requestor, false⟩, []) := by
      simp [pass, poll, checkNetwork, pollRest, checkOutgoing, checkTimer, htm, dispatch]
    rw [hp]; simp [mu, halted]
  | true =>
    have hs4 : st ≠ .s4 := h4 rfl
    cases raw with
    | cons r rest =>
      have hp : (pass ⟨st, true, [], rx, timer, now, tstart, r :: rest, inbox, [], 0, requestor, false⟩).1 =
          (dispatch (withNet ⟨st, true, [evOfRx r], some r, timer, now, tstart, [], [], [], 0, requestor, false⟩ rest inbox) false).1 := by
        simp [pass, poll, checkNetwork, processIncoming, hs4, withNet]
      rw [hp, dispatch_withNet _ false rest inbox (fun es => evOfRx_ne_e1 r es)]
      have := mu_withNet_le (dispatch ⟨st, true, [evOfRx r], some r, timer, now, tstart, [], [], [], 0, requestor, false⟩ false).1 rest inbox
      simp only [mu, halted, Bool.not_true, Bool.or_self, Bool.false_eq_true, ↓reduceIte, List.length_cons] at this ⊢
      omega
    | nil =>
      cases inbox with
      | nil =>
        have hp : pass ⟨st, true, [], rx, timer, now, tstart, [], [], [], 0, requestor, false⟩ =
            (⟨st, true, [], rx, timer, now, tstart, [], [], [], 0, requestor, false⟩, []) := by
          simp [pass, poll, checkNetwork, processIncoming, pollRest, checkOutgoing, checkTimer, htm, dispatch, hs4]
        rw [hp]; simp [mu]
      | cons seg rest' =>
        cases seg with
        | none =>
          have hp : (pass ⟨st, true, [], rx, timer, now, tstart, [], none :: rest', [], 0, requestor, false⟩).1 =
              (dispatch ⟨st, false, [.e17], rx, timer, now, tstart, [], [], [], 0, requestor, false⟩ false).1 := by
            simp [pass, poll, checkNetwork, processIncoming, hs4]
          rw [hp]
          have hsf := dispatch_sock_false ⟨st, false, [.e17], rx, timer, now, tstart, [], [], [], 0, requestor, false⟩ .e17
            rfl (by simp) rfl
          simp [mu, halted, hsf]
        | some toks =>
          cases toks with
          | nil =>
            have hp : pass ⟨st, true, [], rx, timer, now, tstart, [], some [] :: rest', [], 0, requestor, false⟩ =
                (⟨st, true, [], rx, timer, now, tstart, [], rest', [], 0, requestor, false⟩, []) := by
              simp [pass, poll, checkNetwork, processIncoming, pollRest, checkOutgoing, checkTimer, htm, dispatch, hs4]
            rw [hp]; simp [mu, halted, segCost]
          | cons r tl =>
            have hp : (pass ⟨st, true, [], rx, timer, now, tstart, [], some (r :: tl) :: rest', [], 0, requestor, false⟩).1 =
                (dispatch (withNet ⟨st, true, [evOfRx r], some r, timer, now, tstart, [], [], [], 0, requestor, false⟩ tl rest') false).1 := by
              simp [pass, poll, checkNetwork, processIncoming, hs4, withNet]
            rw [hp, dispatch_withNet _ false tl rest' (fun es => evOfRx_ne_e1 r es)]
            have := mu_withNet_le (dispatch ⟨st, true, [evOfRx r], some r, timer, now, tstart, [], [], [], 0, requestor, false⟩ false).1 tl rest'
            simp only [mu, halted, Bool.not_true, Bool.or_self, Bool.false_eq_true, ↓reduceIte, List.map_cons,
              List.sum_cons, segCost, List.length_cons, List.length_nil] at this ⊢
            omega

/-- idle passes read everything: after `mu p` of them nothing is left unread -/
theorem idle_drains (n : Nat) : ∀ p, Calm p → mu (run p (List.replicate n {})).1 ≤ mu p - n := by
  induction n with
  | zero => intro p _; simp [run]
  | succ n ih =>
    intro p h
    have ht : NetOnly ({} : Tick) := ⟨rfl, rfl, rfl⟩
    simp only [List.replicate_succ, run]
    have hc := (iter_consume p {} h ht).1
    have := ih (iter p {}).1 hc
    have hm : mu (iter p {}).1 ≤ mu p - 1 := by
      by_cases hcr : p.crashed = true
      · have hi : iter p {} = (p, []) := by simp [iter, hcr]
        rw [hi]; simp [mu, halted, hcr]
      · have hcr : p.crashed = false := by simpa using hcr
        rw [iter_pass p {} h ht hcr, arrive_net p {} ht]
        have e : withNet p p.raw (if p.sock then p.inbox ++ delSeg {} else p.inbox) = p := by
          cases hs : p.sock <;> simp [withNet, delSeg]
        rw [e]; exact pass_mu p h
    omega

theorem drained_after (p : P) (h : Calm p) (n : Nat) (hn : mu p ≤ n) : Drained (run p (List.replicate n {})).1 := by
  apply mu_zero_drained
  have := idle_drains n p h
  omega

/-! ### from bytes to tokens -/

/-- one pass at byte level: nothing arrives, a segment of bytes arrives, or the peer closes -/
inductive BNet
  | idle | data (seg : Bytes) | eof

/-- the abstract ticks of a byte-level schedule: each segment contributes the PDUs it completes (as the
receive path classifies them), the residue is carried to the next segment -/
def absTicks (cls : Bytes → Rx) : Bytes → List BNet → List Tick
  | _, [] => []
  | buf, .idle :: r => {} :: absTicks cls buf r
  | buf, .data seg :: r =>
      { net := .data ((frames (buf ++ seg)).1.map cls) } :: absTicks cls (frames (buf ++ seg)).2 r
  | buf, .eof :: r => { net := .eof } :: absTicks cls buf r

/-- the bytes a schedule delivers -/
def bytesOf : List BNet → Bytes
  | [] => []
  | .data seg :: r => seg ++ bytesOf r
  | _ :: r => bytesOf r

def noEof : List BNet → Prop
  | [] => True
  | .eof :: _ => False
  | _ :: r => noEof r

theorem absTicks_netOnly (cls : Bytes → Rx) (s : List BNet) : ∀ buf, ∀ t ∈ absTicks cls buf s, NetOnly t := by
  induction s with
  | nil => intro buf t h; simp [absTicks] at h
  | cons x xs ih =>
    intro buf t h
    cases x <;> simp only [absTicks, List.mem_cons] at h <;> rcases h with rfl | h <;>
      first | exact ⟨rfl, rfl, rfl⟩ | exact ih _ t h

/-- the tokens a byte-level schedule delivers are the PDUs of the byte stream, whatever the segmentation -/
theorem dels_absTicks (cls : Bytes → Rx) (s : List BNet) (hs : noEof s) : ∀ buf, frames buf = ([], buf) →
    dels (absTicks cls buf s) = ((frames (buf ++ bytesOf s)).1.map cls).map some := by
  induction s with
  | nil => intro buf hb; simp [absTicks, dels, bytesOf, hb]
  | cons x xs ih =>
    intro buf hb
    cases x with
    | idle =>
      have := ih hs buf hb
      simpa [absTicks, dels, bytesOf, delSeg, flat] using this
    | eof => exact absurd hs (by simp [noEof])
    | data seg =>
      have := ih hs (frames (buf ++ seg)).2 (frames_idem (buf ++ seg))
      simp only [absTicks, dels, bytesOf, List.map_cons, List.flatten_cons, delSeg, flat, List.append_nil] at this ⊢
      rw [this, ← List.append_assoc buf seg, frames_append (buf ++ seg)]
      simp

/-- once the end of the stream has been consumed nothing more is read -/
theorem consume_eof (s : List (Option Rx)) (h : none ∈ s) : ∀ p, halted (consume p s).1 = true := by
  induction s with
  | nil => simp at h
  | cons x xs ih =>
    intro p
    by_cases hh : halted p = true
    · rw [consume_closed p hh]; exact hh
    · have hh' : halted p = false := by simpa using hh
      cases x with
      | some r =>
        have hx : none ∈ xs := by simpa using h
        simp only [consume, hh', Bool.false_eq_true, ↓reduceIte]
        exact ih hx _
      | none =>
        simp only [consume, hh', Bool.false_eq_true, ↓reduceIte]
        have hs : halted (eofStep p).1 = true := by
          have := dispatch_sock_false { p with evq := [.e17], sock := false, inbox := [] } .e17 rfl (by simp) rfl
          simp [halted, eofStep, this]
        rw [consume_closed _ hs]; exact hs

theorem dels_append (a b : List Tick) : dels (a ++ b) = dels a ++ dels b := by simp [dels]

theorem dels_idle (n : Nat) : dels (List.replicate n ({} : Tick)) = [] := by
  induction n with
  | zero => rfl
  | succ n ih => simp only [List.replicate_succ, dels, List.map_cons, List.flatten_cons] at ih ⊢; simpa [delSeg, flat] using ih

theorem run_append (a b : List Tick) : ∀ p, run p (a ++ b) = ((run (run p a).1 b).1, (run p a).2 ++ (run (run p a).1 b).2) := by
  induction a with
  | nil => intro p; simp [run]
  | cons t ts ih => intro p; simp [run, ih, List.append_assoc]

/-- **the peer's close always ends the association.**  From any reachable calm state, under any schedule in
which only the network acts and which delivers the peer's close (after anything at all, in any segmentation),
`mu` further idle passes leave the provider idle (Sta1), its transport closed and ARTIM stopped. -/
theorem eof_closes (p : P) (hp : Calm p) (hinv : PInv p) (hc : p.crashed = false) (ts : List Tick)
    (hn : ∀ t ∈ ts, NetOnly t) (heof : none ∈ dels ts) (n : Nat) (hmu : mu (run p ts).1 ≤ n) :
    (run p (ts ++ List.replicate n ({} : Tick))).1.st = .s1 ∧ (run p (ts ++ List.replicate n ({} : Tick))).1.sock = false ∧
    (run p (ts ++ List.replicate n ({} : Tick))).1.timer = false ∧
    (run p (ts ++ List.replicate n ({} : Tick))).1.crashed = false := by
  have hi : ∀ t ∈ List.replicate n ({} : Tick), NetOnly t := by
    intro t ht; rw [List.eq_of_mem_replicate ht]; exact ⟨rfl, rfl, rfl⟩
  have hall : ∀ t ∈ ts ++ List.replicate n ({} : Tick), NetOnly t := by
    intro t ht; simp only [List.mem_append] at ht; rcases ht with ht | ht
    · exact hn t ht
    · exact hi t ht
  have hpo : PeerOnly (ts ++ List.replicate n ({} : Tick)) := fun t ht => (hall t ht).1
  -- the final state: calm, invariant, not crashed, drained
  have hcalm := (run_consume _ p hp hall).1
  have hpinv := run_inv (ts ++ List.replicate n ({} : Tick)) p hinv
  have hnu := run_peer _ hpo p hinv ⟨hc, hp.1.1, hp.1.2.1⟩
  have hdr : Drained (run p (ts ++ List.replicate n ({} : Tick))).1 := by
    rw [run_append]; exact drained_after _ (run_consume _ p hp hn).1 n hmu
  have hfun := run_function_of_stream _ p hp hall hdr
  have hd : dels (ts ++ List.replicate n ({} : Tick)) = dels ts := by rw [dels_append, dels_idle]; simp
  rw [hd] at hfun
  have hh := consume_eof (stream p ++ dels ts) (by simp [heof]) (core p)
  rw [← hfun] at hh
  have hcr := hnu.1
  have hsock : (run p (ts ++ List.replicate n ({} : Tick))).1.sock = false := by
    simp only [halted, core, withNet, hcr, Bool.or_false, Bool.not_eq_true'] at hh
    exact hh
  have hq : Quiet (run p (ts ++ List.replicate n ({} : Tick))).1 := by
    rcases hpinv hcr with h | h | h
    · exact h
    · exact absurd hcalm.2 (by rw [h.2.2.2]; simp)
    · exact absurd hcalm.2 (by rw [h.2.2.2]; simp)
  obtain ⟨_, htm, _, hs⟩ := hq
  have hst := hs.mpr hsock
  refine ⟨hst, hsock, ?_, hcr⟩
  unfold TimerOk at htm
  cases ht : (run p (ts ++ List.replicate n ({} : Tick))).1.timer with
  | false => rfl
  | true => have := htm.mp ht; rw [hst] at this; simp at this

end Dicom.Prov
