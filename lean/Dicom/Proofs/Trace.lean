import Dicom.Proofs.Provider3
/-! The loop model, run over any history, follows the PS3.8 machine event by event. -/
namespace Dicom.Prov
open Dicom.UL

/-- kinds of observable effect, payloads erased -/
inductive Shape | send | ind | close | connect | tStart | tStop
deriving DecidableEq, Repr

def shapeOfOut : Out → Shape
  | .send _ | .sendAbort _ => .send
  | .ind _ | .indAbort _ | .indDimse => .ind
  | .close => .close | .connect => .connect
  | .tStart | .tRestart => .tStart | .tStop => .tStop
  | .crash => .close

def shapeOfEff : Eff → Shape
  | .sendUser | .send _ | .sendAbort _ | .sendAbortAny => .send
  | .indReceived | .indAbort _ | .indDimse => .ind
  | .close => .close | .connect => .connect
  | .tStart | .tRestart => .tStart | .tStop => .tStop

/-- the model's action = the PS3.8 action, given an open transport where AA-8 needs one and a P-DATA the
DIMSE layer accepts -/
theorem act_shapes (a : Act) (p : P) (hs : a = .aa8 → p.sock = true) (hrx : p.rx ≠ some .pdataErr) :
    (act a p).1.st = (effects a p.requestor (p.rx == some .pdataDone)).2 ∧
    (act a p).2.map shapeOfOut = (effects a p.requestor (p.rx == some .pdataDone)).1.map shapeOfEff := by
  obtain ⟨st, sock, evq, rx, timer, now, tstart, raw, inbox, fromUser, gen, requestor, crashed⟩ := p
  simp only at hs hrx
  cases a <;> simp [act, aa8Body, effects, shapeOfOut, shapeOfEff, hrx] <;>
    (try (cases requestor <;> simp)) <;> (try (split <;> simp_all [shapeOfOut, shapeOfEff])) <;>
    (try (simp_all [shapeOfOut, shapeOfEff]))

theorem act_requestor (a : Act) (p : P) : (act a p).1.requestor = p.requestor := by
  cases a <;> simp [act, aa8Body] <;> (repeat' split) <;> simp

theorem dropGen_requestor (p : P) : (dropGen p).requestor = p.requestor := by
  unfold dropGen; split <;> rfl

/-- dispatching one event, when no write fails and the loop survives, is one step of the PS3.8 machine -/
theorem dispatch_machine (q : P) (e : Ev) (r : List Ev) (hq : q.evq = e :: r)
    (hnc : (dispatch q false).1.crashed = false) (hrx : q.rx ≠ some .pdataErr)
    (hs : table e q.st = some .aa8 → q.sock = true) :
    ∃ a, table e q.st = some a ∧
      (dispatch q false).1.st = (effects a q.requestor (q.rx == some .pdataDone)).2 ∧
      (dispatch q false).2.map shapeOfOut = (effects a q.requestor (q.rx == some .pdataDone)).1.map shapeOfEff ∧
      (dispatch q false).1.requestor = q.requestor := by
  unfold dispatch at hnc ⊢
  rw [hq] at hnc ⊢
  simp only [] at hnc ⊢
  cases ht : table e q.st with
  | none => rw [ht] at hnc; simp at hnc
  | some a =>
    simp only [Bool.false_and, Bool.false_eq_true, ↓reduceIte]
    have hsa : a = .aa8 → ({ q with evq := r } : P).sock = true := fun h => hs (by rw [ht, h])
    obtain ⟨h1, h2⟩ := act_shapes a { q with evq := r } hsa hrx
    refine ⟨a, rfl, ?_, h2, ?_⟩
    · rw [(dropGen_fields _).1]; exact h1
    · rw [dropGen_requestor, act_requestor]

/-- the reader noticing, in this pass, that the peer has closed the connection (it closes its own side) -/
def readerClose (p : P) (t : Tick) : Bool := p.sock && !(prePoll p t).sock

/-- the event a pass dispatches, with the one fact about the current PDU an action may depend on -/
def passEvent (p : P) (t : Tick) : Option (Ev × Bool) :=
  if p.crashed then none else
  match (prePoll p t).evq with
  | e :: _ => some (e, (prePoll p t).rx == some .pdataDone)
  | [] => none

theorem pollRest_sock (p : P) : (pollRest p).sock = p.sock := (pollRest_st p).2.1

/-- the reader closes only when it has just raised Evt17 -/
theorem poll_close (q : P) (hq : q.evq = []) (h : q.sock = true) (h' : (poll q).sock = false) :
    (poll q).evq = [.e17] := by
  unfold poll checkNetwork processIncoming at h' ⊢
  obtain ⟨st, sock, evq, rx, timer, now, tstart, raw, inbox, fromUser, gen, requestor, crashed⟩ := q
  simp only at hq h
  subst hq h
  simp only [Bool.not_true, Bool.false_eq_true, ↓reduceIte] at h' ⊢
  by_cases h4 : st = .s4
  · simp [h4] at h'
  · simp only [h4, ↓reduceIte] at h' ⊢
    cases raw with
    | cons r rest => simp at h'
    | nil =>
      simp only [] at h' ⊢
      cases inbox with
      | nil => simp only [] at h' ⊢; rw [pollRest_sock] at h'; simp at h'
      | cons seg rest' =>
        cases seg with
        | none => simp
        | some toks =>
          cases toks with
          | cons r tl => simp at h'
          | nil => simp only [List.nil_append] at h' ⊢; rw [pollRest_sock] at h'; simp at h'

theorem reader_close_is_e17 (p : P) (t : Tick) (hc : p.crashed = false) (h : readerClose p t = true) :
    ∃ c, passEvent p t = some (.e17, c) := by
  unfold readerClose at h
  simp only [Bool.and_eq_true, Bool.not_eq_true'] at h
  obtain ⟨h1, h2⟩ := h
  unfold prePoll at h2
  by_cases he : p.evq.isEmpty = true
  · simp only [he, ↓reduceIte] at h2
    have hq : (arrive p t).evq = [] := by simpa [arrive] using he
    have hs : (arrive p t).sock = true := by simpa [arrive] using h1
    have := poll_close (arrive p t) hq hs h2
    refine ⟨(poll (arrive p t)).rx == some .pdataDone, ?_⟩
    simp only [passEvent, hc, Bool.false_eq_true, ↓reduceIte, prePoll, he, this]
  · simp only [he, Bool.false_eq_true, ↓reduceIte] at h2
    simp [arrive, h1] at h2

theorem pollRest_more (p : P) : (pollRest p).requestor = p.requestor ∧ (pollRest p).rx = p.rx ∧
    (pollRest p).raw = p.raw ∧ (pollRest p).inbox = p.inbox := by
  unfold pollRest checkOutgoing checkTimer
  split
  · rename_i p2 h
    split at h
    · simp only [Prod.mk.injEq] at h; rw [← h.1]; simp
    · split at h <;> simp only [Prod.mk.injEq] at h <;> (try (rw [← h.1]; simp)) <;> (try exact absurd h.2 (by simp))
  · rename_i p2 h
    have hp : p2.requestor = p.requestor ∧ p2.rx = p.rx ∧ p2.raw = p.raw ∧ p2.inbox = p.inbox := by
      split at h
      · simp at h
      · split at h <;> simp only [Prod.mk.injEq] at h <;> (try (rw [← h.1]; simp)) <;> (try exact absurd h.2 (by simp))
    split <;> simp [hp]

def segOk : Option (List Rx) → Prop
  | none => True
  | some t => Rx.pdataErr ∉ t

/-- no P-DATA the DIMSE layer rejects is, or has been, in the input -/
def NoErr (p : P) : Prop := p.rx ≠ some .pdataErr ∧ Rx.pdataErr ∉ p.raw ∧ ∀ s ∈ p.inbox, segOk s

theorem noErr_pollRest {p : P} (h : NoErr p) : NoErr (pollRest p) := by
  obtain ⟨_, h2, h3, h4⟩ := pollRest_more p
  unfold NoErr; rw [h2, h3, h4]; exact h

theorem poll_noErr (q : P) (h : NoErr q) : NoErr (poll q) ∧ (poll q).requestor = q.requestor := by
  obtain ⟨h1, h2, h3⟩ := h
  unfold poll checkNetwork processIncoming
  obtain ⟨st, sock, evq, rx, timer, now, tstart, raw, inbox, fromUser, gen, requestor, crashed⟩ := q
  simp only at h1 h2 h3
  cases sock with
  | false =>
    simp only [Bool.not_false, ↓reduceIte]
    exact ⟨noErr_pollRest ⟨h1, h2, h3⟩, (pollRest_more _).1⟩
  | true =>
    simp only [Bool.not_true, Bool.false_eq_true, ↓reduceIte]
    by_cases h4 : st = .s4
    · simp only [h4, ↓reduceIte]; exact ⟨⟨h1, h2, h3⟩, trivial⟩
    · simp only [h4, ↓reduceIte]
      cases raw with
      | cons r rest =>
        simp only []
        refine ⟨⟨?_, ?_, h3⟩, trivial⟩
        · intro e; simp only [Option.some.injEq] at e; subst e; simp at h2
        · intro e; exact h2 (by simp [e])
      | nil =>
        simp only []
        cases inbox with
        | nil => simp only []; exact ⟨noErr_pollRest ⟨h1, h2, h3⟩, (pollRest_more _).1⟩
        | cons seg rest' =>
          cases seg with
          | none => simp only []; exact ⟨⟨h1, h2, by simp⟩, trivial⟩
          | some toks =>
            have hseg : Rx.pdataErr ∉ toks := h3 (some toks) (by simp)
            have hrest : ∀ s ∈ rest', segOk s := fun s hs => h3 s (by simp [hs])
            cases toks with
            | nil =>
              simp only [List.nil_append]
              exact ⟨noErr_pollRest ⟨h1, by simp, hrest⟩, (pollRest_more _).1⟩
            | cons r tl =>
              simp only [List.nil_append]
              refine ⟨⟨?_, ?_, hrest⟩, trivial⟩
              · intro e; simp only [Option.some.injEq] at e; subst e; simp at hseg
              · intro e; exact hseg (by simp [e])

/-- a tick in which no write fails and the transport delivers no P-DATA the DIMSE layer rejects -/
def CleanTick (t : Tick) : Prop :=
  t.sendFails = false ∧ match t.net with | .data toks => Rx.pdataErr ∉ toks | _ => True

theorem arrive_noErr (p : P) (t : Tick) (h : NoErr p) (ht : CleanTick t) :
    NoErr (arrive p t) ∧ (arrive p t).requestor = p.requestor := by
  obtain ⟨h1, h2, h3⟩ := h
  refine ⟨⟨h1, h2, ?_⟩, rfl⟩
  intro s hs
  simp only [arrive] at hs
  split at hs
  · split at hs
    · exact h3 s hs
    · rename_i toks hn
      simp only [List.mem_append, List.mem_singleton] at hs
      rcases hs with hs | hs
      · exact h3 s hs
      · subst hs; have := ht.2; rw [hn] at this; exact this
    · simp only [List.mem_append, List.mem_singleton] at hs
      rcases hs with hs | hs
      · exact h3 s hs
      · subst hs; trivial
  · exact h3 s hs

theorem dispatch_noErr (q : P) (f : Bool) (h : NoErr q) : NoErr (dispatch q f).1 := by
  obtain ⟨h1, h2, h3⟩ := h
  obtain ⟨st, sock, evq, rx, timer, now, tstart, raw, inbox, fromUser, gen, requestor, crashed⟩ := q
  simp only at h1 h2 h3
  cases evq with
  | nil => exact ⟨h1, h2, h3⟩
  | cons e es =>
    simp only [dispatch]
    cases ht : table e st with
    | none => exact ⟨h1, h2, h3⟩
    | some a =>
      simp only []
      split
      · unfold dropGen; split <;> exact ⟨h1, h2, h3⟩
      · cases a <;> (simp only [act, aa8Body, dropGen, NoErr] <;> (repeat' split) <;>
          first | exact ⟨h1, h2, h3⟩ | exact ⟨h1, h2, by simp⟩)

theorem table_aa8 (e : Ev) (st : St) (h : table e st = some .aa8) : st ≠ .s1 ∧ e ≠ .e17 ∧ e ≠ .e5 := by
  cases e <;> cases st <;> simp [table] at h <;> simp

theorem prePoll_requestor_noErr (p : P) (t : Tick) (h : NoErr p) (ht : CleanTick t) :
    NoErr (prePoll p t) ∧ (prePoll p t).requestor = p.requestor := by
  obtain ⟨ha, hr⟩ := arrive_noErr p t h ht
  unfold prePoll
  split
  · obtain ⟨hb, hr'⟩ := poll_noErr _ ha
    exact ⟨hb, by rw [hr', hr]⟩
  · exact ⟨ha, hr⟩

/-- AA-8 is only ever run with the transport open -/
theorem prePoll_aa8_sock (p : P) (t : Tick) (hinv : PInv p) (hc : p.crashed = false) (e : Ev) (r : List Ev)
    (hq : (prePoll p t).evq = e :: r) (h8 : table e (prePoll p t).st = some .aa8) : (prePoll p t).sock = true := by
  rw [prePoll_st] at h8
  obtain ⟨hs1, h17, h5⟩ := table_aa8 e p.st h8
  rcases hinv hc with hqt | ⟨_, _, hst, _⟩ | ⟨_, _, _, hev⟩
  · have hsock : p.sock = true := by
      cases hs : p.sock with
      | true => rfl
      | false => exact absurd (hqt.2.2.2.mpr hs) hs1
    have he : p.evq.isEmpty = true := by simp [hqt.2.2.1]
    have hpp : prePoll p t = poll (arrive p t) := by unfold prePoll; simp [he]
    rw [hpp] at hq ⊢
    cases hps : (poll (arrive p t)).sock with
    | true => rfl
    | false =>
      have := poll_close (arrive p t) (by simp [arrive, hqt.2.2.1]) (by simpa [arrive] using hsock) hps
      rw [this] at hq
      simp only [List.cons.injEq] at hq
      exact absurd hq.1.symm h17
  · exact absurd hst hs1
  · have hne : p.evq.isEmpty = false := by simp [hev]
    have hpp : prePoll p t = arrive p t := by unfold prePoll; simp [hne]
    rw [hpp] at hq
    have : (arrive p t).evq = [.e17] := by simp [arrive, hev]
    rw [this] at hq
    simp only [List.cons.injEq] at hq
    exact absurd hq.1.symm h17

/-- **one pass of the loop = the reader noticing the peer's close, plus one step of the PS3.8 machine on the
event dispatched** (or nothing, when no event is pending) -/
theorem iter_machine (p : P) (t : Tick) (hinv : PInv p) (hn : NoErr p) (hc : p.crashed = false)
    (hc' : (iter p t).1.crashed = false) (ht : CleanTick t) :
    (iter p t).1.requestor = p.requestor ∧ NoErr (iter p t).1 ∧
    match passEvent p t with
    | none => (iter p t).1.st = p.st ∧
        (iter p t).2.map shapeOfOut = (if readerClose p t then [Shape.close] else [])
    | some (e, c) => ∃ a, table e p.st = some a ∧ (iter p t).1.st = (effects a p.requestor c).2 ∧
        (iter p t).2.map shapeOfOut =
          (if readerClose p t then [Shape.close] else []) ++ (effects a p.requestor c).1.map shapeOfEff := by
  obtain ⟨hnq, hrq⟩ := prePoll_requestor_noErr p t hn ht
  have hsf : t.sendFails = false := ht.1
  have hiter : iter p t = ((dispatch (prePoll p t) false).1,
      (if p.sock && !(prePoll p t).sock then [Out.close] else []) ++ (dispatch (prePoll p t) false).2) := by
    simp [iter, hc, hsf]
  rw [hiter] at hc' ⊢
  simp only at hc'
  have hrc : ((if p.sock && !(prePoll p t).sock then [Out.close] else []) : List Out).map shapeOfOut =
      (if readerClose p t then [Shape.close] else []) := by
    unfold readerClose; split <;> simp [shapeOfOut]
  cases hev : (prePoll p t).evq with
  | nil =>
    have hd : dispatch (prePoll p t) false = (prePoll p t, []) := by simp [dispatch, hev]
    simp only [passEvent, hc, Bool.false_eq_true, ↓reduceIte, hev, hd]
    refine ⟨hrq, hnq, prePoll_st p t, ?_⟩
    simp only [List.append_nil]; exact hrc
  | cons e r =>
    obtain ⟨a, h1, h2, h3, h4⟩ := dispatch_machine (prePoll p t) e r hev hc' hnq.1
      (prePoll_aa8_sock p t hinv hc e r hev)
    simp only [passEvent, hc, Bool.false_eq_true, ↓reduceIte, hev]
    refine ⟨by rw [h4, hrq], dispatch_noErr _ _ hnq, a, by rw [← prePoll_st p t]; exact h1, ?_, ?_⟩
    · rw [h2, hrq]
    · rw [List.map_append, hrc, h3, hrq]

/-- what a pass looks like from outside the action bodies: did the reader notice the peer's close, and which
event (with whether its P-DATA completes a DIMSE message) was dispatched -/
structure PassRec where
  peerClosed : Bool
  ev : Option (Ev × Bool)
deriving Repr

def trace : P → List Tick → List PassRec
  | _, [] => []
  | p, t :: ts => ⟨readerClose p t, passEvent p t⟩ :: trace (iter p t).1 ts

/-- the PS3.8 upper-layer machine (Table 9-10 and the action definitions), one pass record at a time -/
def machStep (req : Bool) (s : St) (r : PassRec) : Option (List Shape × St) :=
  match r.ev with
  | none => some ((if r.peerClosed then [Shape.close] else []), s)
  | some (e, c) => (table e s).map fun a =>
      ((if r.peerClosed then [Shape.close] else []) ++ (effects a req c).1.map shapeOfEff, (effects a req c).2)

def machRun (req : Bool) : St → List PassRec → Option (List Shape × St)
  | s, [] => some ([], s)
  | s, r :: rs =>
    match machStep req s r with
    | none => none
    | some (o, s') =>
      match machRun req s' rs with
      | none => none
      | some (o', s'') => some (o ++ o', s'')

theorem run_crashed (ts : List Tick) : ∀ p, p.crashed = true → (run p ts).1.crashed = true := by
  induction ts with
  | nil => intro p h; exact h
  | cons t ts ih =>
    intro p h
    have : iter p t = (p, []) := by simp [iter, h]
    simp only [run, this]; exact ih p h

/-- **the run follows the machine.**  Over any history — peer PDUs in any order and segmentation, user
primitives, closes, ARTIM expiries — in which no transport write fails, no P-DATA is rejected by the DIMSE
layer and the loop does not die (no primitive the user may not issue), the ordered effects of the loop and its
final state are those of the PS3.8 machine run over the events the loop dispatched. -/
theorem run_machine (σ : List Tick) : ∀ p, PInv p → NoErr p → p.crashed = false →
    (run p σ).1.crashed = false → (∀ t ∈ σ, CleanTick t) →
    machRun p.requestor p.st (trace p σ) = some ((run p σ).2.map shapeOfOut, (run p σ).1.st) := by
  induction σ with
  | nil => intro p _ _ _ _ _; simp [machRun, trace, run]
  | cons t ts ih =>
    intro p hinv hn hc hfin hcl
    simp only [run] at hfin ⊢
    have hc1 : (iter p t).1.crashed = false := by
      cases h : (iter p t).1.crashed with
      | false => rfl
      | true => rw [run_crashed ts _ h] at hfin; exact absurd hfin (by simp)
    obtain ⟨hreq, hn1, hstep⟩ := iter_machine p t hinv hn hc hc1 (hcl t (by simp))
    have hih := ih (iter p t).1 (iter_inv p t hinv) hn1 hc1 hfin (fun x hx => hcl x (by simp [hx]))
    rw [hreq] at hih
    simp only [trace, machRun, machStep]
    cases hev : passEvent p t with
    | none =>
      rw [hev] at hstep
      obtain ⟨hst, hout⟩ := hstep
      simp only []
      rw [← hst, hih]
      simp [hout]
    | some x =>
      obtain ⟨e, c⟩ := x
      rw [hev] at hstep
      obtain ⟨a, hta, hst, hout⟩ := hstep
      simp only [hta, Option.map_some]
      rw [← hst, hih]
      simp [hout]

end Dicom.Prov
