import Dicom.Proofs.Pdu2
/-! # C01 — PDU encode/decode round trip for every PDU, item and sub-item

`Pdu.enc` mirrors `encode()` and `decodePdu` mirrors `decode()` of `pdu.py`/`userdataitems.py`
(stream reads that may come up short, one-byte look-ahead, ignored length fields).  `Pdu.WF` says the
value can be built from the public classes with in-range fields: integers in their wire range, text
ASCII, AE titles ≤ 16 bytes without NUL at either end, UIDs without white space at either end,
generic sub-items with a type code the library does not interpret, User Information (if present) as
the last variable item. -/
namespace Dicom.C01
open Dicom

/-- **C01.** Every well-formed PDU — all seven types, any list of variable items, any list and
order of user-information sub-items, any payloads — decodes from its encoding to itself. -/
theorem decode_encode (p : Pdu) (h : p.WF) : decodePdu p.enc = some p := decodePdu_enc p h

/-- re-encoding the decoded PDU reproduces the original bytes exactly -/
theorem reencode (p : Pdu) (h : p.WF) : (decodePdu p.enc).map Pdu.enc = some p.enc := by
  rw [decode_encode p h]; rfl

/-- **every ordered adjacency of sub-item kinds**: any sequence of well-formed user-information
sub-items, of any kinds in any order and of any length, decodes to exactly that sequence (the
stream ending, or continuing with a zero byte, after it) -/
theorem subitems_any_order (l : List SubItem) (h : ∀ s ∈ l, s.WF) (rest : Bytes)
    (hr : rest = [] ∨ ∃ r, rest = 0 :: r) :
    decSubs (l.length + 1) (encSubs l ++ rest) = some (l, rest) :=
  decSubs_enc l h rest hr (l.length + 1) (by omega)

/-- several PDVs per P-DATA-TF, payloads of any size including empty -/
theorem pdata_roundtrip (rsv : Nat) (pdvs : List Pdv) (h : (Pdu.pdata rsv pdvs).WF) :
    decodePdu (Pdu.pdata rsv pdvs).enc = some (.pdata rsv pdvs) := decode_encode _ h

-- non-vacuity: an A-ASSOCIATE-RQ with a presentation context and three sub-items (ExtNeg in the middle)
def sampleRq : Pdu := .rq {
  rsv1 := 0, protoVer := 1, rsv2 := 0, called := [65, 66], calling := [67],
  rsv3 := [0, 0, 0, 0, 0, 0, 0, 0],
  items := [.appCtx 0 [49, 46, 50], .pcRq 0 1 0 0 0 0 [49, 46, 50] [⟨0, [49, 46, 50, 46, 51]⟩],
            .userInfo 0 [.maxLen 0 4 16384, .extNeg 0 [49, 46, 50] [1, 2], .implVersion 0 [86, 49]]] }

example : sampleRq.WF := by
  unfold sampleRq
  simp [Pdu.WF, Assoc.WF, titleOk, ascii, trimmed, stripLeft, itemsOk, Item.WF, Item.isUserInfo, uidOk, isWs,
    TsSub.WF, SubItem.WF, Assoc.pduLength, Item.totalLength, Item.itemLength, TsSub.totalLength, SubItem.totalLength]

example : (Pdu.pdata 0 [⟨1, []⟩, ⟨3, [3, 1, 2]⟩]).WF := by
  simp [Pdu.WF, Pdv.WF, Pdv.totalLength]

end Dicom.C01
