import Dicom.Proofs.PduSound
import Dicom.Generated.Layouts
/-! # C02 — the wire format matches the PS3.8 / PS3.7 PDU layouts

`Spec.parsePdu` is a strict, length-driven reader written from the tables of PS3.8 §9.3 and PS3.7
Annex D: every length field delimits a slice that must exist and be consumed exactly, widths and type
codes are the standard's literals.  `WF₂` adds to C01's `WF` what the standard itself requires of an
emitted PDU: the two sub-items that store their item length carry 4, the reserved block has 8 words,
and an A-ASSOCIATE-RQ carries request contexts, an A-ASSOCIATE-AC response contexts.

The converse (`conformant_decodes`) rests on `parsePdu_sound` (Proofs/PduSound.lean): the strict reader
accepts only encodings of values, with every integer in wire range. -/
namespace Dicom.C02
open Dicom Dicom.Spec

def assocOk (rq : Bool) (a : Assoc) : Prop := ∀ i ∈ a.items, i.strict ∧ i.fits rq

def WF₂ : Pdu → Prop
  | .rq a => a.WF ∧ assocOk true a
  | .ac a => a.WF ∧ assocOk false a
  | p => p.WF

theorem itemsOk_all {l : List Item} (h : itemsOk l) : ∀ i ∈ l, i.WF := by
  induction l with
  | nil => intro i hi; simp at hi
  | cons x xs ih =>
    intro i hi
    simp only [List.mem_cons] at hi
    rcases hi with rfl | hi
    · exact itemsOk_head h
    · exact ih (itemsOk_tail h) i hi

theorem parse_assoc (ty : Nat) (hty : ty = 1 ∨ ty = 2) (a : Assoc) (h : a.WF) (hk : assocOk (decide (ty = 1)) a) :
    parsePdu (a.enc ty) = some (if ty = 1 then .rq { a with called := pad16 a.called, calling := pad16 a.calling }
                                 else .ac { a with called := pad16 a.called, calling := pad16 a.calling }) := by
  obtain ⟨h1, h2, h3, h4, h5, h6, h7, h8, h9⟩ := h
  have hlen := Assoc.enc_length ty a (fun i hi => (hk i hi).1) h6
  unfold Assoc.enc at hlen ⊢
  unfold parsePdu
  simp only [u8, List.cons_append, List.nil_append, List.append_assoc] at hlen ⊢
  rw [rd32_be32 _ h9]
  simp only []
  have hb : ¬ ((be16 a.protoVer ++ (be16 a.rsv2 ++ (pad16 a.called ++ (pad16 a.calling ++
      ((a.rsv3.map be32).flatten ++ encItems a.items))))).length ≠ a.pduLength) := by
    simp only [List.length_cons, List.length_append, be32_length] at hlen
    simp only [List.length_append, ne_eq, Decidable.not_not]
    omega
  simp only [hb, ↓reduceIte]
  have ht : (UInt8.ofNat ty).toNat = ty := u8_toNat ty (by omega)
  have hor : ty = 1 ∨ ty = 2 := hty
  simp only [ht, hor, ↓reduceIte]
  rw [rd16_be16 _ h2]
  simp only []
  rw [rd16_be16 _ h3]
  simp only []
  have s1 := slice_append (pad16 a.called) (pad16 a.calling ++ ((a.rsv3.map be32).flatten ++ encItems a.items))
  rw [pad16_length] at s1
  rw [s1]
  simp only []
  have s2 := slice_append (pad16 a.calling) ((a.rsv3.map be32).flatten ++ encItems a.items)
  rw [pad16_length] at s2
  rw [s2]
  simp only []
  have s3 := slice_append ((a.rsv3.map be32).flatten) (encItems a.items)
  rw [flatten_be32_length, h6] at s3
  rw [s3]
  simp only []
  have p32 := parse32s_enc a.rsv3 h7
  rw [h6] at p32
  rw [p32]
  have pit := parseItems_enc (decide (ty = 1)) a.items
    (fun i hi => ⟨itemsOk_all h8 i hi, (hk i hi).1, (hk i hi).2⟩) ((encItems a.items).length + 1)
    (by have := encItems_length_ge a.items; omega)
  rw [pit]
  simp only [u8_toNat a.rsv1 h1]

/-- **C02 (emitted PDUs).** Every PDU the library emits, read strictly by the PS3.8/PS3.7 layouts —
each length field delimiting exactly the bytes it governs, big-endian widths, standard type codes —
yields exactly the field values of the PDU that was encoded (AE titles modulo their NUL padding). -/
theorem spec_reads_impl (p : Pdu) (h : WF₂ p) : (parsePdu p.enc).map unpadTitles = some p := by
  cases p with
  | rq a =>
    obtain ⟨hw, hk⟩ := h
    have h := parse_assoc 1 (Or.inl rfl) a hw hk
    have e1 := strip_pad16 _ hw.2.2.2.1
    have e2 := strip_pad16 _ hw.2.2.2.2.1
    have h' : parsePdu (Pdu.rq a).enc = some (.rq { a with called := pad16 a.called, calling := pad16 a.calling }) := h
    rw [h']
    show some (Pdu.rq { a with called := strip (· == 0) (pad16 a.called), calling := strip (· == 0) (pad16 a.calling) }) = _
    rw [e1, e2]
  | ac a =>
    obtain ⟨hw, hk⟩ := h
    have h := parse_assoc 2 (Or.inr rfl) a hw hk
    have e1 := strip_pad16 _ hw.2.2.2.1
    have e2 := strip_pad16 _ hw.2.2.2.2.1
    have h' : parsePdu (Pdu.ac a).enc = some (.ac { a with called := pad16 a.called, calling := pad16 a.calling }) := h
    rw [h']
    show some (Pdu.ac { a with called := strip (· == 0) (pad16 a.called), calling := strip (· == 0) (pad16 a.calling) }) = _
    rw [e1, e2]
  | rj r1 r2 res src rsn =>
    obtain ⟨h1, h2, h3, h4, h5⟩ := h
    simp [parsePdu, Pdu.enc, u8, be32, rd32, unpadTitles, u8_toNat, h1, h2, h3, h4, h5]
  | pdata rsv pdvs =>
    obtain ⟨h1, h2, h3⟩ := h
    unfold parsePdu
    simp only [Pdu.enc, u8, List.cons_append, List.nil_append]
    rw [rd32_be32 _ h3]
    simp only [encPdvs_len, ne_eq, not_true_eq_false, ↓reduceIte]
    have h4 : (UInt8.ofNat 4).toNat = 4 := by decide
    simp only [h4]
    simp only [Nat.reduceEqDiff, or_self, ↓reduceIte]
    have hfu : pdvs.length < (pdvs.map Pdv.totalLength).sum + 1 := by
      have := encPdvs_length pdvs; rw [encPdvs_len] at this; omega
    rw [parsePdvs_enc pdvs h2 _ hfu]
    simp [unpadTitles, u8_toNat rsv h1]
  | rlrq r1 r2 =>
    obtain ⟨h1, h2⟩ := h
    unfold parsePdu
    simp only [Pdu.enc, u8, List.cons_append, List.nil_append]
    have hh := rd32_be32 4 (by omega) (be32 r2)
    rw [hh]
    have h5 : (UInt8.ofNat 5).toNat = 5 := by decide
    have := rd32_be32 r2 h2 []
    simp only [List.append_nil] at this
    simp [h5, this, unpadTitles, u8_toNat r1 h1]
  | rlrp r1 r2 =>
    obtain ⟨h1, h2⟩ := h
    unfold parsePdu
    simp only [Pdu.enc, u8, List.cons_append, List.nil_append]
    have hh := rd32_be32 4 (by omega) (be32 r2)
    rw [hh]
    have h6 : (UInt8.ofNat 6).toNat = 6 := by decide
    have := rd32_be32 r2 h2 []
    simp only [List.append_nil] at this
    simp [h6, this, unpadTitles, u8_toNat r1 h1]
  | abort r1 r2 r3 src rsn =>
    obtain ⟨h1, h2, h3, h4, h5⟩ := h
    simp [parsePdu, Pdu.enc, u8, be32, rd32, unpadTitles, u8_toNat, h1, h2, h3, h4, h5]

/-- **self-reported length.** `total_length()` equals the number of bytes emitted. -/
theorem length_reported (p : Pdu) (h : WF₂ p) : p.enc.length = p.totalLength := by
  apply Pdu.enc_length
  cases p with
  | rq a => exact ⟨fun i hi => (h.2 i hi).1, h.1.2.2.2.2.2.1⟩
  | ac a => exact ⟨fun i hi => (h.2 i hi).1, h.1.2.2.2.2.2.1⟩
  | rj r1 r2 a b c => trivial
  | pdata r l => trivial
  | rlrq r1 r2 => trivial
  | rlrp r1 r2 => trivial
  | abort r1 r2 r3 a b => trivial

/-- the library decodes what the strict reader accepts of its own output to the same value
(composition with C01) -/
theorem impl_agrees_with_spec (p : Pdu) (h : WF₂ p) (hw : p.WF) :
    decodePdu p.enc = (parsePdu p.enc).map unpadTitles := by
  rw [spec_reads_impl p h, decodePdu_enc p hw]

/-- **layouts.** The `struct` formats and the item type codes of the running code (regenerated by
introspection on every run) are those of the standard's tables. -/
theorem layouts_are_standard : Dicom.Generated.layouts = [
    ("AAssociatePDUBase.header", ">B B I H H 16s 16s I I I I I I I I"), ("AAssociateRjPDU.format", ">B B I B B B B"),
    ("PDataTfPDU.header", ">B B I"), ("AReleasePDUBase.format", ">B B I I"), ("AAbortPDU.format", ">B B I B B B B"),
    ("ApplicationContextItem.header", ">B B H"), ("PresentationContextItemRQ.header", ">B B H B B B B"),
    ("PresentationContextItemAC.header", ">B B H B B B B"), ("AbstractSyntaxSubItem.header", ">B B H"),
    ("TransferSyntaxSubItem.header", ">B B H"), ("UserInformationItem.header", ">B B H"),
    ("PresentationDataValueItem.header", ">I B"), ("MaximumLengthSubItem.item_format", ">B B H I"),
    ("ImplementationClassUIDSubItem.header", ">B B H"), ("ImplementationVersionNameSubItem.header", ">B B H"),
    ("AsynchronousOperationsWindowSubItem.item_format", ">B B H H H"), ("ScpScuRoleSelectionSubItem.header", ">B B H H"),
    ("SOPClassExtendedNegotiationSubItem.header", ">B B H H"), ("UserIdentityNegotiationSubItem.header", ">B B H B B H"),
    ("UserIdentityNegotiationSubItemAc.header", ">B B H H"), ("GenericUserDataSubItem.header", ">B B H")] ∧
  Dicom.Generated.typeCodes = [
    ("AAssociateRqPDU", 1), ("AAssociateAcPDU", 2), ("AAssociateRjPDU", 3), ("PDataTfPDU", 4), ("AReleaseRqPDU", 5),
    ("AReleaseRpPDU", 6), ("AAbortPDU", 7), ("ApplicationContextItem", 0x10), ("PresentationContextItemRQ", 0x20),
    ("PresentationContextItemAC", 0x21), ("AbstractSyntaxSubItem", 0x30), ("TransferSyntaxSubItem", 0x40),
    ("UserInformationItem", 0x50), ("MaximumLengthSubItem", 0x51), ("ImplementationClassUIDSubItem", 0x52),
    ("AsynchronousOperationsWindowSubItem", 0x53), ("ScpScuRoleSelectionSubItem", 0x54),
    ("ImplementationVersionNameSubItem", 0x55), ("SOPClassExtendedNegotiationSubItem", 0x56),
    ("UserIdentityNegotiationSubItem", 0x58), ("UserIdentityNegotiationSubItemAc", 0x59)] ∧
  Dicom.Generated.subItemDispatch = [(0x51, "MaximumLengthSubItem"), (0x52, "ImplementationClassUIDSubItem"),
    (0x53, "AsynchronousOperationsWindowSubItem"), (0x54, "ScpScuRoleSelectionSubItem"),
    (0x55, "ImplementationVersionNameSubItem"), (0x56, "SOPClassExtendedNegotiationSubItem"),
    (0x58, "UserIdentityNegotiationSubItem"), (0x59, "UserIdentityNegotiationSubItemAc")] := by decide

/-- **C02 (converse).** Any byte sequence the strict PS3.8/PS3.7 reader accepts — items and sub-items in
any order, sub-item types the library does not know, any number of transfer syntaxes and PDVs — whose
text is conformant (`Pdu.Conf`: AE titles ASCII and padded on the right only, UIDs ASCII without white
space at the ends, names ASCII, User Identity fields well-formed UTF-8, no sub-item of type 0, User
Information last) is decoded by the library
to exactly the field values the strict reader yields (AE titles without their padding). -/
theorem conformant_decodes (b : Bytes) (v : Pdu) (hp : parsePdu b = some v) (hc : v.Conf) :
    decodePdu b = some (unpadTitles v) := by
  obtain ⟨_, _, h⟩ := parsePdu_sound hp
  obtain ⟨hwf, henc⟩ := h hc
  rw [unpadTitles_eq]
  conv => lhs; rw [← henc]
  exact decodePdu_enc _ hwf

/-- the strict reader accepts nothing but encodings: what it reads, written back field by field with
the lengths recomputed, is the input -/
theorem strict_reader_accepts_only_encodings (b : Bytes) (v : Pdu) (hp : parsePdu b = some v) :
    v.encRaw = b ∧ v.Shape :=
  ⟨(parsePdu_sound hp).1, (parsePdu_sound hp).2.1⟩

/-- two byte sequences read strictly to the same values are the same bytes: the layout leaves no slack -/
theorem strict_reader_injective (b₁ b₂ : Bytes) (v : Pdu) (h₁ : parsePdu b₁ = some v) (h₂ : parsePdu b₂ = some v) :
    b₁ = b₂ := by
  rw [← (parsePdu_sound h₁).1, ← (parsePdu_sound h₂).1]

/-- non-vacuity: an A-ASSOCIATE-RQ the library would never emit itself — presentation context before
the application context, two transfer syntaxes, an unknown sub-item (type 0x77) before Maximum Length —
is accepted by the strict reader with conformant text -/
def exBytes : Bytes :=
  [1, 0, 0, 0, 0, 115, 0, 1, 0, 0, 65, 0, 0, 0, 0, 0, 0, 0, 0, 0, 0, 0, 0, 0, 0, 0, 66, 67, 0, 0, 0, 0, 0, 0, 0, 0,
   0, 0, 0, 0, 0, 0, 0, 0, 0, 0, 0, 0, 0, 0, 0, 0, 0, 0, 0, 0, 0, 0, 0, 0, 0, 0, 0, 0, 0, 0, 0, 0, 0, 0, 0, 0, 0, 0,
   32, 0, 0, 19, 1, 0, 0, 0, 48, 0, 0, 1, 49, 64, 0, 0, 1, 50, 64, 0, 0, 1, 51, 16, 0, 0, 2, 49, 46,
   80, 0, 0, 14, 119, 0, 0, 2, 9, 9, 81, 0, 0, 4, 0, 0, 64, 0]

def exValue : Pdu := .rq
  { rsv1 := 0, protoVer := 1, rsv2 := 0,
    called := [65, 0, 0, 0, 0, 0, 0, 0, 0, 0, 0, 0, 0, 0, 0, 0],
    calling := [66, 67, 0, 0, 0, 0, 0, 0, 0, 0, 0, 0, 0, 0, 0, 0],
    rsv3 := [0, 0, 0, 0, 0, 0, 0, 0],
    items := [.pcRq 0 1 0 0 0 0 [49] [⟨0, [50]⟩, ⟨0, [51]⟩], .appCtx 0 [49, 46],
              .userInfo 0 [.generic 119 0 [9, 9], .maxLen 0 4 16384]] }

example : parsePdu exBytes = some exValue ∧ exValue.Conf := by
  refine ⟨by decide +kernel, ?_⟩
  simp [exValue, Pdu.Conf, Assoc.Conf, userInfoLast, Item.isUserInfo, Item.Conf, SubItem.Conf, TsSub.Conf, uidOk,
    trimmed, ascii, stripLeft, isWs, pad16, strip]

end Dicom.C02
