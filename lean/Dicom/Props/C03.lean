import Dicom.Proofs.Framing
/-! # C03 — PDU framing is independent of how TCP segments the byte stream (framing core)

`frame1`/`frames`/`feed` mirror `DULServiceProvider._process_incoming` and the receive buffer
(`raw_pdu += data`).  The theorems hold for every byte stream and every partition of it. -/
namespace Dicom.C03
open Dicom

/-- **C03 (framing).** Delivering a stream in any segmentation — one byte at a time, everything at
once, cuts inside headers or bodies, several PDUs per segment — yields exactly the PDUs, in the
same order, and the same unconsumed residue as delivering it whole. -/
theorem segmentation_independent (segs : List Bytes) :
    segs.foldl feed ([], []) = frames segs.flatten := by
  have h0 : frames ([] : Bytes) = ([], []) := frames_none (by simp [frame1])
  have := segmentation_independent_gen segs [] [] h0
  simpa using this

/-- two segmentations of the same stream are indistinguishable -/
theorem any_two_segmentations (s₁ s₂ : List Bytes) (h : s₁.flatten = s₂.flatten) :
    s₁.foldl feed ([], []) = s₂.foldl feed ([], []) := by
  rw [segmentation_independent, segmentation_independent, h]

/-- no byte is lost, duplicated or reordered: the recognised PDUs followed by the residue are the
stream -/
theorem frames_concat (s : Bytes) : (frames s).1.flatten ++ (frames s).2 = s := by
  induction h : s.length using Nat.strongRecOn generalizing s with
  | _ n ih =>
    cases hf : frame1 s with
    | none => simp [frames_none hf]
    | some pr =>
      obtain ⟨p, r⟩ := pr
      rw [frames_some hf]
      simp only [List.flatten_cons, List.append_assoc]
      rw [ih r.length (by have := frame1_drop_lt hf; omega) r rfl]
      exact frame1_eq hf

/-- every recognised PDU is a complete one: at least a header, and exactly as long as its length
field says -/
theorem frames_wellformed (s : Bytes) : ∀ p ∈ (frames s).1, 6 ≤ p.length ∧ p.length = len32 p + 6 := by
  induction h : s.length using Nat.strongRecOn generalizing s with
  | _ n ih =>
    cases hf : frame1 s with
    | none => simp [frames_none hf]
    | some pr =>
      obtain ⟨p, r⟩ := pr
      rw [frames_some hf]
      intro q hq
      simp only [List.mem_cons] at hq
      rcases hq with rfl | hq
      · unfold frame1 at hf
        split at hf
        · simp at hf
        · split at hf
          · simp at hf
          · rename_i h6 hfull
            simp only [Option.some.injEq, Prod.mk.injEq] at hf
            have hlen : q.length = len32 s + 6 := by
              rw [← hf.1]; simp [List.length_take]; omega
            have hq6 : 6 ≤ q.length := by omega
            have : len32 q = len32 s := by
              have := frame1_eq (a := s) (p := q) (r := r) (by
                unfold frame1; simp [h6, hfull, hf.1, hf.2])
              rw [← this]; exact (len32_append q r hq6).symm
            omega
      · exact ih r.length (by have := frame1_drop_lt hf; omega) r rfl q hq

-- non-vacuity: an A-RELEASE-RQ followed by the first four bytes of an A-ABORT
example : frames [5, 0, 0, 0, 0, 4, 0, 0, 0, 0, 7, 0, 0, 0] = ([[5, 0, 0, 0, 0, 4, 0, 0, 0, 0]], [7, 0, 0, 0]) := by
  rw [frames_some (p := [5, 0, 0, 0, 0, 4, 0, 0, 0, 0]) (r := [7, 0, 0, 0]) (by decide),
    frames_none (by decide)]

end Dicom.C03
