import Dicom.Proofs.Framing
import Dicom.Proofs.Sched
/-! # C03 — PDU framing is independent of how TCP segments the byte stream (framing core)

`frame1`/`frames`/`feed` mirror `DULServiceProvider._process_incoming` and the receive buffer
(`raw_pdu += data`).  The theorems hold for every byte stream and every partition of it. -/
namespace Dicom.C03
open Dicom

/-- **C03 (framing).** Delivering a stream in any segmentation — one byte at a time, everything at
once, cuts inside headers or bodies, several PDUs per segment — yields exactly the PDUs, in the
same order, and the same unconsumed residue as delivering it whole. -/
theorem segmentation_independent (segs : List Bytes) :
    segs.foldl feed ([], []) = frames segs.flatten := by
  have h0 : frames ([] : Bytes) = ([], []) := frames_none (by simp [frame1])
  have := segmentation_independent_gen segs [] [] h0
  simpa using this

/-- two segmentations of the same stream are indistinguishable -/
theorem any_two_segmentations (s₁ s₂ : List Bytes) (h : s₁.flatten = s₂.flatten) :
    s₁.foldl feed ([], []) = s₂.foldl feed ([], []) := by
  rw [segmentation_independent, segmentation_independent, h]

/-- no byte is lost, duplicated or reordered: the recognised PDUs followed by the residue are the
stream -/
theorem frames_concat (s : Bytes) : (frames s).1.flatten ++ (frames s).2 = s := by
  induction h : s.length using Nat.strongRecOn generalizing s with
  | _ n ih =>
    cases hf : frame1 s with
    | none => simp [frames_none hf]
    | some pr =>
      obtain ⟨p, r⟩ := pr
      rw [frames_some hf]
      simp only [List.flatten_cons, List.append_assoc]
      rw [ih r.length (by have := frame1_drop_lt hf; omega) r rfl]
      exact frame1_eq hf

/-- every recognised PDU is a complete one: at least a header, and exactly as long as its length
field says -/
theorem frames_wellformed (s : Bytes) : ∀ p ∈ (frames s).1, 6 ≤ p.length ∧ p.length = len32 p + 6 := by
  induction h : s.length using Nat.strongRecOn generalizing s with
  | _ n ih =>
    cases hf : frame1 s with
    | none => simp [frames_none hf]
    | some pr =>
      obtain ⟨p, r⟩ := pr
      rw [frames_some hf]
      intro q hq
      simp only [List.mem_cons] at hq
      rcases hq with rfl | hq
      · unfold frame1 at hf
        split at hf
        · simp at hf
        · split at hf
          · simp at hf
          · rename_i h6 hfull
            simp only [Option.some.injEq, Prod.mk.injEq] at hf
            have hlen : q.length = len32 s + 6 := by
              rw [← hf.1]; simp [List.length_take]; omega
            have hq6 : 6 ≤ q.length := by omega
            have : len32 q = len32 s := by
              have := frame1_eq (a := s) (p := q) (r := r) (by
                unfold frame1; simp [h6, hfull, hf.1, hf.2])
              rw [← this]; exact (len32_append q r hq6).symm
            omega
      · exact ih r.length (by have := frame1_drop_lt hf; omega) r rfl q hq

-- non-vacuity: an A-RELEASE-RQ followed by the first four bytes of an A-ABORT
example : frames [5, 0, 0, 0, 0, 4, 0, 0, 0, 0, 7, 0, 0, 0] = ([[5, 0, 0, 0, 0, 4, 0, 0, 0, 0]], [7, 0, 0, 0]) := by
  rw [frames_some (p := [5, 0, 0, 0, 0, 4, 0, 0, 0, 0]) (r := [7, 0, 0, 0]) (by decide),
    frames_none (by decide)]

/-! ### the provider loop (model of `DULServiceProvider.run`, C05) on top of the framing

`Prov.consume` is the provider as a function of the peer's PDU stream; `Prov.run` is the loop, pass by
pass, under a schedule that says what the transport delivers before each pass.  `cls` is how the receive
path classifies a complete PDU (its type, and for P-DATA what the DIMSE decoder makes of it). -/
open Dicom.Prov

/-- **C03 (provider loop, any delivery timing).** While only the network acts (no local primitive, no ARTIM
expiry, no write failure), what the loop has done after a schedule, followed by what the input it has not
yet read would still make it do, is what the whole delivered stream makes the provider do: the grouping
of PDUs into segments and the passes at which segments arrive do not matter. -/
theorem provider_is_function_of_stream (ts : List Tick) (p : P) (hp : Calm p) (hn : ∀ t ∈ ts, NetOnly t) :
    consume (core p) (stream p ++ dels ts) =
      ((consume (core (run p ts).1) (stream (run p ts).1)).1,
       (run p ts).2 ++ (consume (core (run p ts).1) (stream (run p ts).1)).2) :=
  (run_consume ts p hp hn).2

/-- **C03 (provider loop, any byte segmentation).** Two byte-level schedules that deliver the same byte
stream — cut anywhere, one byte at a time, all at once, with idle passes anywhere — optionally followed by
the peer's close, and then enough idle passes to read everything (`mu` many suffice), leave the provider in
the same state with the same ordered effects (PDUs sent, indications given, timer and socket operations). -/
theorem provider_segmentation_independent (cls : Bytes → Rx) (p : P) (hp : Calm p) (s₁ s₂ : List BNet)
    (h₁ : noEof s₁) (h₂ : noEof s₂) (hb : bytesOf s₁ = bytesOf s₂) (close : Bool) (n₁ n₂ : Nat)
    (hn₁ : mu (run p (absTicks cls [] s₁ ++ (if close then [({ net := .eof } : Tick)] else []))).1 ≤ n₁)
    (hn₂ : mu (run p (absTicks cls [] s₂ ++ (if close then [({ net := .eof } : Tick)] else []))).1 ≤ n₂) :
    core (run p (absTicks cls [] s₁ ++ (if close then [({ net := .eof } : Tick)] else []) ++ List.replicate n₁ ({} : Tick))).1 =
      core (run p (absTicks cls [] s₂ ++ (if close then [({ net := .eof } : Tick)] else []) ++ List.replicate n₂ ({} : Tick))).1 ∧
    (run p (absTicks cls [] s₁ ++ (if close then [({ net := .eof } : Tick)] else []) ++ List.replicate n₁ ({} : Tick))).2 =
      (run p (absTicks cls [] s₂ ++ (if close then [({ net := .eof } : Tick)] else []) ++ List.replicate n₂ ({} : Tick))).2 := by
  have h0 : frames ([] : Bytes) = ([], []) := frames_none (by simp [frame1])
  have hc : ∀ t ∈ (if close then [({ net := .eof } : Tick)] else []), NetOnly t := by
    intro t ht; cases close <;> simp at ht; subst ht; exact ⟨rfl, rfl, rfl⟩
  have hi : ∀ n, ∀ t ∈ List.replicate n ({} : Tick), NetOnly t := by
    intro n t ht; rw [List.eq_of_mem_replicate ht]; exact ⟨rfl, rfl, rfl⟩
  have hno : ∀ (s : List BNet) (n : Nat), ∀ t ∈ absTicks cls [] s ++ (if close then [({ net := .eof } : Tick)] else []) ++ List.replicate n ({} : Tick),
      NetOnly t := by
    intro s n t ht
    simp only [List.mem_append] at ht
    rcases ht with (ht | ht) | ht
    · exact absTicks_netOnly cls s [] t ht
    · exact hc t ht
    · exact hi n t ht
  have hno' : ∀ (s : List BNet), ∀ t ∈ absTicks cls [] s ++ (if close then [({ net := .eof } : Tick)] else []), NetOnly t :=
    fun s t ht => hno s 0 t (by simpa using ht)
  apply schedule_independent _ _ p hp (hno s₁ n₁) (hno s₂ n₂)
  · simp only [dels_append, dels_idle, dels_absTicks cls s₁ h₁ [] h0, dels_absTicks cls s₂ h₂ [] h0, hb]
  · rw [run_append]
    exact drained_after _ (run_consume _ p hp (hno' s₁)).1 n₁ hn₁
  · rw [run_append]
    exact drained_after _ (run_consume _ p hp (hno' s₂)).1 n₂ hn₂

/-- non-vacuity: the acceptor waiting for its first PDU (Sta2, ARTIM just started) is calm, and a
one-byte-at-a-time delivery of a 10-byte PDU is a schedule the theorem covers -/
example : Calm { st := .s2, sock := true, timer := true, now := 1000, tstart := 1000 } ∧
    noEof [.data [5], .idle, .data [0, 0, 0, 0, 4], .data [0, 0], .data [0, 0]] ∧
    bytesOf [.data [5], .idle, .data [0, 0, 0, 0, 4], .data [0, 0], .data [0, 0]] = bytesOf [.data [5, 0, 0, 0, 0, 4, 0, 0, 0, 0]] := by
  refine ⟨⟨⟨rfl, rfl, ?_, ?_⟩, rfl⟩, ?_, ?_⟩
  · intro _; decide
  · intro _; decide
  · simp [noEof]
  · rfl

end Dicom.C03
