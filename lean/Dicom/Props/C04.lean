import Dicom.Spec.Table910
import Dicom.Generated.FsmObserved
/-! # C04 — the state machine performs the Table 9-10 action and transition in every cell

`Dicom.Generated.fsmObserved` is regenerated on every run: the real `StateMachine.action` is executed
on a recording provider for all 13 × 19 cells, both roles and two distinct primitives per event.
The domain is finite, so the theorems below are a complete decision of C04 for the running code,
re-made by the kernel on every run. -/
namespace Dicom.C04
open Dicom.UL Dicom.Generated

def variantOf (n : Nat) : Variant := if n = 0 then .v0 else .v1

/-- what the running code did in a cell (`raised "missing"` if the extractor did not visit it) -/
def observed (requestor : Bool) (s : St) (e : Ev) (v : Nat) : Obs :=
  match fsmObserved[(if requestor then 13 else 0) + (s.toNat - 1)]? with
  | some row => (row[(e.toNat - 1) * 2 + v]?).getD (.raised "missing")
  | none => .raised "missing"

theorem allStates_complete (s : St) : s ∈ allStates := by cases s <;> decide
theorem allEvents_complete (e : Ev) : e ∈ allEvents := by cases e <;> decide

theorem cells_ok : ∀ r ∈ [false, true], ∀ s ∈ allStates, ∀ e ∈ allEvents, ∀ v ∈ [0, 1],
    obsMatch (specCell r s e (variantOf v)) (observed r s e v) = true := by decide +kernel

/-- **C04.** In every cell of Table 9-10 — 13 states × 19 events, both roles, either variant of
the triggering primitive — the running state machine produces exactly the prescribed effects in the
prescribed order (PDU put on the wire, indication or confirmation to the user, transport close or
connect, ARTIM start/stop) and moves to the prescribed next state; in every cell the standard
leaves undefined it rejects the event with no effect at all and no state change. -/
theorem fsm_is_table_9_10 (requestor : Bool) (s : St) (e : Ev) (v : Nat) (hv : v = 0 ∨ v = 1) :
    obsMatch (specCell requestor s e (variantOf v)) (observed requestor s e v) = true := by
  have hr : requestor ∈ [false, true] := by cases requestor <;> simp
  have hv' : v ∈ [0, 1] := by rcases hv with h | h <;> simp [h]
  exact cells_ok requestor hr s (allStates_complete s) e (allEvents_complete e) v hv'

/-- undefined cells are inert: nothing on the wire, nothing to the user, connection and timer
untouched, state unchanged -/
theorem undefined_cells_inert (requestor : Bool) (s : St) (e : Ev) (v : Nat) (hv : v = 0 ∨ v = 1)
    (hu : table e s = none) : observed requestor s e v = .rejected := by
  have h := fsm_is_table_9_10 requestor s e v hv
  simp only [specCell, hu] at h
  cases ho : observed requestor s e v <;> simp_all [obsMatch]

/-- Table 9-10 has exactly 123 defined cells -/
theorem table_has_123_cells :
    ((allEvents.flatMap fun e => allStates.map fun s => table e s).filter Option.isSome).length = 123 := by
  decide +kernel

-- non-vacuity: a defined cell with several effects, and an undefined one
example : specCell false .s6 .e19 .v0 = .did [.sendAbort 2, .indAbort 2, .tStart] .s13 := by decide
example : table .e9 .s7 = none := by decide

end Dicom.C04
