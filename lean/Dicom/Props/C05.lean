import Dicom.Proofs.Provider2
import Dicom.Proofs.Trace
import Dicom.Proofs.Duplex
/-! # C05 — the provider run as a whole behaves as the PS3.8 protocol machine (loop model)

`Prov.iter` is one pass of `DULServiceProvider.run`: socket reader, framing (abstracted to complete
PDUs, see C03), event queue, `Table 9-10` (the very `UL.table` C04 proves the code's state machine
equal to), timer, fragment generator.  A `Tick` is what the environment does before a pass: time
passing, user primitives enqueued, a segment or the peer's close reaching the transport, a transport
write failing.  The theorems quantify over **every** list of ticks — every history of events in any
interleaving, of any length. -/
namespace Dicom.C05
open Dicom.UL Dicom.Prov

/-- every reachable state satisfies the loop invariant, for both roles -/
theorem reachable_inv (σ : List Tick) : PInv (run initAcc σ).1 ∧ PInv (run initReq σ).1 :=
  ⟨run_inv σ _ initAcc_inv, run_inv σ _ initReq_inv⟩

/-- **ARTIM runs exactly while awaiting the first PDU or the peer's close** (Sta2, Sta13), and **an
idle provider has closed its connection**: in every reachable state, after every history. (The second
statement is about states with no event pending: the acceptor's very first pass and the pass right
after the reader saw the close are transient.) -/
theorem artim_exactly_and_idle_closed (init : P) (hi : init = initAcc ∨ init = initReq) (σ : List Tick) :
    (run init σ).1.crashed = false →
      ((run init σ).1.timer = true ↔ ((run init σ).1.st = .s2 ∨ (run init σ).1.st = .s13)) ∧
      ((run init σ).1.evq = [] → ((run init σ).1.st = .s1 ↔ (run init σ).1.sock = false)) := by
  intro hc
  have hinv : PInv (run init σ).1 := by
    rcases hi with rfl | rfl
    · exact (reachable_inv σ).1
    · exact (reachable_inv σ).2
  rcases hinv hc with hq | ⟨htm, _, _, hev⟩ | ⟨htm, _, _, hev⟩
  · exact ⟨hq.2.1, fun _ => hq.2.2.2⟩
  · exact ⟨htm, fun h => by rw [hev] at h; simp at h⟩
  · exact ⟨htm, fun h => by rw [hev] at h; simp at h⟩

/-- **P-DATA only inside an established association**: in any pass, from any state, P-DATA is put on
the wire only in Sta6/Sta8 and a DIMSE message is handed to the user only in Sta6/Sta7. -/
theorem pdata_only_established (p : P) (t : Tick) :
    (Out.send .pdata ∈ (iter p t).2 → p.st = .s6 ∨ p.st = .s8) ∧
    (Out.indDimse ∈ (iter p t).2 → p.st = .s6 ∨ p.st = .s7) := by
  have hst := prePoll_st p t
  constructor
  · intro h
    obtain ⟨_, h⟩ := iter_outs p t _ h
    rcases h with h | h
    · simp at h
    · rcases dispatch_outs _ _ _ h with h | h | h | ⟨e, r, a, _, htab, ho⟩
      · simp at h
      · simp at h
      · simp at h
      · have := (act_pdata e { (prePoll p t) with evq := r } a htab).1 ho
        simpa [hst] using this
  · intro h
    obtain ⟨_, h⟩ := iter_outs p t _ h
    rcases h with h | h
    · simp at h
    · rcases dispatch_outs _ _ _ h with h | h | h | ⟨e, r, a, _, htab, ho⟩
      · simp at h
      · simp at h
      · simp at h
      · have := (act_pdata e { (prePoll p t) with evq := r } a htab).2 ho
        simpa [hst] using this

/-- **silence after the end**: once the association is over (awaiting the peer's close, Sta13, with
nothing of the local user's pending), whatever the peer sends, its close, ARTIM expiry or a transport
failure produces no indication to the user. -/
theorem silent_after_end (p : P) (t : Tick) (hq : Quiet p) (hs : p.st = .s13)
    (hu : p.fromUser = []) (hg : p.gen = 0) (ht : t.enq = []) :
    ∀ o ∈ (iter p t).2, (∀ k, o ≠ .ind k) ∧ (∀ n, o ≠ .indAbort n) ∧ o ≠ .indDimse := by
  intro o ho
  obtain ⟨_, h⟩ := iter_outs p t _ ho
  have hst := prePoll_st p t
  have hqe : p.evq.isEmpty = true := by simp [hq.2.2.1]
  have hpp : prePoll p t = poll (arrive p t) := by unfold prePoll; simp [hqe]
  have hqa := quiet_arrive t hq
  have hua : (arrive p t).fromUser = [] := by simp [arrive, hu, ht]
  have hga : (arrive p t).gen = 0 := by simp [arrive, hg]
  have hpeer := poll_peer (arrive p t) hqa hua hga
  have hsa : (arrive p t).st = .s13 := by simp [arrive, hs]
  have hd : ∀ e r, (prePoll p t).evq = e :: r → (table e (prePoll p t).st).isSome = true := by
    intro e r he
    rw [hpp] at he ⊢
    rcases poll_quiet (arrive p t) hqa with hq1 | ⟨e', he', _⟩
    · rw [hq1.2.2.1] at he; simp at he
    · rw [he'] at he
      simp only [List.cons.injEq] at he
      rw [poll_st, ← he.1]
      exact hpeer.2.2 e' he'
  rcases h with h | h
  · subst h; simp
  · rcases dispatch_outs_defined _ _ hd _ h with h | ⟨e, r, a, hev, htab, ho'⟩
    · subst h; simp
    · exact act_s13_silent e { (prePoll p t) with evq := r } a (by simp [hst, hs]) htab o ho'

/-- **the loop model performs the Table 9-10 actions**: for every action, the model's next state and
the sequence of its effects are those of the PS3.8 action definitions (`UL.effects`, which C04 proves
the running state machine performs in every cell) — with the transport open and the P-DATA, if any,
accepted by the DIMSE layer. -/
theorem act_is_table_9_10 (a : Act) (p : P) (hs : p.sock = true) (hrx : p.rx ≠ some .pdataErr) :
    (act a p).1.st = (effects a p.requestor (p.rx == some .pdataDone)).2 ∧
    (act a p).2.map shapeOfOut = (effects a p.requestor (p.rx == some .pdataDone)).1.map shapeOfEff :=
  act_shapes a p (fun _ => hs) hrx

-- non-vacuity: an association that is established, used and released
example : (run initAcc [{}, {net := .data [.rq]}, {enq := [.ac]}, {net := .data [.pdataDone]}, {enq := [.msg 1]}, {},
    {net := .data [.rlrq]}, {enq := [.rlrp]}, {net := .eof}]).1.st = .s1 := by decide

/-- **C05 (whole runs).** Over every history from either initial configuration — peer PDUs of any kind in any
order and segmentation, any user primitives, transport closes, ARTIM expiries, time passing — in which no
transport write fails, the DIMSE layer rejects no P-DATA and the loop does not die (the user issues nothing
Table 9-10 leaves undefined), the ordered effects of the provider (PDUs sent, indications, transport and timer
operations; payloads erased) and its final state are exactly those of the PS3.8 machine — `UL.table` and
`UL.effects`, which C04 proves equal to the running code cell by cell — run over the events dispatched; the only
other effect is the reader closing its side when it notices the peer's close, which happens exactly in the
passes that dispatch Evt17 (`reader_close_is_e17`). -/
theorem provider_follows_machine (init : P) (hi : init = initAcc ∨ init = initReq) (σ : List Tick)
    (hcl : ∀ t ∈ σ, CleanTick t) (halive : (run init σ).1.crashed = false) :
    machRun init.requestor .s1 (trace init σ) = some ((run init σ).2.map shapeOfOut, (run init σ).1.st) := by
  rcases hi with rfl | rfl
  · exact run_machine σ initAcc initAcc_inv ⟨by simp [initAcc], by simp [initAcc], by simp [initAcc]⟩ rfl halive hcl
  · exact run_machine σ initReq initReq_inv ⟨by simp [initReq], by simp [initReq], by simp [initReq]⟩ rfl halive hcl

/-- the reader closes its side only in a pass that dispatches Evt17 (transport connection closed) -/
theorem reader_close_is_e17 (p : P) (t : Tick) (hc : p.crashed = false) (h : readerClose p t = true) :
    ∃ c, passEvent p t = some (.e17, c) :=
  Dicom.Prov.reader_close_is_e17 p t hc h

-- non-vacuity: the history of the previous example is clean and survives, and its trace is the expected
-- sequence of events
example : (∀ t ∈ [({} : Tick), {net := .data [.rq]}, {enq := [.ac]}, {net := .data [.pdataDone]}, {enq := [.msg 1]}, {},
      {net := .data [.rlrq]}, {enq := [.rlrp]}, {net := .eof}], CleanTick t) ∧
    (run initAcc [{}, {net := .data [.rq]}, {enq := [.ac]}, {net := .data [.pdataDone]}, {enq := [.msg 1]}, {},
      {net := .data [.rlrq]}, {enq := [.rlrp]}, {net := .eof}]).1.crashed = false ∧
    (trace initAcc [{}, {net := .data [.rq]}, {enq := [.ac]}, {net := .data [.pdataDone]}, {enq := [.msg 1]}, {},
      {net := .data [.rlrq]}, {enq := [.rlrp]}, {net := .eof}]).map (fun r => r.ev.map (·.1)) =
      [some .e5, some .e6, some .e7, some .e10, some .e9, some .e9, some .e12, some .e14, some .e17] := by
  refine ⟨?_, by decide, by decide⟩
  intro t ht
  simp only [List.mem_cons, List.not_mem_nil, or_false] at ht
  rcases ht with rfl | rfl | rfl | rfl | rfl | rfl | rfl | rfl | rfl <;> exact ⟨rfl, by simp⟩

/-- **full duplex**: whatever arrives from the network and whatever the user issues before the same pass, one poll
raises at most one event - the loop's single `primitive` slot belongs to it - and takes at most the head of the user's
queue -/
theorem one_event_per_poll (p : P) :
    ((poll p).evq = p.evq ∨ ∃ e, (poll p).evq = p.evq ++ [e]) ∧
    ((poll p).fromUser = p.fromUser ∨ ∃ x, p.fromUser = x :: (poll p).fromUser) :=
  Dicom.Prov.poll_one_event p

/-- the user's primitives are consumed in the order they were issued and none is skipped, whatever the network does
meanwhile: after a pass the queue is the old queue plus what was issued, minus at most its head -/
theorem user_primitives_in_order (p : P) (t : Tick) (hc : p.crashed = false) :
    (iter p t).1.fromUser = p.fromUser ++ t.enq ∨ ∃ x, p.fromUser ++ t.enq = x :: (iter p t).1.fromUser :=
  Dicom.Prov.user_queue_fifo p t hc

-- non-vacuity: a P-DATA arrives and the user issues a message and a release request before the same pass, in data
-- transfer: the network is served first, both primitives stay queued, in order
example : (iter { st := .s6, sock := true } { net := .data [.pdataDone], enq := [.msg 0, .rlrq] }).1.fromUser = [.msg 0, .rlrq] ∧
    (iter { st := .s6, sock := true } { net := .data [.pdataDone], enq := [.msg 0, .rlrq] }).2 = [.indDimse] := by decide

end Dicom.C05
