import Dicom.Proofs.Dimse
/-! # C06 — DIMSE fragmentation: size bound, fragment flags, byte-exact content

`encodeMsg pc maxLen cmd data` mirrors `DIMSEMessage.encode`: the list of fragments, each sent as
its own P-DATA-TF PDU with one PDV (`pduLength = 6 + fragment length`).  All statements hold for every
command set, every data set, every presentation context and every usable maximum length
(0 = no limit, or ≥ 7), with no bound on any size. -/
namespace Dicom.C06
open Dicom

/-- **size bound, non-empty, context.** No P-DATA-TF is longer than the maximum length in force,
every fragment is non-empty and on the message's presentation context. -/
theorem frag_size (pc maxLen : Nat) (cmd : Bytes) (data : Option Bytes) (hm : usableMax maxLen) :
    ∀ f ∈ encodeMsg pc maxLen cmd data, f.pduLength ≤ effMax maxLen ∧ f.body ≠ [] ∧ f.pc = pc := by
  intro f hf
  have := encodeMsg_size_aux pc maxLen cmd data (effMax_ge_7 hm) f hf
  exact ⟨by simpa [Frag.pduLength] using this.1, this.2⟩

/-- with a real limit (≠ 0) the bound is the limit itself -/
theorem frag_size_limit (pc maxLen : Nat) (cmd : Bytes) (data : Option Bytes) (hm : 7 ≤ maxLen) :
    ∀ f ∈ encodeMsg pc maxLen cmd data, f.pduLength ≤ maxLen := by
  intro f hf
  have h := (frag_size pc maxLen cmd data (Or.inr hm) f hf).1
  have : effMax maxLen = maxLen := by unfold effMax; split <;> omega
  omega

/-- **order and flags.** The stream is the command fragments followed by the data fragments; each
part, when non-empty, is a run of not-last fragments (control header 1 resp. 0) ended by exactly one
last fragment (3 resp. 2), which is the final one of its part. -/
theorem frag_shape (pc maxLen : Nat) (cmd : Bytes) (data : Option Bytes) (hm : usableMax maxLen)
    (hc : cmd ≠ []) :
    ∃ (ic : List Bytes) (lc : Bytes) (dpart : List Frag),
      encodeMsg pc maxLen cmd data = (ic.map (fun b => ⟨pc, 1, b⟩) ++ [⟨pc, 3, lc⟩]) ++ dpart ∧
      ic.flatten ++ lc = cmd ∧
      (match data with
       | none => dpart = []
       | some d => d = [] ∧ dpart = [] ∨
           ∃ (idt : List Bytes) (ld : Bytes),
             dpart = idt.map (fun b => ⟨pc, 0, b⟩) ++ [⟨pc, 2, ld⟩] ∧ idt.flatten ++ ld = d) := by
  have hn : 0 < effMax maxLen - 6 := by have := effMax_ge_7 hm; omega
  obtain ⟨ic, lc, h1, h2⟩ := fragsOf_shape pc 1 3 (effMax maxLen - 6) hn cmd hc
  refine ⟨ic, lc, _, by simp only [encodeMsg, h1]; rfl, h2, ?_⟩
  cases data with
  | none => rfl
  | some d =>
    by_cases hd : d = []
    · left; subst hd; refine ⟨rfl, ?_⟩; simp [fragsOf, chunks]
    · right
      obtain ⟨idt, ld, h3, h4⟩ := fragsOf_shape pc 0 2 (effMax maxLen - 6) hn d hd
      exact ⟨idt, ld, h3, h4⟩

/-- **content.** Concatenating the command fragments gives the command set, concatenating the data
fragments gives the data set, byte for byte. -/
theorem frag_content (pc maxLen : Nat) (cmd : Bytes) (data : Option Bytes) (hm : usableMax maxLen) :
    (((encodeMsg pc maxLen cmd data).filter (fun f => f.mch = 1 ∨ f.mch = 3)).map (·.body)).flatten = cmd ∧
    (((encodeMsg pc maxLen cmd data).filter (fun f => f.mch = 0 ∨ f.mch = 2)).map (·.body)).flatten
      = data.getD [] := by
  have hn : 0 < effMax maxLen - 6 := by have := effMax_ge_7 hm; omega
  have hcm : ∀ f ∈ fragsOf pc 1 3 (effMax maxLen - 6) cmd, (f.mch = 1 ∨ f.mch = 3) := fun f hf =>
    (fragsOf_bound pc 1 3 _ cmd f hf).2.2.2
  have filt_all : ∀ (l : List Frag) (p : Frag → Bool), (∀ f ∈ l, p f = true) → l.filter p = l :=
    fun l p h => List.filter_eq_self.mpr h
  have filt_none : ∀ (l : List Frag) (p : Frag → Bool), (∀ f ∈ l, p f = false) → l.filter p = [] :=
    fun l p h => List.filter_eq_nil_iff.mpr (fun f hf => by simp [h f hf])
  have c1 : (fragsOf pc 1 3 (effMax maxLen - 6) cmd).filter (fun f => f.mch = 1 ∨ f.mch = 3)
      = fragsOf pc 1 3 (effMax maxLen - 6) cmd :=
    filt_all _ _ (fun f hf => by simpa using hcm f hf)
  have c0 : (fragsOf pc 1 3 (effMax maxLen - 6) cmd).filter (fun f => f.mch = 0 ∨ f.mch = 2) = [] :=
    filt_none _ _ (fun f hf => by rcases hcm f hf with h | h <;> simp [h])
  cases data with
  | none =>
    simp only [encodeMsg, List.append_nil, c1, c0, Option.getD_none]
    exact ⟨fragsOf_content pc 1 3 _ hn cmd, by simp⟩
  | some d =>
    have hdm : ∀ f ∈ fragsOf pc 0 2 (effMax maxLen - 6) d, (f.mch = 0 ∨ f.mch = 2) := fun f hf =>
      (fragsOf_bound pc 0 2 _ d f hf).2.2.2
    have d1 : (fragsOf pc 0 2 (effMax maxLen - 6) d).filter (fun f => f.mch = 1 ∨ f.mch = 3) = [] :=
      filt_none _ _ (fun f hf => by rcases hdm f hf with h | h <;> simp [h])
    have d0 : (fragsOf pc 0 2 (effMax maxLen - 6) d).filter (fun f => f.mch = 0 ∨ f.mch = 2)
        = fragsOf pc 0 2 (effMax maxLen - 6) d :=
      filt_all _ _ (fun f hf => by simpa using hdm f hf)
    simp only [encodeMsg, List.filter_append, c1, c0, d1, d0, List.append_nil, List.nil_append,
      Option.getD_some]
    exact ⟨fragsOf_content pc 1 3 _ hn cmd, fragsOf_content pc 0 2 _ hn d⟩

/-- **file = bytes.** Supplying the data set as a seekable file (read, one-byte look-ahead, seek
back) produces exactly the same fragments as supplying it as bytes. -/
theorem file_eq_bytes (pc maxLen : Nat) (cmd : Bytes) (data : Option Bytes) :
    encodeMsgFile pc maxLen cmd data = encodeMsg pc maxLen cmd data := by
  cases data <;> simp [encodeMsgFile, encodeMsg, fragsOfFile, fragsOf, chunksFile_eq]

/-! ### any fragment size

The code cuts fragments of the largest size the limit allows.  C06 does not ask for that: every statement holds for any
fragment size from 1 up to `maximum − 6`, which is what the correspondence check uses when an implementation chooses
another size (it compares with `encodeMsgN` at the size observed). -/

theorem encodeMsg_eq_N (pc maxLen : Nat) (cmd : Bytes) (data : Option Bytes) :
    encodeMsg pc maxLen cmd data = encodeMsgN pc (effMax maxLen - 6) cmd data := rfl

/-- size bound, non-empty, context, for any fragment size that fits -/
theorem fragN_size (pc n maxLen : Nat) (cmd : Bytes) (data : Option Bytes) (hle : n + 6 ≤ effMax maxLen) :
    ∀ f ∈ encodeMsgN pc n cmd data, f.pduLength ≤ effMax maxLen ∧ f.body ≠ [] ∧ f.pc = pc := by
  intro v hv
  simp only [encodeMsgN, List.mem_append] at hv
  rcases hv with hv | hv
  · have := fragsOf_bound pc 1 3 n cmd v hv
    exact ⟨by simp only [Frag.pduLength]; omega, this.1, this.2.2.1⟩
  · cases data with
    | none => simp at hv
    | some d =>
      have := fragsOf_bound pc 0 2 n d v hv
      exact ⟨by simp only [Frag.pduLength]; omega, this.1, this.2.2.1⟩

/-- order and flags, for any fragment size: The stream is the command fragments followed by the data fragments; each
part, when non-empty, is a run of not-last fragments (control header 1 resp. 0) ended by exactly one
last fragment (3 resp. 2), which is the final one of its part. -/
theorem fragN_shape (pc n : Nat) (cmd : Bytes) (data : Option Bytes) (hn : 0 < n)
    (hc : cmd ≠ []) :
    ∃ (ic : List Bytes) (lc : Bytes) (dpart : List Frag),
      encodeMsgN pc n cmd data = (ic.map (fun b => ⟨pc, 1, b⟩) ++ [⟨pc, 3, lc⟩]) ++ dpart ∧
      ic.flatten ++ lc = cmd ∧
      (match data with
       | none => dpart = []
       | some d => d = [] ∧ dpart = [] ∨
           ∃ (idt : List Bytes) (ld : Bytes),
             dpart = idt.map (fun b => ⟨pc, 0, b⟩) ++ [⟨pc, 2, ld⟩] ∧ idt.flatten ++ ld = d) := by
  obtain ⟨ic, lc, h1, h2⟩ := fragsOf_shape pc 1 3 n hn cmd hc
  refine ⟨ic, lc, _, by simp only [encodeMsgN, h1]; rfl, h2, ?_⟩
  cases data with
  | none => rfl
  | some d =>
    by_cases hd : d = []
    · left; subst hd; refine ⟨rfl, ?_⟩; simp [fragsOf, chunks]
    · right
      obtain ⟨idt, ld, h3, h4⟩ := fragsOf_shape pc 0 2 n hn d hd
      exact ⟨idt, ld, h3, h4⟩

/-- content, for any fragment size: Concatenating the command fragments gives the command set, concatenating the data
fragments gives the data set, byte for byte. -/
theorem fragN_content (pc n : Nat) (cmd : Bytes) (data : Option Bytes) (hn : 0 < n) :
    (((encodeMsgN pc n cmd data).filter (fun f => f.mch = 1 ∨ f.mch = 3)).map (·.body)).flatten = cmd ∧
    (((encodeMsgN pc n cmd data).filter (fun f => f.mch = 0 ∨ f.mch = 2)).map (·.body)).flatten
      = data.getD [] := by
  have hcm : ∀ f ∈ fragsOf pc 1 3 n cmd, (f.mch = 1 ∨ f.mch = 3) := fun f hf =>
    (fragsOf_bound pc 1 3 _ cmd f hf).2.2.2
  have filt_all : ∀ (l : List Frag) (p : Frag → Bool), (∀ f ∈ l, p f = true) → l.filter p = l :=
    fun l p h => List.filter_eq_self.mpr h
  have filt_none : ∀ (l : List Frag) (p : Frag → Bool), (∀ f ∈ l, p f = false) → l.filter p = [] :=
    fun l p h => List.filter_eq_nil_iff.mpr (fun f hf => by simp [h f hf])
  have c1 : (fragsOf pc 1 3 n cmd).filter (fun f => f.mch = 1 ∨ f.mch = 3)
      = fragsOf pc 1 3 n cmd :=
    filt_all _ _ (fun f hf => by simpa using hcm f hf)
  have c0 : (fragsOf pc 1 3 n cmd).filter (fun f => f.mch = 0 ∨ f.mch = 2) = [] :=
    filt_none _ _ (fun f hf => by rcases hcm f hf with h | h <;> simp [h])
  cases data with
  | none =>
    simp only [encodeMsgN, List.append_nil, c1, c0, Option.getD_none]
    exact ⟨fragsOf_content pc 1 3 _ hn cmd, by simp⟩
  | some d =>
    have hdm : ∀ f ∈ fragsOf pc 0 2 n d, (f.mch = 0 ∨ f.mch = 2) := fun f hf =>
      (fragsOf_bound pc 0 2 _ d f hf).2.2.2
    have d1 : (fragsOf pc 0 2 n d).filter (fun f => f.mch = 1 ∨ f.mch = 3) = [] :=
      filt_none _ _ (fun f hf => by rcases hdm f hf with h | h <;> simp [h])
    have d0 : (fragsOf pc 0 2 n d).filter (fun f => f.mch = 0 ∨ f.mch = 2)
        = fragsOf pc 0 2 n d :=
      filt_all _ _ (fun f hf => by simpa using hdm f hf)
    simp only [encodeMsgN, List.filter_append, c1, c0, d1, d0, List.append_nil, List.nil_append,
      Option.getD_some]
    exact ⟨fragsOf_content pc 1 3 _ hn cmd, fragsOf_content pc 0 2 _ hn d⟩

theorem fileN_eq_bytes (pc n : Nat) (cmd : Bytes) (data : Option Bytes) :
    encodeMsgFileN pc n cmd data = encodeMsgN pc n cmd data := by
  cases data <;> simp [encodeMsgFileN, encodeMsgN, fragsOfFile, fragsOf, chunksFile_eq]

-- non-vacuity: maximum length 8 carries two bytes per fragment
example : usableMax 8 ∧ ([1, 2, 3] : Bytes) ≠ [] := by simp [usableMax]

end Dicom.C06
