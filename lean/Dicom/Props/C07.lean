import Dicom.Proofs.Dimse
import Dicom.Spec.CommandFields
import Dicom.Generated.MessageTypes
/-! # C07 — DIMSE reassembly is exact under any PDV grouping; completion detected exactly -/
namespace Dicom.C07
open Dicom

/-- **C07.** A message fragmented as in C06 and delivered in *any* grouping `g` of its fragments
into P-DATA-TF PDUs (every PDU non-empty) is reassembled exactly — command set, data set, presentation
context — and completion is signalled at the PDU that carries the last fragment: the run consumes
all `g.length` PDUs (not earlier) and stops there (not later).  `noDs` is the command set's own
statement of whether a data set follows (tied to C08). -/
theorem reassembly_exact (noDs : Bytes → Bool) (pc maxLen : Nat) (cmd : Bytes) (data : Option Bytes)
    (g : List (List Frag)) (hg : g.flatten = encodeMsg pc maxLen cmd data) (hne : ∀ p ∈ g, p ≠ [])
    (hm : usableMax maxLen) (hc : cmd ≠ []) (hdne : ∀ d, data = some d → d ≠ [])
    (hd : noDs cmd = data.isNone) :
    ∃ df, Dec.run noDs {} g = some (df, g.length) ∧ df.receiving = false ∧
      df.cmd = cmd ∧ df.data = data.getD [] ∧ df.pc = pc :=
  reassembly_exact_aux noDs pc maxLen cmd data g hg hne (effMax_ge_7 hm) hc hdne hd

/-- never earlier: after any proper prefix of the PDUs the decoder is still receiving -/
theorem not_earlier (noDs : Bytes → Bool) (pc maxLen : Nat) (cmd : Bytes) (data : Option Bytes)
    (g₁ g₂ : List (List Frag)) (hg : (g₁ ++ g₂).flatten = encodeMsg pc maxLen cmd data)
    (hne : ∀ p ∈ g₁ ++ g₂, p ≠ []) (h2 : g₂ ≠ [])
    (hm : usableMax maxLen) (hc : cmd ≠ []) (hdne : ∀ d, data = some d → d ≠ [])
    (hd : noDs cmd = data.isNone) :
    ∀ d k, Dec.run noDs {} g₁ = some (d, k) → d.receiving = true := by
  obtain ⟨df, hrun, _⟩ := reassembly_exact noDs pc maxLen cmd data (g₁ ++ g₂) hg hne hm hc hdne hd
  -- a run that stops (receiving = false) consumes exactly the PDUs up to that point
  have key : ∀ (l₁ l₂ : List (List Frag)) (d0 : Dec), d0.receiving = true → ∀ d k,
      Dec.run noDs d0 l₁ = some (d, k) → d.receiving = false →
      Dec.run noDs d0 (l₁ ++ l₂) = some (d, k) := by
    intro l₁
    induction l₁ with
    | nil => intro l₂ d0 h0 d k h hr; simp [Dec.run] at h; rw [← h.1] at hr; simp [h0] at hr
    | cons p ps ih =>
      intro l₂ d0 h0 d k h hr
      simp only [List.cons_append, Dec.run] at h ⊢
      cases hp : Dec.pdu noDs d0 p with
      | none => simp [hp] at h
      | some d' =>
        simp only [hp] at h ⊢
        by_cases hr' : d'.receiving = true
        · simp only [hr', ↓reduceIte] at h ⊢
          cases hq : Dec.run noDs d' ps with
          | none => simp [hq] at h
          | some res =>
            obtain ⟨x, k'⟩ := res
            simp only [hq, Option.map_some, Option.some.injEq, Prod.mk.injEq] at h
            obtain ⟨rfl, rfl⟩ := h
            rw [ih l₂ d' hr' x k' hq hr]; rfl
        · simp only [hr'] at h ⊢; exact h
  intro d k h
  cases hr : d.receiving with
  | true => rfl
  | false =>
    have := key g₁ g₂ {} rfl d k h hr
    rw [hrun] at this
    simp only [Option.some.injEq, Prod.mk.injEq] at this
    -- k ≤ g₁.length < (g₁ ++ g₂).length
    have hk : ∀ (l : List (List Frag)) (d0 d : Dec) (k : Nat), Dec.run noDs d0 l = some (d, k) → k ≤ l.length := by
      intro l
      induction l with
      | nil => intro d0 d k h; simp [Dec.run] at h; omega
      | cons p ps ih =>
        intro d0 d k h
        simp only [Dec.run] at h
        cases hp : Dec.pdu noDs d0 p with
        | none => simp [hp] at h
        | some d' =>
          simp only [hp] at h
          split at h
          · cases hq : Dec.run noDs d' ps with
            | none => simp [hq] at h
            | some res =>
              obtain ⟨x, k'⟩ := res
              simp only [hq, Option.map_some, Option.some.injEq, Prod.mk.injEq] at h
              have := ih d' x k' hq
              simp only [List.length_cons]; omega
          · simp only [Option.some.injEq, Prod.mk.injEq] at h
            simp only [List.length_cons]; omega
    have h1 := hk g₁ {} d k h
    have h3 : 0 < g₂.length := List.length_pos_iff.mpr h2
    simp only [List.length_append] at this
    omega

/-- **dispatch.** The running code's command-field dispatch table (regenerated on every run) maps
each of the 23 PS3.7 command fields, and nothing else, to the message class of that type, and that
class carries the same command field. -/
theorem message_types_exact :
    Dicom.Generated.messageTypes = Dicom.Spec.commandFieldTable.map (fun e => (e.1, e.2, e.1)) := by decide

-- non-vacuity: three fragments grouped [2, 1]
example : ∃ df, Dec.run (fun _ => false) {} [[⟨3, 1, [1, 2]⟩, ⟨3, 3, [3]⟩], [⟨3, 2, [9]⟩]] = some (df, 2)
    ∧ df.cmd = [1, 2, 3] ∧ df.data = [9] := ⟨_, rfl, rfl, rfl⟩

end Dicom.C07
