import Dicom.Proofs.CmdSet
import Dicom.Spec.CommandFields
import Dicom.Generated.MessageClasses
/-! # C08 — transmitted command sets are well formed (group length, order, type, data-set flag) -/
namespace Dicom.C08
open Dicom

/-- **Command Group Length is exact.** After `set_length`, what pydicom writes starts with the
(0000,0000) element and its UL value is exactly the number of bytes that follow it — for any command
set that contains the element and has one element per tag, whatever the insertion order and whatever
value the element held before (so: on every send of the same object). -/
theorem group_length_exact (es : List Elem) (hgl : ∃ e ∈ es, e.tag = 0) (hnd : (es.map (·.tag)).Nodup) :
    ∃ rest, encodeCmd (setLength es) = (glElem (lengthOfOthers es)).enc ++ rest ∧
      rest.length = lengthOfOthers es := by
  obtain ⟨xs, hs⟩ := sorted_head es hgl hnd
  refine ⟨(xs.map Elem.enc).flatten, by simp [encodeCmd, hs], ?_⟩
  -- total encoded length is invariant under sorting and equals 12 + the length of the others
  have hperm := List.mergeSort_perm (setLength es) leTag
  have h1 : (((setLength es).mergeSort leTag).map Elem.enc).flatten.length
      = ((setLength es).map Elem.enc).flatten.length :=
    ((hperm.map Elem.enc).flatten).length_eq
  rw [hs] at h1
  have h2 : ((setLength es).map (fun e => e.enc.length)).sum = countGl es * 12 + lengthOfOthers es :=
    total_setLength es (lengthOfOthers es)
  have hc : countGl es = 1 := by
    have := countGl_le_one es hnd; have := countGl_pos es hgl; omega
  have h4 : ((setLength es).map Elem.enc).flatten.length = countGl es * 12 + lengthOfOthers es := by
    rw [flatten_enc_length]; exact h2
  have h5 : ((glElem (lengthOfOthers es) :: xs).map Elem.enc).flatten.length
      = 12 + ((xs.map Elem.enc).flatten).length := by
    simp [glElem]
  omega

/-- **Ascending tag order.** The elements are written in strictly ascending tag order. -/
theorem ascending_tags (es : List Elem) (hnd : (es.map (·.tag)).Nodup) :
    List.Pairwise (· < ·) (((setLength es).mergeSort leTag).map (·.tag)) := by
  have hperm := List.mergeSort_perm (setLength es) leTag
  have hnd' : (((setLength es).mergeSort leTag).map (·.tag)).Nodup :=
    (hperm.map (·.tag)).nodup_iff.mpr (by rw [setLength_tags]; exact hnd)
  have hsorted := List.pairwise_mergeSort leTag_trans leTag_total (setLength es)
  have hle : List.Pairwise (· ≤ ·) (((setLength es).mergeSort leTag).map (·.tag)) := by
    rw [List.pairwise_map]
    exact hsorted.imp (fun h => by simpa [leTag] using h)
  have := List.Pairwise.and hle hnd'
  exact this.imp (fun h => by omega)

/-- **Readable by the strict PS3.5/PS3.7 reader.** The strict implicit-VR-little-endian reader
recovers from the transmitted bytes exactly the elements (tag and value) in ascending order. -/
theorem strict_reader_reads (es : List Elem) (hwf : ∀ e ∈ es, e.WF) (hgl : ∃ e ∈ es, e.tag = 0)
    (hlen : lengthOfOthers es < 4294967296) :
    Spec.readElems ((encodeCmd (setLength es)).length + 1) (encodeCmd (setLength es))
      = some (((setLength es).mergeSort leTag).map fun e => (e.tag, e.value)) := by
  have hperm := List.mergeSort_perm (setLength es) leTag
  have hwf' : ∀ e ∈ (setLength es).mergeSort leTag, e.WF := by
    intro e he
    have he' := hperm.subset he
    simp only [setLength, List.mem_map] at he'
    obtain ⟨a, ha, rfl⟩ := he'
    split
    · simp [Elem.WF, glElem, hlen]
    · exact hwf a ha
  apply readElems_enc _ hwf'
  -- fuel: every element contributes at least 8 bytes
  have hfuel : ∀ l : List Elem, l.length ≤ ((l.map Elem.enc).flatten).length := by
    intro l
    induction l with
    | nil => simp
    | cons e l ih =>
      simp only [List.length_cons, List.map_cons, List.flatten_cons, List.length_append, Elem.enc_length]
      omega
  have := hfuel ((setLength es).mergeSort leTag)
  simp only [encodeCmd]
  omega

/-! ### the data-set flag over any history of operations on one message object -/

def flagOk (m : Msg) : Prop := lookupTag m.elems dsTypeTag = some (dsTypeValue (hasData m.data))

/-- operations a caller may perform: any field except the two the library manages itself -/
def legalOp : MsgOp → Prop
  | .setField tag _ => tag ≠ dsTypeTag
  | .setData _ => True
  | .send _ maxLen => usableMax maxLen

theorem apply_flagOk (m : Msg) (op : MsgOp) (h : flagOk m) (hl : legalOp op) : flagOk (m.apply op).1 := by
  cases op with
  | setField tag v =>
    simp only [Msg.apply, flagOk] at *
    have hne : dsTypeTag ≠ tag := fun e => hl e.symm
    rw [lookup_setElem_other _ _ _ _ hne]
    exact h
  | setData d =>
    simp only [Msg.apply, flagOk] at *
    exact lookup_setElem_same _ _ _ (by rw [h]; rfl)
  | send pc maxLen =>
    simp only [Msg.apply, flagOk] at *
    rw [lookup_setLength _ _ (by decide)]
    exact h

/-- **Data-set flag.** Along every history of field changes, data-set changes (set, replaced, removed,
set to empty) and sends of one message object, every transmitted command set says "no data set"
(0x0101) exactly when no data-set fragments follow it. -/
theorem dataset_flag_iff (ops : List MsgOp) : ∀ (m : Msg), flagOk m → (∀ op ∈ ops, legalOp op) →
    ∀ s ∈ (m.run ops).2,
      (lookupTag s.elems dsTypeTag = some (dsTypeValue false) ↔ s.dataFrags = []) := by
  induction ops with
  | nil => intro m _ _ s hs; simp [Msg.run] at hs
  | cons op ops ih =>
    intro m hm hl s hs
    have hop := hl op (by simp)
    have hm' := apply_flagOk m op hm hop
    have hrest := ih (m.apply op).1 hm' (fun o ho => hl o (by simp [ho]))
    cases op with
    | setField tag v => simp only [Msg.run, Msg.apply] at hs; exact hrest s hs
    | setData d => simp only [Msg.run, Msg.apply] at hs; exact hrest s hs
    | send pc maxLen =>
      simp only [Msg.run, Msg.apply, List.mem_cons] at hs
      rcases hs with rfl | hs
      · -- the send itself
        simp only []
        rw [lookup_setLength _ _ (by decide)]
        have hf : lookupTag m.elems dsTypeTag = some (dsTypeValue (hasData m.data)) := hm
        rw [hf]
        have hn : 0 < effMax maxLen - 6 := by
          have := effMax_ge_7 (by simpa [legalOp] using hop); omega
        cases hd : m.data with
        | none => simp [hasData]
        | some d =>
          cases d with
          | nil => simp [hasData, fragsOf, chunks]
          | cons b bs =>
            simp only [hasData]
            constructor
            · intro h; simp [dsTypeValue, le16] at h
            · intro h
              obtain ⟨init, l, hsh, _⟩ := fragsOf_shape pc 0 2 _ hn (b :: bs) (by simp)
              rw [hsh] at h; simp at h
      · exact hrest s hs

/-- every send in such a history also has an exact group length and ascending tags (the history only
changes values, never the set of tags) — the statements above apply to `s.elems = setLength _`. -/
theorem resend_group_length (ops : List MsgOp) : ∀ (m : Msg),
    (∃ e ∈ m.elems, e.tag = 0) → (m.elems.map (·.tag)).Nodup →
    ∀ s ∈ (m.run ops).2, ∃ rest n, s.cmd = (glElem n).enc ++ rest ∧ rest.length = n := by
  have tags_apply : ∀ (m : Msg) (op : MsgOp), (m.apply op).1.elems.map (·.tag) = m.elems.map (·.tag) := by
    intro m op
    cases op with
    | setField tag v =>
      simp only [Msg.apply, setElem, List.map_map]
      apply List.map_congr_left; intro e _; simp only [Function.comp]; split <;> simp_all
    | setData d =>
      simp only [Msg.apply, setElem, List.map_map]
      apply List.map_congr_left; intro e _; simp only [Function.comp]; split <;> simp_all
    | send pc maxLen => simp only [Msg.apply]; exact setLength_tags m.elems
  have mem0 : ∀ (l l' : List Elem), l'.map (·.tag) = l.map (·.tag) → (∃ e ∈ l, e.tag = 0) → ∃ e ∈ l', e.tag = 0 := by
    intro l l' h ⟨e, he, h0⟩
    have : (0 : Nat) ∈ l'.map (·.tag) := by rw [h]; exact List.mem_map.mpr ⟨e, he, h0⟩
    obtain ⟨e', he', h0'⟩ := List.mem_map.mp this
    exact ⟨e', he', h0'⟩
  induction ops with
  | nil => intro m _ _ s hs; simp [Msg.run] at hs
  | cons op ops ih =>
    intro m hgl hnd s hs
    have ht := tags_apply m op
    have hrest := ih (m.apply op).1 (mem0 _ _ ht hgl) (by rw [ht]; exact hnd)
    cases op with
    | setField tag v => simp only [Msg.run, Msg.apply] at hs; exact hrest s hs
    | setData d => simp only [Msg.run, Msg.apply] at hs; exact hrest s hs
    | send pc maxLen =>
      simp only [Msg.run, Msg.apply, List.mem_cons] at hs
      rcases hs with rfl | hs
      · obtain ⟨rest, h1, h2⟩ := group_length_exact m.elems hgl hnd
        exact ⟨rest, _, h1, h2⟩
      · exact hrest s hs

/-- **Command Field identifies the message type.** For each of the 23 message classes of the running
code (regenerated on every run) the class attribute and the Command Field (0000,0100) element of a
freshly built message are the PS3.7 code of that message type, and a fresh message says "no data
set". -/
theorem command_field_is_type :
    Dicom.Generated.messageClasses =
      (Dicom.Spec.commandFieldTable.map fun e => (e.2, e.1, e.1, 0x0101)) := by decide

-- non-vacuity: a C-ECHO-RQ-like command set in insertion order 0100, 0800, 0000, 0002, 0110
example : (∃ e ∈ [(⟨0x100, [0x30, 0]⟩ : Elem), ⟨0x800, [1, 1]⟩, ⟨0, []⟩, ⟨2, [0x31, 0]⟩, ⟨0x110, [7, 0]⟩], e.tag = 0)
    ∧ ([(0x100 : Nat), 0x800, 0, 2, 0x110]).Nodup := by decide

end Dicom.C08
