import Dicom.Model.Negotiation
/-! # C09 — the acceptor answers every proposed presentation context correctly -/
namespace Dicom.C09
open Dicom.Neg

/-- **once each, same id, proposed order** -/
theorem answers_each_once_in_order (cfg : Cfg) (cs : List PcRq) :
    (accept cfg cs).1.map (·.id) = cs.map (·.id) := by
  simp only [accept, List.map_map]
  apply List.map_congr_left
  intro c _
  simp only [Function.comp, answer]
  split
  · split <;> rfl
  · rfl

theorem find_supported {cfg : Cfg} {l : List Uid} {t : Uid} (h : firstSupported cfg l = some t) :
    t ∈ l ∧ t ∈ cfg.ts := by
  unfold firstSupported at h
  exact ⟨List.mem_of_find?_eq_some h, by simpa using List.find?_some h⟩

/-- **accepted iff served and a common transfer syntax exists** -/
theorem accepted_iff (cfg : Cfg) (c : PcRq) :
    (answer cfg c).result = 0 ↔ (c.abs ∈ cfg.scp ∧ ∃ t ∈ c.ts, t ∈ cfg.ts) := by
  unfold answer
  by_cases hs : cfg.scp.contains c.abs = true
  · simp only [hs, ↓reduceIte]
    cases hf : firstSupported cfg c.ts with
    | none =>
      simp only [Nat.succ_ne_self, false_iff, not_and, not_exists]
      intro _ t ht hts
      unfold firstSupported at hf
      have := List.find?_eq_none.mp hf t ht
      simp [hts] at this
    | some t =>
      simp only [true_iff]
      exact ⟨by simpa using hs, t, (find_supported hf).1, (find_supported hf).2⟩
  · simp only [hs, Bool.false_eq_true, ↓reduceIte, Nat.succ_ne_self, false_iff, not_and]
    intro h; simp at hs; exact absurd h hs

/-- **the transfer syntax returned was proposed for that context and is supported** -/
theorem ts_is_proposed_and_supported (cfg : Cfg) (c : PcRq) (h : (answer cfg c).result = 0) :
    (answer cfg c).ts ∈ c.ts ∧ (answer cfg c).ts ∈ cfg.ts := by
  unfold answer at h ⊢
  by_cases hs : cfg.scp.contains c.abs = true
  · simp only [hs, ↓reduceIte] at h ⊢
    cases hf : firstSupported cfg c.ts with
    | none => rw [hf] at h; simp at h
    | some t => simp only []; exact find_supported hf
  · exfalso
    have hm : ¬ c.abs ∈ cfg.scp := by simpa using hs
    simp [hm] at h

theorem dictSet_new {α : Type} (d : List (Nat × α)) (k : Nat) (v : α) (h : ∀ e ∈ d, e.1 ≠ k) :
    dictSet d k v = d ++ [(k, v)] := by
  unfold dictSet
  have : d.any (fun e => e.1 == k) = false := by
    rw [List.any_eq_false]; intro e he; simpa using h e he
  simp [this]

theorem acceptTable_eq (cfg : Cfg) (cs : List PcRq) : ∀ (d : List (Nat × Uid × Uid)),
    (cs.map (·.id)).Nodup → (∀ e ∈ d, ∀ c ∈ cs, e.1 ≠ c.id) →
    acceptTable cfg cs d = d ++ (cs.filter (fun c => (answer cfg c).result = 0)).map
      (fun c => (c.id, c.abs, (answer cfg c).ts)) := by
  induction cs with
  | nil => intro d _ _; simp [acceptTable]
  | cons c cs ih =>
    intro d hnd hdis
    simp only [List.map_cons, List.nodup_cons] at hnd
    unfold acceptTable
    by_cases hr : (answer cfg c).result = 0
    · simp only [hr]
      rw [dictSet_new d c.id _ (fun e he => hdis e he c (by simp))]
      rw [ih _ hnd.2]
      · simp [hr, List.append_assoc]
      · intro e he c' hc'
        simp only [List.mem_append, List.mem_singleton] at he
        rcases he with he | he
        · exact hdis e he c' (by simp [hc'])
        · subst he
          intro heq
          exact hnd.1 (List.mem_map.mpr ⟨c', hc', heq.symm⟩)
    · have : ∀ n, (answer cfg c).result = n → n ≠ 0 := fun n hn h0 => hr (hn ▸ h0)
      cases hres : (answer cfg c).result with
      | zero => exact absurd hres hr
      | succ n =>
        simp only []
        rw [ih d hnd.2 (fun e he c' hc' => hdis e he c' (by simp [hc']))]
        simp [hres]

/-- **the contexts served are exactly those reported as accepted, with the same transfer syntax**
(distinct context ids, as PS3.8 requires of a request) -/
theorem served_eq_reported (cfg : Cfg) (cs : List PcRq) (hnd : (cs.map (·.id)).Nodup) :
    (accept cfg cs).2 = ((accept cfg cs).1.zip cs |>.filter (fun rc => rc.1.result = 0)).map
      (fun rc => (rc.1.id, rc.2.abs, rc.1.ts)) := by
  simp only [accept]
  rw [acceptTable_eq cfg cs [] hnd (by simp)]
  simp only [List.nil_append]
  induction cs with
  | nil => simp
  | cons c cs ih =>
    simp only [List.map_cons, List.nodup_cons] at hnd
    simp only [List.map_cons, List.zip_cons_cons, List.filter_cons]
    have hid : (answer cfg c).id = c.id := by
      unfold answer; split
      · split <;> rfl
      · rfl
    split <;> simp [ih hnd.2, hid]

-- non-vacuity: two contexts, the second without a common transfer syntax
example : (accept ⟨[[1], [2]], [[9]]⟩ [⟨1, [1], [[8], [9]]⟩, ⟨3, [2], [[8]]⟩]).1 = [⟨1, 0, [9]⟩, ⟨3, 1, []⟩]
    ∧ (accept ⟨[[1], [2]], [[9]]⟩ [⟨1, [1], [[8], [9]]⟩, ⟨3, [2], [[8]]⟩]).2 = [(1, [1], [9])] := by decide

end Dicom.C09
