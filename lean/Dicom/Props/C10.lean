import Dicom.Model.Limits
import Dicom.Props.C06
/-! # C10 — the negotiated maximum PDU length is honoured in both directions, including 0 -/
namespace Dicom.C10
open Dicom

theorem limit_usable {own peer : Nat} (ho : usableMax own) (hp : usableMax peer) :
    usableMax (acceptorLimit own peer) := by
  unfold acceptorLimit usableMax at *; split <;> omega

/-- **never exceeds the peer's announcement** (acceptor side): every P-DATA-TF of every message,
fragmented with the adopted limit, fits the value the peer announced. -/
theorem acceptor_never_exceeds_peer (own peer pc : Nat) (cmd : Bytes) (data : Option Bytes)
    (ho : usableMax own) (hp : 7 ≤ peer) :
    ∀ f ∈ encodeMsg pc (acceptorLimit own peer) cmd data, f.pduLength ≤ peer := by
  intro f hf
  have hu := limit_usable ho (Or.inr hp)
  have h := (C06.frag_size pc _ cmd data hu f hf).1
  have : effMax (acceptorLimit own peer) ≤ peer := by
    unfold effMax acceptorLimit usableMax at *
    split <;> split <;> omega
  omega

/-- the requester side is the same function of (own, announced) -/
theorem requester_eq_acceptor (own announced : Nat) :
    requesterLimit own announced = acceptorLimit own announced := rfl

theorem requester_never_exceeds_peer (own announced pc : Nat) (cmd : Bytes) (data : Option Bytes)
    (ho : usableMax own) (hp : 7 ≤ announced) :
    ∀ f ∈ encodeMsg pc (requesterLimit own announced) cmd data, f.pduLength ≤ announced :=
  acceptor_never_exceeds_peer own announced pc cmd data ho hp

/-- **0 restricts nothing**: facing a peer that announces "no limit", a side keeps its own setting -/
theorem zero_is_unlimited (own : Nat) : acceptorLimit own 0 = own ∧ requesterLimit own 0 = own := by
  simp [acceptorLimit, requesterLimit]

/-- **always able to send**: for every pair of usable values the adopted limit is usable, so every
message of any size is transmitted completely (C06 `frag_content`) in non-empty fragments -/
theorem can_always_send (own peer pc : Nat) (cmd : Bytes) (data : Option Bytes)
    (ho : usableMax own) (hp : usableMax peer) :
    (((encodeMsg pc (acceptorLimit own peer) cmd data).filter (fun f => f.mch = 1 ∨ f.mch = 3)).map (·.body)).flatten = cmd ∧
    (((encodeMsg pc (acceptorLimit own peer) cmd data).filter (fun f => f.mch = 0 ∨ f.mch = 2)).map (·.body)).flatten
      = data.getD [] :=
  C06.frag_content pc _ cmd data (limit_usable ho hp)

/-- **announces within its own means**: with a configured limit the acceptor announces a non-zero
value not above it (with "no limit" configured any announcement is within its means) -/
theorem announces_within_own (own peer : Nat) (ho : own ≠ 0) :
    acceptorAnnounce own peer ≠ 0 ∧ acceptorAnnounce own peer ≤ own := by
  unfold acceptorAnnounce acceptorLimit; split <;> omega

/-- both directions of one negotiation: requester configured `r` announces `r`; the acceptor
configured `a` adopts and announces `acceptorLimit a r`; the requester adopts
`requesterLimit r (that)`.  Neither adopted limit exceeds what the other side announced. -/
theorem both_directions (r a : Nat) (hr : usableMax r) (ha : usableMax a) :
    (r ≠ 0 → acceptorLimit a r ≠ 0 ∧ acceptorLimit a r ≤ r) ∧
    (acceptorAnnounce a r ≠ 0 →
      requesterLimit r (acceptorAnnounce a r) ≠ 0 ∧ requesterLimit r (acceptorAnnounce a r) ≤ acceptorAnnounce a r) := by
  constructor
  · intro h; unfold acceptorLimit usableMax at *; split <;> omega
  · intro h
    generalize acceptorAnnounce a r = L at h ⊢
    unfold requesterLimit usableMax at *; split <;> omega

example : acceptorLimit 16384 0 = 16384 ∧ acceptorLimit 0 4096 = 4096 ∧ acceptorLimit 65536 128 = 128
    ∧ acceptorLimit 128 65536 = 128 ∧ acceptorLimit 0 0 = 0 := by decide

end Dicom.C10
