import Dicom.Model.Negotiation
import Dicom.Props.C09
/-! # C11 — requester: well-formed proposal, accepted contexts and service lookup agree -/
namespace Dicom.C11
open Dicom.Neg

theorem addCall_ids (d : List (Nat × Uid)) (classes : List Uid)
    (hd : d.map (·.1) = (List.range d.length).map (fun k => 2 * k + 1)) :
    (addCall d classes).map (·.1) = (List.range (d.length + classes.length)).map (fun k => 2 * k + 1) := by
  have hstart : nextId d = 2 * d.length + 1 := by
    unfold nextId
    cases hl : d.getLast? with
    | none =>
      have : d = [] := List.getLast?_eq_none_iff.mp hl
      subst this; rfl
    | some e =>
      simp only []
      have hne : d ≠ [] := by intro h; subst h; simp at hl
      have h1 : (d.map (·.1)).getLast? = some e.1 := by rw [List.getLast?_map, hl]; rfl
      rw [hd] at h1
      have hpos : 0 < d.length := List.length_pos_iff.mpr hne
      rw [List.getLast?_map, List.getLast?_range] at h1
      simp only [Nat.ne_of_gt hpos, ↓reduceIte, Option.map_some, Option.some.injEq] at h1
      omega
  unfold addCall
  rw [hstart]
  simp only [List.map_append, List.map_map, hd]
  rw [List.range_add, List.map_append]
  congr 1
  simp only [List.map_map]
  apply List.ext_getElem
  · simp
  · intro i h1 h2
    simp only [List.getElem_map, List.getElem_zipIdx, Function.comp, List.getElem_range]
    omega

theorem addCalls_ids_gen (calls : List (List Uid)) : ∀ (d : List (Nat × Uid)),
    d.map (·.1) = (List.range d.length).map (fun k => 2 * k + 1) →
    (calls.foldl addCall d).map (·.1) =
      (List.range ((calls.foldl addCall d).length)).map (fun k => 2 * k + 1) := by
  induction calls with
  | nil => intro d hd; simpa using hd
  | cons c cs ih =>
    intro d hd
    simp only [List.foldl_cons]
    apply ih
    have := addCall_ids d c hd
    have hl : (addCall d c).length = d.length + c.length := by simp [addCall]
    rw [hl]; exact this

theorem addCalls_length (calls : List (List Uid)) : ∀ (d : List (Nat × Uid)),
    (calls.foldl addCall d).length = d.length + (calls.map List.length).sum := by
  induction calls with
  | nil => intro d; simp
  | cons c cs ih =>
    intro d
    simp only [List.foldl_cons, List.map_cons, List.sum_cons]
    rw [ih]; simp [addCall]; omega

/-- **presentation context ids**: whatever the sequence of add_scu / add_scp calls and the sizes of
their SOP-class lists, the k-th configured class (counting from 0) gets id 2k+1: ids are odd, distinct
and increasing, one per configured entry. -/
theorem ids_are_odd_sequence (calls : List (List Uid)) :
    (addCalls calls).map (·.1) = (List.range ((calls.map List.length).sum)).map (fun k => 2 * k + 1) := by
  have h := addCalls_ids_gen calls [] (by simp)
  have hl := addCalls_length calls []
  simp only [List.length_nil, Nat.zero_add] at hl
  unfold addCalls
  rw [← hl]; exact h

/-- up to 128 configured classes every id lies in 1..255 -/
theorem ids_in_byte_range (calls : List (List Uid)) (h : (calls.map List.length).sum ≤ 128) :
    ∀ id ∈ (addCalls calls).map (·.1), 1 ≤ id ∧ id ≤ 255 ∧ id % 2 = 1 := by
  intro id hid
  rw [ids_are_odd_sequence] at hid
  simp only [List.mem_map, List.mem_range] at hid
  obtain ⟨k, hk, rfl⟩ := hid
  omega

/-- **known finding D18**: the 129th configured class gets id 257, which does not fit the one-byte
field of the Presentation Context item -/
theorem ids_overflow (calls : List (List Uid)) (h : (calls.map List.length).sum = 129) :
    257 ∈ (addCalls calls).map (·.1) := by
  rw [ids_are_odd_sequence, h]
  simp only [List.mem_map, List.mem_range]
  exact ⟨128, by omega, rfl⟩

/-- each configured entry is proposed exactly once, in configuration order -/
theorem proposes_each_entry (calls : List (List Uid)) : (addCalls calls).map (·.2) = calls.flatten := by
  unfold addCalls
  have : ∀ (d : List (Nat × Uid)), (calls.foldl addCall d).map (·.2) = d.map (·.2) ++ calls.flatten := by
    induction calls with
    | nil => intro d; simp
    | cons c cs ih =>
      intro d
      simp only [List.foldl_cons, List.flatten_cons]
      rw [ih]
      simp only [addCall, List.map_append, List.map_map, List.append_assoc]
      congr 2
      apply List.ext_getElem
      · simp
      · intro i h1 h2
        simp [List.getElem_zipIdx]
  simpa using this []

/-! ### reply processing -/

/-- a lookup fails with the class-not-supported error unless the class is configured as SCU *and* some
context of that class was accepted -/
theorem get_scu_iff (u : Usable) (scu : List Uid) (cls : Uid) :
    (getScu u scu cls).isSome = true ↔ (cls ∈ scu ∧ ∃ e ∈ u.byClass, e.1 = cls) := by
  unfold getScu
  cases hf : u.byClass.find? (fun e => e.1 == cls) with
  | none =>
    simp only [Option.isSome_none, Bool.false_eq_true, false_iff, not_and, not_exists]
    intro _ e he h
    have := List.find?_eq_none.mp hf e he
    simp [h] at this
  | some e =>
    simp only []
    have hm := List.mem_of_find?_eq_some hf
    have he : e.1 = cls := by simpa using List.find?_some hf
    by_cases hs : scu.contains cls = true
    · simp only [hs, ↓reduceIte, Option.isSome_some, true_iff]
      exact ⟨by simpa using hs, e, hm, he⟩
    · simp only [hs, Bool.false_eq_true, ↓reduceIte, Option.isSome_none, false_iff, not_and]
      intro h; simp at hs; exact absurd h hs

/-- the lookup returns the id and transfer syntax recorded for that class -/
theorem get_scu_value (u : Usable) (scu : List Uid) (cls : Uid) (r : Nat × Uid)
    (h : getScu u scu cls = some r) : (cls, r) ∈ u.byClass := by
  unfold getScu at h
  cases hf : u.byClass.find? (fun e => e.1 == cls) with
  | none => rw [hf] at h; simp at h
  | some e =>
    rw [hf] at h
    simp only [] at h
    split at h
    · simp only [Option.some.injEq] at h
      have hm := List.mem_of_find?_eq_some hf
      have he : e.1 = cls := by simpa using List.find?_some hf
      rw [← h, ← he]; exact hm
    · simp at h

theorem dictSet_new' {α : Type} (d : List (Nat × α)) (k : Nat) (v : α) (h : ∀ e ∈ d, e.1 ≠ k) :
    dictSet d k v = d ++ [(k, v)] := by
  unfold dictSet
  have : d.any (fun e => e.1 == k) = false := by
    rw [List.any_eq_false]; intro e he; simpa using h e he
  simp [this]

/-- **usable = accepted among proposed, with the peer's transfer syntax**: for a reply whose contexts
all answer proposed ones (distinct ids), the contexts regarded as usable are exactly the ones answered
with result 0, each bound to the class it was proposed for and the transfer syntax the peer chose. -/
theorem usable_eq_accepted (proposed : List (Nat × Uid)) (reply : List PcAc) :
    ∀ (u : Usable), (reply.map (·.id)).Nodup → (∀ e ∈ u.byId, ∀ r ∈ reply, e.1 ≠ r.id) →
    (∀ r ∈ reply, r.result = 0 → (dictGet proposed r.id).isSome = true) →
    ∃ u', processAc proposed reply u = some u' ∧
      u'.byId = u.byId ++ (reply.filter (fun r => r.result = 0)).filterMap
        (fun r => (dictGet proposed r.id).map fun cls => (r.id, cls, r.ts)) := by
  induction reply with
  | nil => intro u _ _ _; exact ⟨u, rfl, by simp⟩
  | cons r rs ih =>
    intro u hnd hdis hprop
    simp only [List.map_cons, List.nodup_cons] at hnd
    unfold processAc
    by_cases hr : r.result = 0
    · simp only [hr, ↓reduceIte]
      have hs := hprop r (by simp) hr
      cases hg : dictGet proposed r.id with
      | none => rw [hg] at hs; simp at hs
      | some cls =>
        simp only []
        rw [dictSet_new' u.byId r.id _ (fun e he => hdis e he r (by simp))]
        obtain ⟨u', h1, h2⟩ := ih { byId := u.byId ++ [(r.id, cls, r.ts)], byClass := classSet u.byClass cls (r.id, r.ts) }
          hnd.2
          (by
            intro e he r' hr'
            simp only [List.mem_append, List.mem_singleton] at he
            rcases he with he | he
            · exact hdis e he r' (by simp [hr'])
            · subst he
              intro heq
              exact hnd.1 (List.mem_map.mpr ⟨r', hr', heq.symm⟩))
          (fun r' hr' => hprop r' (by simp [hr']))
        refine ⟨u', h1, ?_⟩
        rw [h2]
        simp [hr, hg, List.append_assoc]
    · simp only [hr, ↓reduceIte]
      obtain ⟨u', h1, h2⟩ := ih u hnd.2 (fun e he r' hr' => hdis e he r' (by simp [hr']))
        (fun r' hr' => hprop r' (by simp [hr']))
      exact ⟨u', h1, by rw [h2]; simp [hr]⟩

-- non-vacuity: two add calls, a reply accepting the first and third context
example : addCalls [[[10], [11]], [[12]]] = [(1, [10]), (3, [11]), (5, [12])] := by decide
example : (processAc [(1, [10]), (3, [11]), (5, [12])] [⟨1, 0, [9]⟩, ⟨3, 3, []⟩, ⟨5, 0, [8]⟩] {}).map (·.byId)
    = some [(1, [10], [9]), (5, [12], [8])] := by decide

/-! ### both ends of a negotiation (C09 and C11 together) -/

/-- the request built from the context definition list: every entry proposed with the requester's
transfer syntaxes (`build_pres_context_def_list`) -/
def mkRequest (proposed : List (Nat × Uid)) (tss : List Uid) : List PcRq :=
  proposed.map fun e => ⟨e.1, e.2, tss⟩

theorem answer_id (cfg : Cfg) (c : PcRq) : (answer cfg c).id = c.id := by
  unfold answer; split
  · split <;> rfl
  · rfl

theorem dictGet_mem (d : List (Nat × Uid)) (hnd : (d.map (·.1)).Nodup) (e : Nat × Uid) (he : e ∈ d) :
    dictGet d e.1 = some e.2 := by
  induction d with
  | nil => simp at he
  | cons x xs ih =>
    simp only [List.map_cons, List.nodup_cons] at hnd
    simp only [List.mem_cons] at he
    unfold dictGet
    rcases he with rfl | he
    · simp [List.find?]
    · have hne : x.1 ≠ e.1 := fun h => hnd.1 (List.mem_map.mpr ⟨e, he, h.symm⟩)
      have : (x.1 == e.1) = false := by simpa using hne
      simp only [List.find?, this]
      exact ih hnd.2 he

/-- the contexts both sides end up with, computed from the proposal -/
def agreed (cfg : Cfg) (proposed : List (Nat × Uid)) (tss : List Uid) : List (Nat × Uid × Uid) :=
  proposed.filterMap fun e =>
    if (answer cfg ⟨e.1, e.2, tss⟩).result = 0 then some (e.1, e.2, (answer cfg ⟨e.1, e.2, tss⟩).ts) else none

theorem served_eq_agreed (cfg : Cfg) (proposed : List (Nat × Uid)) (tss : List Uid)
    (hnd : (proposed.map (·.1)).Nodup) :
    (accept cfg (mkRequest proposed tss)).2 = agreed cfg proposed tss := by
  have hids : ((mkRequest proposed tss).map (·.id)) = proposed.map (·.1) := by simp [mkRequest]
  rw [Dicom.C09.served_eq_reported cfg _ (by rw [hids]; exact hnd)]
  simp only [accept, mkRequest, agreed]
  clear hnd hids
  induction proposed with
  | nil => simp
  | cons e es ih =>
    simp only [List.map_cons, List.zip_cons_cons, List.filter_cons, List.filterMap_cons]
    by_cases h : (answer cfg ⟨e.1, e.2, tss⟩).result = 0
    · simp only [h, decide_true, ↓reduceIte, List.map_cons, answer_id]
      rw [ih]
    · simp only [h, decide_false, Bool.false_eq_true, ↓reduceIte]
      rw [ih]

/-- **both ends agree.**  The requester proposes its context definition list, the acceptor answers it
(`accept`), the requester processes the answer (`processAc`): the table of usable contexts the requester
ends up with — id, abstract syntax, transfer syntax — is exactly the table of contexts the acceptor serves. -/
theorem negotiation_agreement (cfg : Cfg) (proposed : List (Nat × Uid)) (tss : List Uid)
    (hnd : (proposed.map (·.1)).Nodup) :
    ∃ u, processAc proposed (accept cfg (mkRequest proposed tss)).1 {} = some u ∧
      u.byId = (accept cfg (mkRequest proposed tss)).2 := by
  have hrid : ((accept cfg (mkRequest proposed tss)).1.map (·.id)) = proposed.map (·.1) := by
    rw [Dicom.C09.answers_each_once_in_order]; simp [mkRequest]
  have hprop : ∀ r ∈ (accept cfg (mkRequest proposed tss)).1, r.result = 0 → (dictGet proposed r.id).isSome = true := by
    intro r hr _
    simp only [accept, mkRequest, List.map_map, List.mem_map, Function.comp] at hr
    obtain ⟨e, he, rfl⟩ := hr
    rw [answer_id, dictGet_mem proposed hnd e he]; rfl
  obtain ⟨u, h1, h2⟩ := usable_eq_accepted proposed (accept cfg (mkRequest proposed tss)).1 {}
    (by rw [hrid]; exact hnd) (by intro e he; simp at he) hprop
  refine ⟨u, h1, ?_⟩
  rw [h2, served_eq_agreed cfg proposed tss hnd]
  simp only [accept, mkRequest, agreed, List.nil_append, List.map_map]
  clear h1 h2 hprop hrid
  -- both sides are a filterMap over `proposed`; lookups by id find the entry itself
  have key : ∀ (l : List (Nat × Uid)), (∀ e ∈ l, dictGet proposed e.1 = some e.2) →
      (List.filter (fun r => decide (r.result = 0)) (List.map ((answer cfg) ∘ fun e => ⟨e.1, e.2, tss⟩) l)).filterMap
        (fun r => (dictGet proposed r.id).map fun cls => (r.id, cls, r.ts)) =
      l.filterMap fun e =>
        if (answer cfg ⟨e.1, e.2, tss⟩).result = 0 then some (e.1, e.2, (answer cfg ⟨e.1, e.2, tss⟩).ts) else none := by
    intro l hl
    induction l with
    | nil => simp
    | cons e es ih =>
      have he := hl e (by simp)
      have ih' := ih (fun x hx => hl x (by simp [hx]))
      simp only [List.map_cons, Function.comp, List.filter_cons, List.filterMap_cons]
      by_cases h : (answer cfg ⟨e.1, e.2, tss⟩).result = 0
      · simp only [h, decide_true, ↓reduceIte, List.filterMap_cons, answer_id, he, Option.map_some]
        rw [ih']
      · simp only [h, decide_false, Bool.false_eq_true, ↓reduceIte]
        rw [ih']
  exact key proposed (fun e he => dictGet_mem proposed hnd e he)

-- non-vacuity: a proposal of which the acceptor serves the first class with the second transfer syntax
example : (accept ⟨[[10]], [[21]]⟩ (mkRequest [(1, [10]), (3, [11])] [[20], [21]])).2 = [(1, [10], [21])] := by decide

end Dicom.C11
