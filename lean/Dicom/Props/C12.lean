import Dicom.Proofs.Provider3
import Dicom.Proofs.Sched
import Dicom.Model.Pdu
/-! # C12 — no byte sequence from the peer can crash or hang the provider (model level)

The decoders of the model are total functions (`decodePdu : Bytes → Option Pdu`; Lean accepting the
definitions is the termination proof), so "undecodable" is a value — the `invalid` / `pdataErr` tokens of
the loop model — not an escape.  What the theorems cannot show is that the *Python* decoders raise
only where the model says `none` and never block: that is what the byte-level fuzzing of the real loop
in the harness checks. -/
namespace Dicom.C12
open Dicom.UL Dicom.Prov

/-- decoding any byte string yields a PDU or a rejection — never anything else, and it terminates -/
theorem decoders_total (bs : Bytes) : (∃ p, decodePdu bs = some p) ∨ decodePdu bs = none := by
  cases h : decodePdu bs with
  | none => exact Or.inr rfl
  | some p => exact Or.inl ⟨p, rfl⟩

/-- **the acceptor's loop never dies**: whatever the peer sends — valid, unexpected, undecodable
PDUs, P-DATA the DIMSE layer rejects, in any order and segmentation — whenever it closes or stays
silent, whenever ARTIM expires and whenever a transport write fails, no undefined transition is
reached. -/
theorem peer_cannot_crash_acceptor (σ : List Tick) (hσ : PeerOnly σ) : (run initAcc σ).1.crashed = false :=
  (run_peer σ hσ initAcc initAcc_inv ⟨rfl, rfl, rfl⟩).1

/-- ... stated over bytes: whatever bytes arrive, in whatever segments, with the peer closing anywhere, and
however the receive path classifies the complete PDUs among them (`cls` is arbitrary: decodable or not, valid
P-DATA or not), the acceptor's loop does not die -/
theorem no_byte_stream_crashes_acceptor (cls : Bytes → Rx) (s : List BNet) :
    (run initAcc (absTicks cls [] s)).1.crashed = false :=
  peer_cannot_crash_acceptor _ (fun t ht => (absTicks_netOnly cls s [] t ht).1)

/-- the same for the requester, after its user's A-ASSOCIATE request -/
theorem peer_cannot_crash_requester (σ : List Tick) (hσ : PeerOnly σ) :
    (run initReq ({ enq := [.rq] } :: σ)).1.crashed = false := by
  simp only [run]
  have hinv : PInv (iter initReq { enq := [.rq] }).1 := iter_inv _ _ initReq_inv
  have hn : NoUser (iter initReq { enq := [.rq] }).1 := by unfold NoUser; decide
  exact (run_peer σ hσ _ hinv hn).1

/-- **a PDU that is unrecognised or cannot be decoded is answered with A-ABORT**, with a provider-abort
indication where an association had been indicated, and the provider goes on to await the close -/
theorem bad_pdu_aborts (p : P) (t : Tick) (hq : Quiet p) (hs : p.sock = true) (h4 : p.st ≠ .s4)
    (hraw : ∃ r, p.raw = .invalid :: r) (hf : t.sendFails = false) :
    (iter p t).1.st = .s13 ∧ (∃ n, Out.sendAbort n ∈ (iter p t).2) ∧
    (p.st ≠ .s2 → p.st ≠ .s13 → Out.indAbort 2 ∈ (iter p t).2) := by
  obtain ⟨r, hr⟩ := hraw
  obtain ⟨hc, htm, hqe, hss⟩ := hq
  obtain ⟨st, sock, evq, rx, timer, now, tstart, raw, inbox, fromUser, gen, requestor, crashed⟩ := p
  simp only at hc hqe hss hs h4 hr
  subst hc hqe hs hr
  have h1 : st ≠ .s1 := by intro e; simp [e] at hss
  simp only [iter, prePoll, arrive, poll, checkNetwork, processIncoming, Bool.false_eq_true, ↓reduceIte,
    List.isEmpty_nil, Bool.not_true, h4, dispatch, evOfRx, List.nil_append, hf, Bool.false_and]
  cases st <;> simp_all [table, act, aa8Body, dropGen]

-- non-vacuity
example : PeerOnly [{}, { net := .data [.invalid] }, { net := .eof }] := by
  intro t ht; simp at ht; rcases ht with rfl | rfl | rfl <;> rfl

end Dicom.C12
