import Dicom.Proofs.Provider3
/-! # C13 — every ending terminates the provider and releases the connection (model level) -/
namespace Dicom.C13
open Dicom.UL Dicom.Prov

/-- **the peer disconnects**: from any quiescent state with an open connection and no complete PDU
still buffered, the pass in which the reader sees the end of the stream ends idle with the transport
closed — whatever the local user has queued, whatever the protocol state — and the user is told
(A-P-ABORT) if an association had been indicated or requested. -/
theorem closes_after_eof (p : P) (t : Tick) (hq : Quiet p) (hs : p.sock = true) (h4 : p.st ≠ .s4)
    (hraw : p.raw = []) (hin : p.inbox = []) (hn : t.net = .eof) :
    (iter p t).1.st = .s1 ∧ (iter p t).1.sock = false ∧ (iter p t).1.crashed = false ∧
    (p.st ≠ .s2 → p.st ≠ .s13 → Out.indAbort 2 ∈ (iter p t).2) := by
  obtain ⟨hc, htm, hqe, hss⟩ := hq
  obtain ⟨st, sock, evq, rx, timer, now, tstart, raw, inbox, fromUser, gen, requestor, crashed⟩ := p
  obtain ⟨net, enq, dt, sf⟩ := t
  simp only at hc hqe hss hs h4 hraw hin hn
  subst hc hqe hs hraw hin hn
  have h1 : st ≠ .s1 := by intro e; simp [e] at hss
  simp only [iter, prePoll, arrive, poll, checkNetwork, processIncoming, Bool.false_eq_true, ↓reduceIte,
    List.isEmpty_nil, Bool.not_true, h4, dispatch, List.nil_append]
  cases st <;> simp_all [table, act, dropGen, sends]

/-- **the peer stays silent**: awaiting the first PDU (Sta2) or the peer's close (Sta13), once ARTIM
has run out the next quiet pass closes the transport and returns to idle. -/
theorem closes_by_artim (p : P) (t : Tick) (hq : Quiet p) (hst : p.st = .s2 ∨ p.st = .s13)
    (hraw : p.raw = []) (hin : p.inbox = []) (hu : p.fromUser = []) (hg : p.gen = 0)
    (hn : t.net = .idle) (he : t.enq = []) (hexp : p.now + t.dt - p.tstart > artim) :
    (iter p t).1.st = .s1 ∧ (iter p t).1.sock = false ∧ (iter p t).1.crashed = false := by
  obtain ⟨hc, htm, hqe, hss⟩ := hq
  obtain ⟨st, sock, evq, rx, timer, now, tstart, raw, inbox, fromUser, gen, requestor, crashed⟩ := p
  obtain ⟨net, enq, dt, sf⟩ := t
  simp only at hc hqe hss hst hraw hin hu hg hn he hexp
  subst hc hqe hraw hin hu hg hn he
  unfold TimerOk at htm
  simp only at htm
  have htimer : timer = true := htm.mpr hst
  have hsock : sock = true := by
    cases sock
    · have := hss.mpr rfl; rcases hst with h | h <;> simp [h] at this
    · rfl
  subst htimer hsock
  have h4 : st ≠ .s4 := by rcases hst with h | h <;> simp [h]
  simp only [iter, prePoll, arrive, poll, checkNetwork, processIncoming, pollRest, checkOutgoing, checkTimer,
    Bool.false_eq_true, ↓reduceIte, List.isEmpty_nil, Bool.not_true, h4, dispatch, List.nil_append,
    List.append_nil, Nat.lt_irrefl, Bool.true_and, decide_eq_true_eq, hexp]
  rcases hst with h | h <;> subst h <;> simp [table, act, dropGen, sends]

/-- **a request to stop always completes**: every pass of the loop returns (the model has no blocking
call: `iter` is a total function), so the termination flag is looked at again after each pass. -/
theorem stop_completes (p : P) (t : Tick) : ∃ p' o, iter p t = (p', o) := ⟨_, _, rfl⟩

/-- a whole ending: an established association whose peer disappears -/
example : (run initAcc [{}, { net := .data [.rq] }, { enq := [.ac] }, { net := .eof }]).1.st = .s1
    ∧ (run initAcc [{}, { net := .data [.rq] }, { enq := [.ac] }, { net := .eof }]).1.sock = false := by decide

/-- rejection followed by a peer that never closes: ARTIM ends it -/
example : (run initAcc [{}, { net := .data [.rq] }, { enq := [.rj] }, { dt := 11 }]).1.st = .s1 := by decide

end Dicom.C13
