import Dicom.Proofs.Provider3
import Dicom.Proofs.Sched
/-! # C13 — every ending terminates the provider and releases the connection (model level) -/
namespace Dicom.C13
open Dicom.UL Dicom.Prov

/-- **the peer disconnects**: from any quiescent state with an open connection and no complete PDU
still buffered, the pass in which the reader sees the end of the stream ends idle with the transport
closed — whatever the local user has queued, whatever the protocol state — and the user is told
(A-P-ABORT) if an association had been indicated or requested. -/
theorem closes_after_eof (p : P) (t : Tick) (hq : Quiet p) (hs : p.sock = true) (h4 : p.st ≠ .s4)
    (hraw : p.raw = []) (hin : p.inbox = []) (hn : t.net = .eof) :
    (iter p t).1.st = .s1 ∧ (iter p t).1.sock = false ∧ (iter p t).1.crashed = false ∧
    (p.st ≠ .s2 → p.st ≠ .s13 → Out.indAbort 2 ∈ (iter p t).2) := by
  obtain ⟨hc, htm, hqe, hss⟩ := hq
  obtain ⟨st, sock, evq, rx, timer, now, tstart, raw, inbox, fromUser, gen, requestor, crashed⟩ := p
  obtain ⟨net, enq, dt, sf⟩ := t
  simp only at hc hqe hss hs h4 hraw hin hn
  subst hc hqe hs hraw hin hn
  have h1 : st ≠ .s1 := by intro e; simp [e] at hss
  simp only [iter, prePoll, arrive, poll, checkNetwork, processIncoming, Bool.false_eq_true, ↓reduceIte,
    List.isEmpty_nil, Bool.not_true, h4, dispatch, List.nil_append]
  cases st <;> simp_all [table, act, dropGen, sends]

/-- **the peer stays silent**: awaiting the first PDU (Sta2) or the peer's close (Sta13), once ARTIM
has run out the next quiet pass closes the transport and returns to idle. -/
theorem closes_by_artim (p : P) (t : Tick) (hq : Quiet p) (hst : p.st = .s2 ∨ p.st = .s13)
    (hraw : p.raw = []) (hin : p.inbox = []) (hu : p.fromUser = []) (hg : p.gen = 0)
    (hn : t.net = .idle) (he : t.enq = []) (hexp : p.now + t.dt - p.tstart > artim) :
    (iter p t).1.st = .s1 ∧ (iter p t).1.sock = false ∧ (iter p t).1.crashed = false := by
  obtain ⟨hc, htm, hqe, hss⟩ := hq
  obtain ⟨st, sock, evq, rx, timer, now, tstart, raw, inbox, fromUser, gen, requestor, crashed⟩ := p
  obtain ⟨net, enq, dt, sf⟩ := t
  simp only at hc hqe hss hst hraw hin hu hg hn he hexp
  subst hc hqe hraw hin hu hg hn he
  unfold TimerOk at htm
  simp only at htm
  have htimer : timer = true := htm.mpr hst
  have hsock : sock = true := by
    cases sock
    · have := hss.mpr rfl; rcases hst with h | h <;> simp [h] at this
    · rfl
  subst htimer hsock
  have h4 : st ≠ .s4 := by rcases hst with h | h <;> simp [h]
  simp only [iter, prePoll, arrive, poll, checkNetwork, processIncoming, pollRest, checkOutgoing, checkTimer,
    Bool.false_eq_true, ↓reduceIte, List.isEmpty_nil, Bool.not_true, h4, dispatch, List.nil_append,
    List.append_nil, Nat.lt_irrefl, Bool.true_and, decide_eq_true_eq, hexp]
  rcases hst with h | h <;> subst h <;> simp [table, act, dropGen, sends]

/-- a tick in which nothing happens but time passing -/
def Silent (t : Tick) : Prop := t.net = .idle ∧ t.enq = []

/-- idle, closed, nothing pending: silent ticks change nothing but the clock -/
theorem idle_stays (ts : List Tick) (hs : ∀ t ∈ ts, Silent t) : ∀ (p : P), Quiet p → p.st = .s1 →
    p.fromUser = [] → p.gen = 0 →
    (run p ts).1.st = .s1 ∧ (run p ts).1.sock = false ∧ (run p ts).1.crashed = false := by
  induction ts with
  | nil => intro p hq h1 _ _; exact ⟨h1, hq.2.2.2.mp h1, hq.1⟩
  | cons t ts ih =>
    intro p hq h1 hu hg
    have ht := hs t (by simp)
    obtain ⟨hc, htm, hqe, hss⟩ := hq
    obtain ⟨st, sock, evq, rx, timer, now, tstart, raw, inbox, fromUser, gen, requestor, crashed⟩ := p
    obtain ⟨net, enq, dt, sf⟩ := t
    obtain ⟨hn, he⟩ := ht
    simp only at hc hqe hss h1 hu hg hn he
    subst hc hqe h1 hu hg hn he
    have hsock : sock = false := hss.mp rfl
    subst hsock
    unfold TimerOk at htm
    simp only at htm
    have htimer : timer = false := by
      cases timer with
      | false => rfl
      | true => have := htm.mp rfl; simp at this
    subst htimer
    have hstep : iter ⟨.s1, false, [], rx, false, now, tstart, raw, inbox, [], 0, requestor, false⟩ ⟨.idle, [], dt, sf⟩ =
        (⟨.s1, false, [], rx, false, now + dt, tstart, raw, inbox, [], 0, requestor, false⟩, []) := by
      simp [iter, prePoll, arrive, poll, checkNetwork, pollRest, checkOutgoing, checkTimer, dispatch]
    simp only [run, hstep]
    exact ih (fun x hx => hs x (by simp [hx])) _ ⟨rfl, by unfold TimerOk; simp, rfl, by simp⟩ rfl rfl rfl

/-- **the peer stays silent, over every schedule**: awaiting the first PDU (Sta2) or the peer's close (Sta13)
with nothing buffered, any sequence of passes in which nothing arrives and the local user does nothing, and
during which more than the ARTIM period elapses in total, ends idle with the transport closed — however the
time is spread over the passes, and however many more silent passes follow. -/
theorem silence_always_ends (ts : List Tick) (hs : ∀ t ∈ ts, Silent t) : ∀ (p : P), Quiet p →
    (p.st = .s2 ∨ p.st = .s13) → p.raw = [] → p.inbox = [] → p.fromUser = [] → p.gen = 0 →
    p.now - p.tstart ≤ artim → p.now + (ts.map (·.dt)).sum - p.tstart > artim →
    (run p ts).1.st = .s1 ∧ (run p ts).1.sock = false ∧ (run p ts).1.crashed = false := by
  induction ts with
  | nil =>
    intro p _ _ _ _ _ _ hnot hexp
    simp only [List.map_nil, List.sum_nil, Nat.add_zero] at hexp
    omega
  | cons t ts ih =>
    intro p hq hst hraw hin hu hg hnot hexp
    have ht := hs t (by simp)
    have hrest : ∀ x ∈ ts, Silent x := fun x hx => hs x (by simp [hx])
    simp only [List.map_cons, List.sum_cons] at hexp
    simp only [run]
    by_cases hnow : p.now + t.dt - p.tstart > artim
    · -- ARTIM has run out at this pass
      obtain ⟨h1, h2, h3⟩ := closes_by_artim p t hq hst hraw hin hu hg ht.1 ht.2 hnow
      have hpinv : PInv (iter p t).1 := iter_inv p t (fun _ => Or.inl hq)
      have hnu : NoUser (iter p t).1 := iter_peer p t (fun _ => Or.inl hq) ⟨hq.1, hu, hg⟩ ht.2
      have hq1 : Quiet (iter p t).1 := by
        rcases hpinv h3 with h | h | h
        · exact h
        · rw [h2] at h; exact absurd h.2.1 (by simp)
        · exact absurd h1 h.2.2.1
      exact idle_stays ts hrest _ hq1 h1 hnu.2.1 hnu.2.2
    · -- not yet: the pass only lets time go by
      have hstep : iter p t = ({ p with now := p.now + t.dt }, []) := by
        obtain ⟨hc, htm, hqe, hss⟩ := hq
        obtain ⟨st, sock, evq, rx, timer, now, tstart, raw, inbox, fromUser, gen, requestor, crashed⟩ := p
        obtain ⟨net, enq, dt, sf⟩ := t
        obtain ⟨hn, he⟩ := ht
        simp only at hc hqe hss hst hraw hin hu hg hn he hnow
        subst hc hqe hraw hin hu hg hn he
        have hsock : sock = true := by
          cases sock
          · have := hss.mpr rfl; rcases hst with h | h <;> simp [h] at this
          · rfl
        subst hsock
        have h4 : st ≠ .s4 := by rcases hst with h | h <;> simp [h]
        simp [iter, prePoll, arrive, poll, checkNetwork, processIncoming, pollRest, checkOutgoing, checkTimer, h4, dispatch, hnow]
      rw [hstep]
      have hq' : Quiet { p with now := p.now + t.dt } := hq
      refine ih hrest _ hq' hst hraw hin hu hg (by simp only; omega) (by simp only; omega)

/-- **a request to stop always completes**: every pass of the loop returns (the model has no blocking
call: `iter` is a total function), so the termination flag is looked at again after each pass. -/
theorem stop_completes (p : P) (t : Tick) : ∃ p' o, iter p t = (p', o) := ⟨_, _, rfl⟩

/-- a whole ending: an established association whose peer disappears -/
example : (run initAcc [{}, { net := .data [.rq] }, { enq := [.ac] }, { net := .eof }]).1.st = .s1
    ∧ (run initAcc [{}, { net := .data [.rq] }, { enq := [.ac] }, { net := .eof }]).1.sock = false := by decide

/-- rejection followed by a peer that never closes: ARTIM ends it -/
example : (run initAcc [{}, { net := .data [.rq] }, { enq := [.rj] }, { dt := 11 }]).1.st = .s1 := by decide

/-- **the peer's close ends the association, over every schedule.**  From any reachable calm state (nothing of
the local user pending), whatever the peer sent before closing, however the transport segmented and timed
it, once the close has been delivered at most `mu` further passes leave the provider idle, the transport
closed, ARTIM stopped and the loop alive. -/
theorem peer_close_always_ends (p : P) (hp : Calm p) (hinv : PInv p) (hc : p.crashed = false) (ts : List Tick)
    (hn : ∀ t ∈ ts, NetOnly t) (heof : none ∈ dels ts) (n : Nat) (hmu : mu (run p ts).1 ≤ n) :
    (run p (ts ++ List.replicate n ({} : Tick))).1.st = .s1 ∧ (run p (ts ++ List.replicate n ({} : Tick))).1.sock = false ∧
    (run p (ts ++ List.replicate n ({} : Tick))).1.timer = false ∧
    (run p (ts ++ List.replicate n ({} : Tick))).1.crashed = false :=
  eof_closes p hp hinv hc ts hn heof n hmu

/-- non-vacuity: the acceptor after its first pass (Sta2, awaiting the A-ASSOCIATE-RQ) meets the premises, and
a schedule "garbage, a release request, then the close" delivers the close -/
example : Calm (iter initAcc {}).1 ∧ PInv (iter initAcc {}).1 ∧ (iter initAcc {}).1.crashed = false ∧
    none ∈ dels [{ net := .data [.invalid, .rlrq] }, { net := .eof }] := by
  refine ⟨?_, iter_inv _ _ initAcc_inv, by decide, by decide⟩
  refine ⟨⟨by decide, by decide, ?_, ?_⟩, by decide⟩
  · intro _; decide
  · intro _; decide

end Dicom.C13
