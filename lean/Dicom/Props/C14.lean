import Dicom.Proofs.Pdu2
/-! # C14 — rejection, abort and release are reported faithfully to both sides

`handleErrors` mirrors `Association._handle_errors`; the wire fidelity is C01's round trip. The
end-to-end statements (what the *other* side raises, no service on a refused association, what the
requesting context manager puts on the wire when it is left) are checked on real threads. -/
namespace Dicom.C14
open Dicom

/-- what the receiving side raises for a PDU handed up by its provider -/
inductive Raised
  | released
  | aborted (source reason : Nat)
  | rejected (result source reason : Nat)
  | nothing
deriving DecidableEq, Repr

def handleErrors : Pdu → Raised
  | .rlrq _ _ => .released
  | .abort _ _ _ s r => .aborted s r
  | .rj _ _ res s r => .rejected res s r
  | _ => .nothing

/-- **rejection fidelity**: for every (result, source, reason) over the byte range, the A-ASSOCIATE-RJ
the acceptor encodes is decoded by the requestor into an error carrying exactly those three values -/
theorem reject_fidelity (res src rsn : Nat) (h1 : res < 256) (h2 : src < 256) (h3 : rsn < 256) :
    (decodePdu (Pdu.rj 0 0 res src rsn).enc).map handleErrors = some (.rejected res src rsn) := by
  rw [decodePdu_enc _ (by simp [Pdu.WF, h1, h2, h3])]; rfl

/-- **abort fidelity**: source and reason of an A-ABORT survive the wire -/
theorem abort_fidelity (src rsn : Nat) (h1 : src < 256) (h2 : rsn < 256) :
    (decodePdu (Pdu.abort 0 0 0 src rsn).enc).map handleErrors = some (.aborted src rsn) := by
  rw [decodePdu_enc _ (by simp [Pdu.WF, h1, h2])]; rfl

theorem release_is_release : (decodePdu (Pdu.rlrq 0 0).enc).map handleErrors = some .released := by
  rw [decodePdu_enc _ (by simp [Pdu.WF])]; rfl

/-- the requesting context manager (`AEBase.request_association`): what it puts on the wire when left -/
inductive Exit | normal | error
deriving DecidableEq, Repr

inductive Wire | releaseRq | abort (source reason : Nat) | nothing
deriving DecidableEq, Repr

def onExit (established : Bool) : Exit → Wire
  | .normal => if established then .releaseRq else .nothing
  | .error => if established then .abort 0 0 else .nothing

/-- **leaving normally releases, leaving through an error aborts** (an established association) -/
theorem exit_releases_or_aborts : onExit true .normal = .releaseRq ∧ onExit true .error = .abort 0 0 := ⟨rfl, rfl⟩

/-- the acceptor's `handle`: a refused association never reaches the message loop -/
def acceptorServes (refused : Bool) : Bool := !refused
theorem no_service_on_refusal : acceptorServes true = false := rfl

end Dicom.C14
