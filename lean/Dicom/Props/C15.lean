import Dicom.Model.Storage
import Dicom.Props.C03
import Dicom.Props.C06
import Dicom.Props.C07
import Dicom.Proofs.Pdu2
import Dicom.Proofs.Framing
/-! # C15 — C-STORE delivers the data set intact end to end; stored files are never clobbered -/
namespace Dicom.C15
open Dicom.Store

/-! ### the directory-backed storage entity -/

/-- the probes of the name chain that find an existing file are distinct entries of the directory -/
theorem pick_bound (d : Dir) (uid : String) : ∀ fuel k, k ≤ pick d uid fuel k ∧ pick d uid fuel k ≤ k + fuel := by
  intro fuel
  induction fuel with
  | zero => intro k; simp [pick]
  | succ f ih =>
    intro k
    simp only [pick]
    split
    · have := ih (k + 1); omega
    · omega

theorem pick_all_exist (d : Dir) (uid : String) : ∀ fuel k j, k ≤ j → j < pick d uid fuel k → exists? d (uid, j) = true := by
  intro fuel
  induction fuel with
  | zero => intro k j h1 h2; simp [pick] at h2; omega
  | succ f ih =>
    intro k j h1 h2
    simp only [pick] at h2
    split at h2
    · rename_i he
      by_cases hj : j = k
      · subst hj; exact he
      · exact ih (k + 1) j (by omega) h2
    · omega

/-- the names (uid, 0) … (uid, n-1), all present in `d`, are n distinct entries: n ≤ |d| -/
theorem chain_le_length (d : Dir) (uid : String) : ∀ n, (∀ j, j < n → exists? d (uid, j) = true) → n ≤ d.length := by
  intro n
  induction n generalizing d with
  | zero => intro _; omega
  | succ n ih =>
    intro h
    -- remove one entry named (uid, n); the others are still there
    have hn := h n (by omega)
    simp only [exists?, List.any_eq_true] at hn
    obtain ⟨e, he, hen⟩ := hn
    have hlen : (d.erase e).length = d.length - 1 := List.length_erase_of_mem he
    have hpos : 0 < d.length := List.length_pos_of_mem he
    have := ih (d.erase e) (by
      intro j hj
      have hj' := h j (by omega)
      simp only [exists?, List.any_eq_true] at hj' ⊢
      obtain ⟨e', he', hen'⟩ := hj'
      have hne : e' ≠ e := by
        intro heq; subst heq
        have h1 : e'.1 = (uid, j) := by simpa using hen'
        have h2 : e'.1 = (uid, n) := by simpa using hen
        rw [h1] at h2
        simp only [Prod.mk.injEq, true_and] at h2
        omega
      exact ⟨e', (List.mem_erase_of_ne hne).mpr he', hen'⟩)
    omega

/-- **the name chosen for a new file is not in the directory** -/
theorem freshName_new (d : Dir) (uid : String) : exists? d (freshName d uid) = false := by
  unfold freshName
  have hb := pick_bound d uid (d.length + 1) 0
  by_cases hlt : pick d uid (d.length + 1) 0 < d.length + 1
  · -- the loop stopped before running out of probes: it stopped on a free name
    have stop : ∀ fuel k, pick d uid fuel k < k + fuel → exists? d (uid, pick d uid fuel k) = false := by
      intro fuel
      induction fuel with
      | zero => intro k h; simp [pick] at h
      | succ f ih =>
        intro k h
        simp only [pick] at h ⊢
        split
        · rename_i he
          simp only [he, ↓reduceIte] at h
          exact ih (k + 1) (by omega)
        · rename_i he
          simpa using he
    exact stop (d.length + 1) 0 (by omega)
  · -- otherwise d.length + 1 distinct names would all exist
    exfalso
    have hall := pick_all_exist d uid (d.length + 1) 0
    have : d.length + 1 ≤ d.length := chain_le_length d uid (d.length + 1) (fun j hj => hall j (by omega) (by omega))
    omega

/-- **one store never clobbers**: every file that existed keeps its name and content, and exactly one
new name appears, holding the new instance -/
theorem store_never_clobbers (d : Dir) (uid : String) (content : List UInt8) :
    store d uid content = d ++ [(freshName d uid, content)] := by
  simp [store, freshName_new]

/-- **any history of stores** — same instance stored repeatedly, interleaved with others: the directory
after the history is the directory before followed by one new file per store; nothing earlier changed -/
theorem storage_never_clobbers (d : Dir) (hist : List (String × List UInt8)) :
    ∃ added, storeAll d hist = d ++ added ∧ added.length = hist.length ∧
      added.map (·.2) = hist.map (·.2) := by
  induction hist generalizing d with
  | nil => exact ⟨[], by simp [storeAll], rfl, rfl⟩
  | cons h rest ih =>
    obtain ⟨u, c⟩ := h
    simp only [storeAll, store_never_clobbers]
    obtain ⟨added, h1, h2, h3⟩ := ih (d ++ [(freshName d u, c)])
    exact ⟨(freshName d u, c) :: added, by rw [h1]; simp, by simp [h2], by simp [h3]⟩

/-- all names in the directory stay distinct (so "its own file" is meaningful) -/
theorem names_stay_distinct (d : Dir) (uid : String) (content : List UInt8) (h : (d.map (·.1)).Nodup) :
    ((store d uid content).map (·.1)).Nodup := by
  rw [store_never_clobbers]
  simp only [List.map_append, List.map_cons, List.map_nil]
  rw [List.nodup_append]
  refine ⟨h, by simp, ?_⟩
  intro a ha b hb
  simp only [List.mem_singleton] at hb
  subst hb
  intro heq; subst heq
  have := freshName_new d uid
  simp only [exists?, List.any_eq_false] at this
  obtain ⟨e, he, hfe⟩ := List.mem_map.mp ha
  have := this e he
  simp [hfe] at this

example : (storeAll [] [("1.2", [1]), ("1.2", [2]), ("9", [3]), ("1.2", [4])]).map (·.1)
    = [("1.2", 0), ("1.2", 1), ("9", 0), ("1.2", 2)] := by decide

/-! ### histories in which files are also taken away by something else -/

theorem applyOp_store (d : Dir) (u : String) (c : List UInt8) :
    applyOp d (.store u c) = d ++ [(freshName d u, c)] := by
  simp [applyOp, store_never_clobbers]

/-- one step keeps every file it does not remove, name and content -/
theorem op_keeps_others (d : Dir) (op : DirOp) (e : Name × List UInt8) (he : e ∈ d)
    (hk : ∀ n, op = .remove n → e.1 ≠ n) : e ∈ applyOp d op := by
  cases op with
  | store u c => rw [applyOp_store]; exact List.mem_append_left _ he
  | remove n =>
    simp only [applyOp, List.mem_filter, Bool.not_eq_eq_eq_not, Bool.not_true, beq_eq_false_iff_ne, ne_eq]
    exact ⟨he, hk n rfl⟩

/-- **any history of stores and removals**: a file that is in the directory and is never removed is still there,
with the same content, at the end - whatever was stored (same instance or others) and removed around it -/
theorem ops_keep_unremoved (d : Dir) (ops : List DirOp) (e : Name × List UInt8) (he : e ∈ d)
    (hk : ∀ n, DirOp.remove n ∈ ops → e.1 ≠ n) : e ∈ applyOps d ops := by
  induction ops generalizing d with
  | nil => exact he
  | cons op rest ih =>
    simp only [applyOps]
    apply ih
    · exact op_keeps_others d op e he (fun n h => hk n (by simp [h]))
    · intro n hn; exact hk n (by simp [hn])

/-- ... and every store of the history adds exactly one file, under a name no file had at that moment -/
theorem store_in_history_is_fresh (d : Dir) (ops : List DirOp) (u : String) (c : List UInt8) :
    applyOps d (ops ++ [.store u c]) = applyOps d ops ++ [(freshName (applyOps d ops) u, c)] ∧
    exists? (applyOps d ops) (freshName (applyOps d ops) u) = false := by
  constructor
  · induction ops generalizing d with
    | nil => simp [applyOps, applyOp_store]
    | cons op rest ih => simp only [List.cons_append, applyOps]; exact ih _
  · exact freshName_new _ _

theorem filter_names_nodup (d : Dir) (n : Name) (h : (d.map (·.1)).Nodup) :
    ((d.filter (fun e => !(e.1 == n))).map (·.1)).Nodup := by
  induction d with
  | nil => simp
  | cons x xs ih =>
    simp only [List.map_cons, List.nodup_cons] at h
    simp only [List.filter_cons]
    split
    · simp only [List.map_cons, List.nodup_cons]
      refine ⟨?_, ih h.2⟩
      intro hm
      obtain ⟨e, he, hen⟩ := List.mem_map.mp hm
      exact h.1 (List.mem_map.mpr ⟨e, (List.mem_filter.mp he).1, hen⟩)
    · exact ih h.2

/-- names stay distinct through any history of stores and removals -/
theorem ops_names_distinct (d : Dir) (ops : List DirOp) (h : (d.map (·.1)).Nodup) :
    ((applyOps d ops).map (·.1)).Nodup := by
  induction ops generalizing d with
  | nil => exact h
  | cons op rest ih =>
    simp only [applyOps]
    apply ih
    cases op with
    | store u c => exact names_stay_distinct d u c h
    | remove n => exact filter_names_nodup d n h

/-- the history a counting implementation gets wrong: two copies, the first taken away, a third store -/
example : (applyOps [] [.store "1.2" [1], .store "1.2" [2], .remove ("1.2", 0), .store "1.2" [3]])
    = [(("1.2", 1), [2]), (("1.2", 0), [3])] := by decide

/-! ### the data set end to end: fragmentation, PDU encoding, any TCP segmentation, framing, PDU decoding,
reassembly — the composition of C06, C01, C03 and C07 -/
open Dicom

/-- one fragment on the wire: a P-DATA-TF PDU with a single PDV (control header byte, then the fragment) -/
def pduOf (f : Frag) : Pdu := .pdata 0 [⟨f.pc, UInt8.ofNat f.mch :: f.body⟩]

def wireOf (f : Frag) : Bytes := (pduOf f).enc

/-- what the receiving DIMSE layer makes of a decoded P-DATA-TF: its PDVs as fragments -/
def fragsOfPdu : Pdu → List Frag
  | .pdata _ pdvs => pdvs.filterMap fun v => match v.value with
      | m :: body => some ⟨v.ctx, m.toNat, body⟩
      | [] => none
  | _ => []

theorem len32_enc_pdata (rsv : Nat) (pdvs : List Pdv) (h : (pdvs.map Pdv.totalLength).sum < 4294967296) :
    len32 (Pdu.pdata rsv pdvs).enc = (pdvs.map Pdv.totalLength).sum := by
  simp only [Pdu.enc, u8, be32, List.cons_append, List.nil_append, len32, UInt8.toNat_ofNat']
  omega

theorem wellframed_wire (f : Frag) (hb : f.body.length + 6 < 4294967296) :
    6 ≤ (wireOf f).length ∧ (wireOf f).length = len32 (wireOf f) + 6 := by
  have hl : (wireOf f).length = 6 + ([⟨f.pc, UInt8.ofNat f.mch :: f.body⟩].map Pdv.totalLength).sum := by
    simp [wireOf, pduOf, Pdu.enc, u8, encPdvs, Pdv.enc, Pdv.totalLength]; omega
  have hs : ([(⟨f.pc, UInt8.ofNat f.mch :: f.body⟩ : Pdv)].map Pdv.totalLength).sum < 4294967296 := by
    simp [Pdv.totalLength]; omega
  have := len32_enc_pdata 0 [⟨f.pc, UInt8.ofNat f.mch :: f.body⟩] hs
  unfold wireOf pduOf at *
  omega

theorem frame1_wellframed (p rest : Bytes) (h6 : 6 ≤ p.length) (hl : p.length = len32 p + 6) :
    frame1 (p ++ rest) = some (p, rest) := by
  unfold frame1
  have h1 : ¬ (p ++ rest).length < 6 := by simp; omega
  have h2 : len32 (p ++ rest) = len32 p := len32_append p rest h6
  have h3 : ¬ (p ++ rest).length < len32 p + 6 := by simp; omega
  simp only [h1, ↓reduceIte, h2, h3, Option.some.injEq, Prod.mk.injEq]
  rw [← hl]
  exact ⟨List.take_left, List.drop_left⟩

theorem frames_wellframed_list (ps : List Bytes) (h : ∀ p ∈ ps, 6 ≤ p.length ∧ p.length = len32 p + 6) :
    frames ps.flatten = (ps, []) := by
  induction ps with
  | nil => exact frames_none (by simp [frame1])
  | cons p ps ih =>
    obtain ⟨h6, hl⟩ := h p (by simp)
    simp only [List.flatten_cons]
    rw [frames_some (frame1_wellframed p ps.flatten h6 hl), ih (fun q hq => h q (by simp [hq]))]

theorem decode_wire (f : Frag) (hp : f.pc < 256) (hm : f.mch < 256) (hb : f.body.length + 6 < 4294967296) :
    (decodePdu (wireOf f)).map fragsOfPdu = some [f] := by
  have hwf : (pduOf f).WF := by
    simp [pduOf, Pdu.WF, Pdv.WF, Pdv.totalLength, hp]; omega
  rw [wireOf, decodePdu_enc _ hwf]
  simp [pduOf, fragsOfPdu, u8_toNat f.mch hm]

/-- **C15 (transport identity).** A message fragmented with any usable maximum length, each fragment
encoded as a P-DATA-TF PDU, the byte stream cut into TCP segments in *any* way, is framed into exactly
those PDUs with nothing left over, each decodes to its fragment, and the receiving decoder reassembles
exactly the command set and the data set that were sent, completing at the last PDU. -/
theorem store_end_to_end (noDs : Bytes → Bool) (pc maxLen : Nat) (cmd data : Bytes) (segs : List Bytes)
    (hpc : pc < 256) (hm : usableMax maxLen) (hc : cmd ≠ []) (hd : data ≠ []) (hno : noDs cmd = false)
    (hsz : effMax maxLen < 4294967296)
    (hs : segs.flatten = ((encodeMsg pc maxLen cmd (some data)).map wireOf).flatten) :
    segs.foldl feed ([], []) = ((encodeMsg pc maxLen cmd (some data)).map wireOf, []) ∧
    (∀ f ∈ encodeMsg pc maxLen cmd (some data), (decodePdu (wireOf f)).map fragsOfPdu = some [f]) ∧
    ∃ df, Dec.run noDs {} ((encodeMsg pc maxLen cmd (some data)).map ([·])) =
        some (df, (encodeMsg pc maxLen cmd (some data)).length) ∧
      df.receiving = false ∧ df.cmd = cmd ∧ df.data = data ∧ df.pc = pc := by
  have hfr : ∀ f ∈ encodeMsg pc maxLen cmd (some data),
      f.body.length + 6 < 4294967296 ∧ f.pc = pc ∧ f.mch < 256 := by
    intro f hf
    have h1 := C06.frag_size pc maxLen cmd (some data) hm f hf
    have hk : f.mch = 1 ∨ f.mch = 3 ∨ f.mch = 0 ∨ f.mch = 2 := by
      simp only [encodeMsg, List.mem_append] at hf
      rcases hf with hf | hf
      · have := (fragsOf_bound pc 1 3 _ cmd f hf).2.2.2; omega
      · have := (fragsOf_bound pc 0 2 _ data f hf).2.2.2; omega
    simp only [Frag.pduLength] at h1
    exact ⟨by omega, h1.2.2, by omega⟩
  refine ⟨?_, ?_, ?_⟩
  · rw [C03.segmentation_independent, hs]
    apply frames_wellframed_list
    intro p hp
    obtain ⟨f, hf, rfl⟩ := List.mem_map.mp hp
    exact wellframed_wire f (hfr f hf).1
  · intro f hf
    obtain ⟨h1, h2, h3⟩ := hfr f hf
    exact decode_wire f (by omega) h3 h1
  · have hg : ((encodeMsg pc maxLen cmd (some data)).map ([·])).flatten = encodeMsg pc maxLen cmd (some data) := by
      generalize encodeMsg pc maxLen cmd (some data) = l
      induction l with
      | nil => rfl
      | cons x xs ih => simp [ih]
    obtain ⟨df, h1, h2, h3, h4, h5⟩ := C07.reassembly_exact noDs pc maxLen cmd (some data)
      ((encodeMsg pc maxLen cmd (some data)).map ([·])) hg (by simp) hm hc
      (by intro d hd'; simp at hd'; subst hd'; exact hd) (by simp [hno])
    refine ⟨df, by simpa using h1, h2, h3, by simpa using h4, h5⟩

end Dicom.C15
