import Dicom.Model.Services
/-! # C16 — C-FIND returns exactly the matches the SCP produced, in order, then stops -/
namespace Dicom.C16
open Dicom.Svc

/-- **C16.** For any sequence of matches with pending statuses (either pending code, any mix, any
length, including none), what the query user yields from the provider's responses is exactly those
data sets with exactly those statuses, in order, followed by one final non-pending response — after
which iteration ends. -/
theorem find_exact (rq : Rq) (ctx : Nat) (ms : List (Bytes × Nat)) (h : ∀ m ∈ ms, isFindPending m.2 = true) :
    findScu (findScp rq ctx ms) = ms.map (fun m => (some m.1, m.2)) ++ [(none, SUCCESS)] := by
  induction ms with
  | nil => simp [findScp, findScu, isFindPending, SUCCESS]
  | cons m ms ih =>
    have hm := h m (by simp)
    have := ih (fun x hx => h x (by simp [hx]))
    simp only [findScp, List.map_cons, List.cons_append, findScu, hm, ↓reduceIte] at this ⊢
    rw [this]

/-- iteration stops at the first non-pending response whatever follows it -/
theorem stops_at_final (r : Rsp) (rest : List Rsp) (h : isFindPending r.status = false) :
    findScu (r :: rest) = [(r.ds, r.status)] := by
  simp [findScu, h]

/-- every response of the provider is on the request's context, correlates with it and is a C-FIND-RSP -/
theorem find_rsp_correlates (rq : Rq) (ctx : Nat) (ms : List (Bytes × Nat)) :
    ∀ r ∈ findScp rq ctx ms, r.ctx = ctx ∧ r.msgIdRsp = rq.msgId ∧ r.sopClass = rq.sopClass ∧ r.kind = 0x8020 := by
  intro r hr
  simp only [findScp, List.mem_append, List.mem_map, List.mem_singleton] at hr
  rcases hr with ⟨m, _, rfl⟩ | rfl <;> simp

example : isFindPending 0xFF00 = true ∧ isFindPending 0xFF01 = true ∧ isFindPending 0 = false := by decide

end Dicom.C16
