import Dicom.Model.Services
/-! # C17 — every SCP response correlates with its request (message id, UIDs, context) -/
namespace Dicom.C17
open Dicom.Svc

/-- the correlation every response must satisfy -/
def Correlates (rq : Rq) (ctx : Nat) (r : Rsp) : Prop :=
  r.ctx = ctx ∧ r.msgIdRsp = rq.msgId ∧ r.sopClass = rq.sopClass ∧
  (rq.sopInstance.isSome → r.sopInstance = rq.sopInstance) ∧ r.kind = rspKindOf rq.kind

theorem verification_correlates (rq : Rq) (ctx : Nat) (o : Outcome) (hk : rq.kind = 0x0030) (hi : rq.sopInstance = none) :
    (∀ r ∈ verificationScp rq ctx o, Correlates rq ctx r ∧ r.status = statusOf PROCESSING_FAILURE o) ∧
    verificationScp rq ctx o ≠ [] := by
  simp [verificationScp, Correlates, rspKindOf, hk, hi]

theorem storage_correlates (rq : Rq) (ctx : Nat) (o : Outcome) (hk : rq.kind = 0x0001) :
    (∀ r ∈ storageScp rq ctx o, Correlates rq ctx r ∧ r.status = statusOf CANNOT_UNDERSTAND o) ∧
    storageScp rq ctx o ≠ [] := by
  simp [storageScp, Correlates, rspKindOf, hk]

theorem find_correlates (rq : Rq) (ctx : Nat) (ms : List (Bytes × Nat)) (hk : rq.kind = 0x0020) (hi : rq.sopInstance = none) :
    (∀ r ∈ findScp rq ctx ms, Correlates rq ctx r) ∧ findScp rq ctx ms ≠ [] := by
  constructor
  · intro r hr
    simp only [findScp, List.mem_append, List.mem_map, List.mem_singleton] at hr
    rcases hr with ⟨m, _, rfl⟩ | rfl <;> simp [Correlates, rspKindOf, hk, hi]
  · simp [findScp]

theorem moveLoop_correlates (rq : Rq) (ctx nop : Nat) (os : List SubOutcome) (hk : rq.kind = 0x0021)
    (hi : rq.sopInstance = none) : ∀ c, ∀ r ∈ moveLoop rq ctx nop os c, Correlates rq ctx r := by
  induction os with
  | nil => intro c r hr; simp [moveLoop] at hr
  | cons o os ih =>
    intro c r hr
    simp only [moveLoop, List.mem_cons] at hr
    rcases hr with rfl | hr
    · simp [Correlates, rspKindOf, hk, hi]
    · exact ih _ r hr

theorem move_correlates (rq : Rq) (ctx nop : Nat) (os : List SubOutcome) (hk : rq.kind = 0x0021) (hi : rq.sopInstance = none) :
    (∀ r ∈ moveScp rq ctx nop os, Correlates rq ctx r) ∧ moveScp rq ctx nop os ≠ [] := by
  unfold moveScp
  split
  · simp [Correlates, rspKindOf, hk, hi]
  · constructor
    · intro r hr
      simp only [List.mem_append, List.mem_singleton] at hr
      rcases hr with hr | rfl
      · exact moveLoop_correlates rq ctx nop os hk hi _ r hr
      · simp [Correlates, rspKindOf, hk, hi]
    · simp

theorem n_action_correlates (rq : Rq) (ctx : Nat) (o : Outcome) (hk : rq.kind = 0x0130) :
    (∀ r ∈ nActionScp rq ctx o, Correlates rq ctx r) ∧ nActionScp rq ctx o ≠ [] := by
  simp [nActionScp, Correlates, rspKindOf, hk]

theorem n_event_report_correlates (rq : Rq) (ctx : Nat) (o : Outcome) (hk : rq.kind = 0x0100) :
    (∀ r ∈ nEventReportScp rq ctx o, Correlates rq ctx r) ∧ nEventReportScp rq ctx o ≠ [] := by
  simp [nEventReportScp, Correlates, rspKindOf, hk]

/-- the C-STORE responses of the C-GET user: each incoming C-STORE request is answered, on the context
it arrived on, with its own message id, class and instance -/
theorem get_store_rsp_correlates : ∀ (l : List GetIn), ∀ r ∈ (getScu l).1,
    ∃ rq ctx o, GetIn.store rq ctx o ∈ l ∧ r.ctx = ctx ∧ r.msgIdRsp = rq.msgId ∧ r.sopClass = rq.sopClass ∧
      r.sopInstance = rq.sopInstance ∧ r.kind = 0x8001 ∧ r.status = statusOf CANNOT_UNDERSTAND o := by
  intro l
  induction l with
  | nil => intro r hr; simp [getScu] at hr
  | cons x xs ih =>
    intro r hr
    cases x with
    | getRsp s =>
      simp only [getScu] at hr
      split at hr
      · obtain ⟨rq, ctx, o, hm, h⟩ := ih r hr
        exact ⟨rq, ctx, o, by simp [hm], h⟩
      · simp at hr
    | store rq ctx o =>
      simp only [getScu, List.mem_cons] at hr
      rcases hr with rfl | hr
      · exact ⟨rq, ctx, o, by simp, rfl, rfl, rfl, rfl, rfl, rfl⟩
      · obtain ⟨rq', ctx', o', hm, h⟩ := ih r hr
        exact ⟨rq', ctx', o', by simp [hm], h⟩

end Dicom.C17
