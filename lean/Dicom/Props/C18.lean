import Dicom.Spec.StatusSpec
import Dicom.Generated.Statuses
/-! # C18 — status codes are classified totally and consistently

`Dicom.Generated.statusRuns` is regenerated on every run by evaluating the real
`Status(code, command)` for all 65 536 codes and every command class (and no class).  The theorems
below are re-checked by the kernel against that table; they speak about **every** code below 65 536,
lifted from decidable checks on the run lists by `findRun_total` / `admitted_of_compat` (no
enumeration of codes in Lean). -/
namespace Dicom.C18
open Dicom.StatusSpec Dicom.Generated

abbrev Run := Nat × Nat × Kind

/-- lookup of a code in a run list -/
def findRun : List Run → Nat → Option Kind
  | [], _ => none
  | (lo, hi, k) :: rs, c => if lo ≤ c ∧ c ≤ hi then some k else findRun rs c

/-- what the running code answers for `Status(code, command with field cf)` (cf = 0: no command) -/
def classify (cf code : Nat) : Option Kind :=
  match statusRuns.lookup cf with
  | some rs => findRun rs code
  | none => none

/-- runs are contiguous from `lo` and end at 65535 -/
def contig : Nat → List Run → Bool
  | lo, [] => lo == 65536
  | lo, (a, b, _) :: rs => a == lo && a ≤ b && contig (b + 1) rs

def contigS : Nat → List SRun → Bool
  | lo, [] => lo == 65536
  | lo, (a, b, _) :: rs => a == lo && a ≤ b && contigS (b + 1) rs

/-- every implementation run that overlaps a spec run carries a classification the spec admits -/
def compat (g : List Run) (s : List SRun) : Bool :=
  g.all fun r => s.all fun q => (r.2.1 < q.1 || q.2.1 < r.1) || q.2.2.contains r.2.2

/-! ### lemmas lifting the run-level checks to every code -/

theorem findRun_total (rs : List Run) :
    ∀ lo c, contig lo rs = true → lo ≤ c → c < 65536 →
      ∃ k, findRun rs c = some k ∧ ∃ r ∈ rs, r.2.2 = k ∧ r.1 ≤ c ∧ c ≤ r.2.1 := by
  induction rs with
  | nil => intro lo c h h1 h2; simp [contig] at h; omega
  | cons r rs ih =>
    obtain ⟨a, b, k⟩ := r
    intro lo c h h1 h2
    simp only [contig, Bool.and_eq_true, beq_iff_eq, decide_eq_true_eq] at h
    obtain ⟨⟨ha, hab⟩, hr⟩ := h
    subst ha
    by_cases hc : c ≤ b
    · exact ⟨k, by simp [findRun, h1, hc], (a, b, k), by simp, rfl, h1, hc⟩
    · have hc' : b + 1 ≤ c := by omega
      obtain ⟨k', hk, r', hr', hh⟩ := ih (b + 1) c hr hc' h2
      refine ⟨k', ?_, r', by simp [hr'], hh⟩
      simp only [findRun]
      have : ¬ (a ≤ c ∧ c ≤ b) := by omega
      simp [this, hk]

theorem findS_total (rs : List SRun) :
    ∀ lo c, contigS lo rs = true → lo ≤ c → c < 65536 →
      ∃ ks, findS rs c = some ks ∧ ∃ r ∈ rs, r.2.2 = ks ∧ r.1 ≤ c ∧ c ≤ r.2.1 := by
  induction rs with
  | nil => intro lo c h h1 h2; simp [contigS] at h; omega
  | cons r rs ih =>
    obtain ⟨a, b, k⟩ := r
    intro lo c h h1 h2
    simp only [contigS, Bool.and_eq_true, beq_iff_eq, decide_eq_true_eq] at h
    obtain ⟨⟨ha, hab⟩, hr⟩ := h
    subst ha
    by_cases hc : c ≤ b
    · exact ⟨k, by simp [findS, h1, hc], (a, b, k), by simp, rfl, h1, hc⟩
    · have hc' : b + 1 ≤ c := by omega
      obtain ⟨k', hk, r', hr', hh⟩ := ih (b + 1) c hr hc' h2
      refine ⟨k', ?_, r', by simp [hr'], hh⟩
      simp only [findS]
      have : ¬ (a ≤ c ∧ c ≤ b) := by omega
      simp [this, hk]

theorem admitted_of_compat (g : List Run) (s : List SRun) (h : compat g s = true)
    (r : Run) (hr : r ∈ g) (q : SRun) (hq : q ∈ s) (c : Nat)
    (h1 : r.1 ≤ c ∧ c ≤ r.2.1) (h2 : q.1 ≤ c ∧ c ≤ q.2.1) : r.2.2 ∈ q.2.2 := by
  simp only [compat, List.all_eq_true] at h
  have := h r hr q hq
  simp only [Bool.or_eq_true, decide_eq_true_eq] at this
  rcases this with (h' | h') | h'
  · omega
  · omega
  · simpa using h'

/-! ### kernel-checked facts about the regenerated table and the specification -/

/-- the 23 command fields of PS3.7 (§9.3, §10.3, Annex E.1) and 0 for "no command" -/
def commandFields : List Nat :=
  [0, 0x0001, 0x0010, 0x0020, 0x0021, 0x0030, 0x0100, 0x0110, 0x0120, 0x0130, 0x0140, 0x0150, 0x0FFF,
   0x8001, 0x8010, 0x8020, 0x8021, 0x8030, 0x8100, 0x8110, 0x8120, 0x8130, 0x8140, 0x8150]

/-- the table covers exactly the PS3.7 commands (and "no command") -/
theorem commands_complete : statusRuns.map (·.1) = commandFields := by decide

theorem runs_cover : ∀ e ∈ statusRuns, contig 0 e.2 = true := by decide

theorem spec_cover : ∀ cf ∈ commandFields, contigS 0 (specRuns cf) = true := by decide

/-- the specification itself only ever admits the five classifications -/
theorem spec_kinds : ∀ cf ∈ commandFields, ∀ q ∈ specRuns cf, ∀ k ∈ q.2.2,
    k ≠ Kind.other ∧ k ≠ Kind.badInt := by decide

theorem table_compat : ∀ e ∈ statusRuns, compat e.2 (specRuns e.1) = true := by decide

theorem lookup_mem : ∀ e ∈ statusRuns, ∃ rs, statusRuns.lookup e.1 = some rs ∧ (e.1, rs) ∈ statusRuns := by
  decide

/-! ### the property -/

/-- **C18.** For every command class (and none) and every 16-bit code the running code returns
exactly one classification, it is one of success / pending / warning / cancel / failure (exactly one
`is_*` flag set — anything else is tabulated as `other`), `int(status)` is the code (else `badInt`),
and the classification is one the standard admits for that service: 0000 success, the pending codes
pending, the service-specific ranges with their service's class, unknown codes failure. -/
theorem status_classification (cf code : Nat) (hcf : cf ∈ commandFields) (hc : code < 65536) :
    ∃ k, classify cf code = some k ∧ k ∈ allowed cf code ∧ k ≠ Kind.other ∧ k ≠ Kind.badInt := by
  rw [← commands_complete] at hcf
  simp only [List.mem_map] at hcf
  obtain ⟨e, he, rfl⟩ := hcf
  obtain ⟨rs, hrs, hmem⟩ := lookup_mem e he
  have hcov := runs_cover (e.1, rs) hmem
  obtain ⟨k, hk, r, hr, hkk, hr1, hr2⟩ := findRun_total rs 0 code hcov (Nat.zero_le _) hc
  have hcf' : e.1 ∈ commandFields := by
    rw [← commands_complete]; exact List.mem_map.mpr ⟨e, he, rfl⟩
  obtain ⟨ks, hks, q, hq, hqq, hq1, hq2⟩ :=
    findS_total (specRuns e.1) 0 code (spec_cover e.1 hcf') (Nat.zero_le _) hc
  have hadm := admitted_of_compat rs (specRuns e.1) (table_compat (e.1, rs) hmem) r hr q hq code
    ⟨hr1, hr2⟩ ⟨hq1, hq2⟩
  have hin : k ∈ allowed e.1 code := by
    simp only [allowed, hks, Option.getD_some]
    rw [← hqq, ← hkk]; exact hadm
  refine ⟨k, by simp [classify, hrs, hk], hin, ?_⟩
  have := spec_kinds e.1 hcf' q hq k (by rw [hqq]; simpa [allowed, hks] using hin)
  exact this

/-- 0x0000 is success for every command -/
theorem zero_is_success (cf : Nat) (hcf : cf ∈ commandFields) : classify cf 0 = some Kind.success := by
  obtain ⟨k, hk, hin, _⟩ := status_classification cf 0 hcf (by omega)
  have hall : ∀ c ∈ commandFields, allowed c 0 = [Kind.success] := by decide
  rw [hall cf hcf] at hin
  simp at hin; rw [hk, hin]

/-- the pending codes of C-FIND (FF00, FF01), C-GET (FF00) and C-MOVE (FF00) are pending -/
theorem pending_codes :
    classify 0x8020 0xFF00 = some Kind.pending ∧ classify 0x8020 0xFF01 = some Kind.pending ∧
    classify 0x8010 0xFF00 = some Kind.pending ∧ classify 0x8021 0xFF00 = some Kind.pending := by decide

/-- a code the standard does not define for the service is a failure: e.g. every code from 0x0117 to
0xA6FF for C-STORE, every code of 0xFF02..0xFFFF for C-FIND, and every non-zero code outside
{0001, 0107, 0116} when no service-specific table applies -/
theorem unknown_is_failure (cf code : Nat) (hcf : cf ∈ commandFields) (hc : code < 65536)
    (hu : allowed cf code = [Kind.failure]) : classify cf code = some Kind.failure := by
  obtain ⟨k, hk, hin, _⟩ := status_classification cf code hcf hc
  rw [hu] at hin; simp at hin; rw [hk, hin]

/-- service-specific entries win over the general table: B000 is a warning for C-STORE, C-GET and
C-MOVE while it is an (unknown) failure for C-FIND and C-ECHO -/
example : classify 0x8001 0xB000 = some .warning ∧ classify 0x8010 0xB000 = some .warning ∧
    classify 0x8021 0xB000 = some .warning ∧ classify 0x8020 0xB000 = some .failure ∧
    classify 0x8030 0xB000 = some .failure ∧ classify 0x8001 0xC123 = some .failure := by decide

-- non-vacuity of `unknown_is_failure`
example : allowed 0x8001 0x1234 = [Kind.failure] ∧ (0x8001 ∈ commandFields) := by decide

end Dicom.C18
