import Dicom.Model.Services
/-! # C19 — retrieve (C-GET / C-MOVE): each sub-operation exactly once, true progress -/
namespace Dicom.C19
open Dicom.Svc

theorem moveLoop_length (rq : Rq) (ctx nop : Nat) (os : List SubOutcome) : ∀ c, (moveLoop rq ctx nop os c).length = os.length := by
  induction os with
  | nil => intro c; rfl
  | cons o os ih => intro c; simp [moveLoop, ih]

/-- the k-th pending response (0-based, k < number of sub-operations) reports k+1 performed -/
theorem moveLoop_progress (rq : Rq) (ctx nop : Nat) (os : List SubOutcome) :
    ∀ (c : Counters) (k : Nat) (hk : k < (moveLoop rq ctx nop os c).length),
      ((moveLoop rq ctx nop os c)[k]).counters.map (fun x => (x.completed, x.remaining))
        = some (c.completed + k + 1, nop - (c.completed + k + 1)) ∧
      ((moveLoop rq ctx nop os c)[k]).status = MOVE_PENDING := by
  induction os with
  | nil => intro c k hk; simp [moveLoop] at hk
  | cons o os ih =>
    intro c k hk
    cases k with
    | zero => simp [moveLoop]
    | succ k =>
      simp only [moveLoop, List.getElem_cons_succ]
      have := ih { c with completed := c.completed + 1, failed := c.failed + (if o = .failure then 1 else 0),
                          warning := c.warning + (if o = .warning then 1 else 0) } k
        (by simp only [moveLoop, List.length_cons] at hk; omega)
      simp only at this
      constructor
      · rw [this.1]; congr 2 <;> omega
      · exact this.2

theorem finalCounters_completed (os : List SubOutcome) : ∀ c, (finalCounters os c).completed = c.completed + os.length := by
  induction os with
  | nil => intro c; rfl
  | cons o os ih => intro c; simp [finalCounters, ih]; omega

/-- **true progress.** When the application supplies `nop > 0` instances and performs them all, the
response after the k-th sub-operation (k = 1..nop) counts k as performed and nop − k as remaining. -/
theorem move_progress (rq : Rq) (ctx nop : Nat) (os : List SubOutcome) (hn : nop ≠ 0) (k : Nat) (hk : k < os.length) :
    ∃ r, (moveScp rq ctx nop os)[k]? = some r ∧ r.status = MOVE_PENDING ∧
      r.counters.map (fun x => (x.completed, x.remaining)) = some (k + 1, nop - (k + 1)) := by
  unfold moveScp
  simp only [hn, ↓reduceIte]
  have hl := moveLoop_length rq ctx nop os ⟨0, 0, 0, 0⟩
  have hk' : k < (moveLoop rq ctx nop os ⟨0, 0, 0, 0⟩).length := by omega
  rw [List.getElem?_append_left hk', List.getElem?_eq_getElem hk']
  have := moveLoop_progress rq ctx nop os ⟨0, 0, 0, 0⟩ k hk'
  refine ⟨_, rfl, this.2, ?_⟩
  simpa using this.1

/-- **exactly one final response, and it is last** — also when there is nothing to move -/
theorem move_one_final (rq : Rq) (ctx nop : Nat) (os : List SubOutcome) :
    ∃ init last, moveScp rq ctx nop os = init ++ [last] ∧ last.status = SUCCESS ∧
      (∀ r ∈ init, r.status = MOVE_PENDING) ∧
      last.counters.map (·.completed) = some (if nop = 0 then 0 else os.length) := by
  unfold moveScp
  split
  · exact ⟨[], _, rfl, rfl, by simp, rfl⟩
  · refine ⟨_, _, rfl, rfl, ?_, ?_⟩
    · intro r hr
      obtain ⟨k, hk, rfl⟩ := List.getElem_of_mem hr
      exact (moveLoop_progress rq ctx nop os ⟨0, 0, 0, 0⟩ k hk).2
    · simp [finalCounters_completed]

/-- the final response of a complete move reports everything performed and nothing remaining -/
theorem move_final_complete (rq : Rq) (ctx : Nat) (os : List SubOutcome) (hn : os.length ≠ 0) :
    ∃ last, (moveScp rq ctx os.length os).getLast? = some last ∧
      last.counters.map (fun x => (x.completed, x.remaining)) = some (os.length, 0) := by
  unfold moveScp
  simp only [hn, ↓reduceIte, List.getLast?_append, List.getLast?_singleton, Option.some_or]
  exact ⟨_, rfl, by simp [finalCounters_completed]⟩

/-- **each sub-operation exactly once, in order**: the provider stores instance k with message id k -/
theorem move_each_once_in_order (n : Nat) : (moveSubOps n).map (·.1) = List.range n := by
  simp only [moveSubOps, List.map_map]
  conv => rhs; rw [← List.map_id (List.range n)]
  apply List.map_congr_left; intro k _; rfl

/-- **C-GET user**: every incoming C-STORE request is answered exactly once, in arrival order, up to the
final C-GET response; pending C-GET responses in between change nothing. -/
theorem get_answers_each_once (l : List GetIn) (hp : ∀ s, GetIn.getRsp s ∈ l → isGetPending s = true) :
    (getScu l).1.map (fun r => (r.ctx, r.msgIdRsp)) =
      l.filterMap (fun x => match x with | .store rq ctx _ => some (ctx, rq.msgId) | .getRsp _ => none) := by
  induction l with
  | nil => rfl
  | cons x xs ih =>
    have ih' := ih (fun s hs => hp s (by simp [hs]))
    cases x with
    | getRsp s =>
      have := hp s (by simp)
      simp [getScu, this, ih']
    | store rq ctx o => simp [getScu, ih']

/-- the final C-GET response ends the operation: nothing after it is answered or yielded -/
theorem get_stops_at_final (s : Nat) (rest : List GetIn) (h : isGetPending s = false) :
    getScu (.getRsp s :: rest) = ([], []) := by
  simp [getScu, h]

/-- instances are handed to the caller once each and in order (those the handler accepted) -/
theorem get_yields_in_order (l : List GetIn) (hp : ∀ s, GetIn.getRsp s ∈ l → isGetPending s = true) :
    (getScu l).2 = l.filterMap (fun x => match x with
      | .store rq _ (.status _) => some rq | _ => none) := by
  induction l with
  | nil => rfl
  | cons x xs ih =>
    have ih' := ih (fun s hs => hp s (by simp [hs]))
    cases x with
    | getRsp s =>
      have := hp s (by simp)
      simp [getScu, this, ih']
    | store rq ctx o => cases o <;> simp [getScu, ih']

example : (moveScp ⟨0x21, 4, [1], none, none⟩ 1 2 [.success, .failure]).map (fun r => (r.status, r.counters.map (·.completed)))
    = [(0xFF00, some 1), (0xFF00, some 2), (0, some 2)] := by decide

end Dicom.C19
