import Dicom.Proofs.Provider3
/-! # C20 — concurrent associations on one application entity are isolated (model level)

A world of associations over one immutable configuration: each scheduler step advances exactly one
association.  Non-interference is then a theorem about the product system; its content for the code is
the claim that the code *is* such a product — no mutable state shared between associations — which is
what the threaded soak in the harness tests. -/
namespace Dicom.C20
open Dicom.Prov

/-- one scheduler step: association `i` performs one pass with tick `t`; the others do not move -/
def stepW (w : List P) (it : Nat × Tick) : List P := w.modify it.1 (fun p => (iter p it.2).1)

def runW (w : List P) (σ : List (Nat × Tick)) : List P := σ.foldl stepW w

/-- the ticks addressed to association `i`, in order -/
def project (σ : List (Nat × Tick)) (i : Nat) : List Tick := (σ.filter (fun it => it.1 = i)).map (·.2)

theorem run_append (p : P) (a b : List Tick) : (run p (a ++ b)).1 = (run (run p a).1 b).1 := by
  induction a generalizing p with
  | nil => simp [run]
  | cons t ts ih => simp only [List.cons_append, run]; exact ih _

/-- **non-interference**: whatever the interleaving of the associations' steps, the state of association
`i` is what it would be had it run alone with its own ticks -/
theorem noninterference (σ : List (Nat × Tick)) : ∀ (w : List P) (i : Nat),
    (runW w σ)[i]? = (w[i]?).map (fun p => (run p (project σ i)).1) := by
  induction σ with
  | nil => intro w i; simp [runW, project, run]
  | cons it rest ih =>
    intro w i
    simp only [runW, List.foldl_cons]
    have := ih (stepW w it) i
    simp only [runW] at this
    rw [this]
    unfold stepW project
    by_cases hi : it.1 = i
    · subst hi
      simp only [List.getElem?_modify_eq, List.filter_cons, decide_true, ↓reduceIte, List.map_cons]
      cases w[it.1]? with
      | none => rfl
      | some p => simp [run]
    · have hne : it.1 ≠ i := hi
      rw [List.getElem?_modify_ne _ _ hne]
      simp [List.filter_cons, hi]

/-- **failure is local**: an association that crashes (or is aborted) changes nothing in another one -/
theorem failure_is_local (σ : List (Nat × Tick)) (w : List P) (i j : Nat) (hij : i ≠ j) (extra : List Tick) :
    (runW w (σ ++ extra.map (fun t => (j, t))))[i]? = (runW w σ)[i]? := by
  rw [noninterference, noninterference]
  congr 2
  simp only [project, List.filter_append, List.map_append]
  have : (extra.map (fun t => (j, t))).filter (fun it => it.1 = i) = [] := by
    simp only [List.filter_eq_nil_iff, List.mem_map, decide_eq_true_eq]
    rintro _ ⟨t, _, rfl⟩
    exact fun h => hij h.symm
  simp [this]

/-! ### message ids of the convenience API (`_new_msg_id`, thread-local) -/

/-- the thread-local counter: absent before the first call -/
def newMsgId : Option Nat → Nat × Option Nat
  | none => (1, some 1)
  | some k => (k + 1, some (k + 1))

def callIds : Nat → Option Nat → List Nat
  | 0, _ => []
  | n + 1, s => (newMsgId s).1 :: callIds n (newMsgId s).2

theorem callIds_from (n : Nat) : ∀ k, callIds n (some k) = (List.range n).map (fun i => k + 1 + i) := by
  induction n with
  | zero => intro k; rfl
  | succ n ih =>
    intro k
    simp only [callIds, newMsgId, ih, List.range_succ_eq_map, List.map_cons, List.map_map]
    congr 1
    · apply List.map_congr_left; intro i _; simp; omega

/-- **message ids are unique within a thread**: the k-th call in a thread returns k -/
theorem msg_ids_unique (n : Nat) : callIds n none = (List.range n).map (· + 1) := by
  cases n with
  | zero => rfl
  | succ n =>
    simp only [callIds, newMsgId, callIds_from, List.range_succ_eq_map, List.map_cons, List.map_map]
    congr 1
    apply List.map_congr_left; intro i _; simp; omega

/-- ... hence no id is handed out twice in a thread, however many are drawn -/
theorem msg_ids_nodup (n : Nat) : (callIds n none).Nodup := by
  rw [msg_ids_unique]
  rw [List.nodup_iff_pairwise_ne, List.pairwise_map]
  exact List.Pairwise.imp (fun h => by omega) (List.nodup_iff_pairwise_ne.mp List.nodup_range)

end Dicom.C20
