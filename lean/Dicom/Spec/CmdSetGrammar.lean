import Dicom.Model.Bytes
/-! PS3.7 §6.3 / Annex E, PS3.5 §7.1: a command set is a sequence of data elements of group 0000 in
implicit VR little endian — tag (group 2 bytes LE, element 2 bytes LE), value length (4 bytes LE,
even), value — in ascending tag order, the first being Command Group Length (0000,0000) whose UL
value is the number of bytes that follow it.  Strict reader, written from the standard. -/
namespace Dicom.Spec

/-- strict element-by-element reader; `none` on any truncation or odd length -/
def readElems : Nat → Bytes → Option (List (Nat × Bytes))
  | 0, _ => none
  | f + 1, bs =>
    if bs = [] then some [] else
    match rdLe16 bs with
    | none => none
    | some (g, r1) =>
      match rdLe16 r1 with
      | none => none
      | some (e, r2) =>
        match rdLe32 r2 with
        | none => none
        | some (len, r3) =>
          if len % 2 ≠ 0 ∨ r3.length < len then none
          else (readElems f (r3.drop len)).map (fun l => (g * 65536 + e, r3.take len) :: l)

def strictlyAscending : List Nat → Bool
  | a :: b :: r => a < b && strictlyAscending (b :: r)
  | _ => true

structure CmdView where
  groupLength : Nat        -- value of (0000,0000)
  following : Nat          -- bytes that follow the group length element
  ascending : Bool
  allGroup0 : Bool
  commandField : Option Nat
  dataSetType : Option Nat
  tags : List Nat
deriving Repr

def leVal (b : Bytes) : Option Nat :=
  match b with
  | [a, b] => some (a.toNat + b.toNat * 256)
  | [a, b, c, d] => some (a.toNat + b.toNat * 256 + c.toNat * 65536 + d.toNat * 16777216)
  | _ => none

/-- read a command set strictly; `none` = not a well-formed command group -/
def readCmd (bs : Bytes) : Option CmdView :=
  match readElems (bs.length + 1) bs with
  | some ((0, gl) :: rest) =>
    match leVal gl with
    | some n =>
      if gl.length = 4 then
        some { groupLength := n, following := bs.length - 12,
               ascending := strictlyAscending (0 :: rest.map (·.1)),
               allGroup0 := rest.all (fun e => e.1 < 65536),
               commandField := (rest.find? (fun e => e.1 = 0x0100)).bind (fun e => leVal e.2),
               dataSetType := (rest.find? (fun e => e.1 = 0x0800)).bind (fun e => leVal e.2),
               tags := 0 :: rest.map (·.1) }
      else none
    | none => none
  | _ => none

end Dicom.Spec
