/-! PS3.7 §9.3, §10.3, Annex E.1: the 23 command fields and the message they identify
(named by the class this library uses for it). -/
namespace Dicom.Spec

def commandFieldTable : List (Nat × String) := [
  (0x0001, "CStoreRQMessage"), (0x0010, "CGetRQMessage"), (0x0020, "CFindRQMessage"),
  (0x0021, "CMoveRQMessage"), (0x0030, "CEchoRQMessage"),
  (0x0100, "NEventReportRQMessage"), (0x0110, "NGetRQMessage"), (0x0120, "NSetRQMessage"),
  (0x0130, "NActionRQMessage"), (0x0140, "NCreateRQMessage"), (0x0150, "NDeleteRQMessage"),
  (0x0FFF, "CCancelRQMessage"),
  (0x8001, "CStoreRSPMessage"), (0x8010, "CGetRSPMessage"), (0x8020, "CFindRSPMessage"),
  (0x8021, "CMoveRSPMessage"), (0x8030, "CEchoRSPMessage"),
  (0x8100, "NEventReportRSPMessage"), (0x8110, "NGetRSPMessage"), (0x8120, "NSetRSPMessage"),
  (0x8130, "NActionRSPMessage"), (0x8140, "NCreateRSPMessage"), (0x8150, "NDeleteRSPMessage")]

end Dicom.Spec
