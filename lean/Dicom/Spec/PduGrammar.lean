import Dicom.Model.Pdu
/-! PS3.8 §9.3.2–9.3.8 and PS3.7 Annex D.3.3: a **strict, length-driven** reader of PDUs, written from
the tables of the standard.  Every length field delimits a slice; the slice must exist and must be
consumed exactly; field widths and type codes are the literals of the standard.  Unknown
sub-item types inside User Information are kept as opaque items.  The result reuses the value types
of the model (`Pdu`, `Item`, `SubItem`); AE titles are returned as the 16 raw bytes of the field. -/
namespace Dicom.Spec
open Dicom

/-- exactly `n` bytes, or fail -/
def slice (n : Nat) (s : Bytes) : Option (Bytes × Bytes) :=
  if s.length < n then none else some (s.take n, s.drop n)

/-- type (1) reserved (1) length (2), then exactly `length` bytes -/
def tlv (s : Bytes) : Option (Nat × Nat × Bytes × Bytes) :=
  match s with
  | t :: r :: a :: b :: rest =>
    (slice (a.toNat * 256 + b.toNat) rest).map fun (v, rest') => (t.toNat, r.toNat, v, rest')
  | _ => none

/-- PS3.7 D.3.3.x sub-items of the User Information item -/
def parseSub (t rsv : Nat) (v : Bytes) : Option SubItem :=
  if t = 0x51 then            -- Maximum Length: length 4, maximum-length-received (4)
    match v with
    | [a, b, c, d] => some (.maxLen rsv 4 (a.toNat * 16777216 + b.toNat * 65536 + c.toNat * 256 + d.toNat))
    | _ => none
  else if t = 0x52 then some (.implClass rsv v)          -- Implementation Class UID
  else if t = 0x53 then       -- Asynchronous Operations Window: length 4, invoked (2), performed (2)
    match v with
    | [a, b, c, d] => some (.asyncOps rsv 4 (a.toNat * 256 + b.toNat) (c.toNat * 256 + d.toNat))
    | _ => none
  else if t = 0x54 then       -- SCP/SCU Role Selection: uid-length (2), uid, scu-role (1), scp-role (1)
    match rd16 v with
    | some (ul, r) => match slice ul r with
      | some (uid, [scu, scp]) => some (.role rsv uid scu.toNat scp.toNat)
      | _ => none
    | none => none
  else if t = 0x55 then some (.implVersion rsv v)        -- Implementation Version Name
  else if t = 0x56 then       -- SOP Class Extended Negotiation: uid-length (2), uid, application information
    match rd16 v with
    | some (ul, r) => (slice ul r).map fun (uid, info) => .extNeg rsv uid info
    | none => none
  else if t = 0x58 then       -- User Identity (RQ): type (1), positive-response-requested (1), primary-length (2),
                              -- primary, secondary-length (2), secondary
    match v with
    | ty :: pr :: r => match rd16 r with
      | some (pl, r1) => match slice pl r1 with
        | some (p, r2) => match rd16 r2 with
          | some (sl, r3) => match slice sl r3 with
            | some (sc, []) => some (.userId rsv ty.toNat pr.toNat p sc)
            | _ => none
          | none => none
        | none => none
      | none => none
    | _ => none
  else if t = 0x59 then       -- User Identity (AC): server-response-length (2), server response
    match rd16 v with
    | some (rl, r) => match slice rl r with
      | some (x, []) => some (.userIdAc rsv x)
      | _ => none
    | none => none
  else some (.generic t rsv v)

def parseSubs : Nat → Bytes → Option (List SubItem)
  | 0, _ => none
  | _ + 1, [] => some []
  | f + 1, s =>
    match tlv s with
    | some (t, rsv, v, rest) =>
      match parseSub t rsv v with
      | some x => (parseSubs f rest).map (x :: ·)
      | none => none
    | none => none

/-- a run of Transfer Syntax sub-items (0x40) filling the slice exactly -/
def parseTss : Nat → Bytes → Option (List TsSub)
  | 0, _ => none
  | _ + 1, [] => some []
  | f + 1, s =>
    match tlv s with
    | some (t, rsv, v, rest) => if t = 0x40 then (parseTss f rest).map (⟨rsv, v⟩ :: ·) else none
    | none => none

/-- variable items of A-ASSOCIATE-RQ (`rq = true`: 0x10, 0x20, 0x50) / -AC (0x10, 0x21, 0x50) -/
def parseItem (rq : Bool) (t rsv : Nat) (v : Bytes) : Option Item :=
  if t = 0x10 then some (.appCtx rsv v)
  else if t = 0x20 ∧ rq then        -- Presentation Context (RQ): id, 3 reserved, abstract syntax, transfer syntaxes
    match v with
    | id :: r2 :: r3 :: r4 :: r =>
      match tlv r with
      | some (0x30, ar, abs, r') => (parseTss (r'.length + 1) r').map fun ts => .pcRq rsv id.toNat r2.toNat r3.toNat r4.toNat ar abs ts
      | _ => none
    | _ => none
  else if t = 0x21 ∧ ¬ rq then      -- Presentation Context (AC): id, reserved, result/reason, reserved, one transfer syntax
    match v with
    | id :: r2 :: res :: r3 :: r =>
      match tlv r with
      | some (0x40, tr, ts, []) => some (.pcAc rsv id.toNat r2.toNat res.toNat r3.toNat ⟨tr, ts⟩)
      | _ => none
    | _ => none
  else if t = 0x50 then (parseSubs (v.length + 1) v).map (.userInfo rsv)
  else none

def parseItems (rq : Bool) : Nat → Bytes → Option (List Item)
  | 0, _ => none
  | _ + 1, [] => some []
  | f + 1, s =>
    match tlv s with
    | some (t, rsv, v, rest) =>
      match parseItem rq t rsv v with
      | some x => (parseItems rq f rest).map (x :: ·)
      | none => none
    | none => none

/-- Presentation Data Value items: item-length (4), context id (1), value (item-length − 1) -/
def parsePdvs : Nat → Bytes → Option (List Pdv)
  | 0, _ => none
  | _ + 1, [] => some []
  | f + 1, s =>
    match rd32 s with
    | some (il, r) =>
      if il = 0 then none else
      match slice il r with
      | some (c :: v, rest) => (parsePdvs f rest).map (⟨c.toNat, v⟩ :: ·)
      | _ => none
    | none => none

def parse32s : Nat → Bytes → Option (List Nat)
  | 0, [] => some []
  | 0, _ => none
  | n + 1, s => match rd32 s with
    | some (v, r) => (parse32s n r).map (v :: ·)
    | none => none

/-- a whole PDU: type (1), reserved (1), length (4), then exactly `length` bytes -/
def parsePdu (s : Bytes) : Option Pdu :=
  match s with
  | t :: r1 :: rest =>
    match rd32 rest with
    | some (len, body) =>
      if body.length ≠ len then none else
      if t.toNat = 1 ∨ t.toNat = 2 then
        -- protocol version (2), reserved (2), called AE title (16), calling AE title (16), reserved (32), items
        match rd16 body with
        | some (pv, b1) => match rd16 b1 with
          | some (r2, b2) => match slice 16 b2 with
            | some (called, b3) => match slice 16 b3 with
              | some (calling, b4) => match slice 32 b4 with
                | some (r3, b5) =>
                  match parse32s 8 r3, parseItems (t.toNat = 1) (b5.length + 1) b5 with
                  | some rsv3, some items =>
                    let a : Assoc := { rsv1 := r1.toNat, protoVer := pv, rsv2 := r2, called := called,
                                       calling := calling, rsv3 := rsv3, items := items }
                    some (if t.toNat = 1 then .rq a else .ac a)
                  | _, _ => none
                | none => none
              | none => none
            | none => none
          | none => none
        | none => none
      else if t.toNat = 3 then        -- A-ASSOCIATE-RJ: reserved, result, source, reason/diag
        match body with
        | [r2, res, src, rsn] => some (.rj r1.toNat r2.toNat res.toNat src.toNat rsn.toNat)
        | _ => none
      else if t.toNat = 4 then (parsePdvs (body.length + 1) body).map (.pdata r1.toNat)
      else if t.toNat = 5 then        -- A-RELEASE-RQ: reserved (4)
        match rd32 body with
        | some (r2, []) => some (.rlrq r1.toNat r2)
        | _ => none
      else if t.toNat = 6 then
        match rd32 body with
        | some (r2, []) => some (.rlrp r1.toNat r2)
        | _ => none
      else if t.toNat = 7 then        -- A-ABORT: reserved, reserved, source, reason/diag
        match body with
        | [r2, r3, src, rsn] => some (.abort r1.toNat r2.toNat r3.toNat src.toNat rsn.toNat)
        | _ => none
      else none
    | none => none
  | _ => none

/-- the 16-byte AE title fields with the padding removed, as the library reports them -/
def unpadTitles : Pdu → Pdu
  | .rq a => .rq { a with called := strip (· == 0) a.called, calling := strip (· == 0) a.calling }
  | .ac a => .ac { a with called := strip (· == 0) a.called, calling := strip (· == 0) a.calling }
  | p => p

end Dicom.Spec
