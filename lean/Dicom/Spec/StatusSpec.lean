/-! Status classification as the standard has it (PS3.7 Annex C, §9.1; PS3.4 Annexes B, C).
Written from the standard, not from the code.  Core Lean only. -/
namespace Dicom.StatusSpec

inductive Kind
  | success | pending | warning | cancel | failure
  | other      -- the implementation did not set exactly one of the five flags
  | badInt     -- int(Status(code)) ≠ code
deriving DecidableEq, Repr

def Kind.name : Kind → String
  | .success => "success" | .pending => "pending" | .warning => "warning" | .cancel => "cancel"
  | .failure => "failure" | .other => "other" | .badInt => "badInt"

/-- a run of codes `lo..hi` and the classifications the standard admits for it -/
abbrev SRun := Nat × Nat × List Kind

open Kind in
/-- General statuses (PS3.7 Annex C).  0000 success.  0001, 0107, 0116 are warnings in Annex C (the
library registers the latter two as failures; the property does not constrain them, both are
admitted).  Every other code is either a listed failure or unknown, hence failure. -/
def general : List SRun := [
  (0, 0, [success]),
  (1, 1, [warning, failure]),
  (2, 0x0106, [failure]),
  (0x0107, 0x0107, [warning, failure]),
  (0x0108, 0x0115, [failure]),
  (0x0116, 0x0116, [warning, failure]),
  (0x0117, 0xFFFF, [failure])]

open Kind in
/-- C-STORE-RSP (PS3.4 B.2.3): A7xx, A9xx, Cxxx failure; B000, B006, B007 warning. -/
def cStore : List SRun := [
  (0, 0, [success]), (1, 1, [warning, failure]), (2, 0x0106, [failure]),
  (0x0107, 0x0107, [warning, failure]), (0x0108, 0x0115, [failure]),
  (0x0116, 0x0116, [warning, failure]), (0x0117, 0xA6FF, [failure]),
  (0xA700, 0xA7FF, [failure]), (0xA800, 0xA8FF, [failure]), (0xA900, 0xA9FF, [failure]),
  (0xAA00, 0xAFFF, [failure]),
  (0xB000, 0xB000, [warning]), (0xB001, 0xB005, [failure]), (0xB006, 0xB007, [warning]),
  (0xB008, 0xBFFF, [failure]), (0xC000, 0xCFFF, [failure]), (0xD000, 0xFFFF, [failure])]

open Kind in
/-- C-FIND-RSP (PS3.4 C.4.1.1.4): A700, A900, Cxxx failure; FE00 cancel; FF00, FF01 pending.
FE00 is not registered by this library (it reports failure): cancel or failure admitted. -/
def cFind : List SRun := [
  (0, 0, [success]), (1, 1, [warning, failure]), (2, 0x0106, [failure]),
  (0x0107, 0x0107, [warning, failure]), (0x0108, 0x0115, [failure]),
  (0x0116, 0x0116, [warning, failure]), (0x0117, 0xFDFF, [failure]),
  (0xFE00, 0xFE00, [cancel, failure]), (0xFE01, 0xFEFF, [failure]),
  (0xFF00, 0xFF01, [pending]), (0xFF02, 0xFFFF, [failure])]

open Kind in
/-- C-GET-RSP / C-MOVE-RSP (PS3.4 C.4.3.1.4, C.4.2.1.5): A701, A702, (A801,) A900, Cxxx failure;
B000 warning; FE00 cancel; FF00 pending. -/
def cRetrieve : List SRun := [
  (0, 0, [success]), (1, 1, [warning, failure]), (2, 0x0106, [failure]),
  (0x0107, 0x0107, [warning, failure]), (0x0108, 0x0115, [failure]),
  (0x0116, 0x0116, [warning, failure]), (0x0117, 0xAFFF, [failure]),
  (0xB000, 0xB000, [warning]), (0xB001, 0xFDFF, [failure]),
  (0xFE00, 0xFE00, [cancel, failure]), (0xFE01, 0xFEFF, [failure]),
  (0xFF00, 0xFF00, [pending]), (0xFF01, 0xFFFF, [failure])]

/-- command field (0 = no command) ↦ admitted classification, as runs -/
def specRuns (cf : Nat) : List SRun :=
  if cf = 0x8001 then cStore
  else if cf = 0x8020 then cFind
  else if cf = 0x8010 ∨ cf = 0x8021 then cRetrieve
  else general

def findS : List SRun → Nat → Option (List Kind)
  | [], _ => none
  | (lo, hi, k) :: rs, c => if lo ≤ c ∧ c ≤ hi then some k else findS rs c

/-- the classifications the standard admits for `code` in a response of type `cf` -/
def allowed (cf code : Nat) : List Kind := (findS (specRuns cf) code).getD []

end Dicom.StatusSpec
