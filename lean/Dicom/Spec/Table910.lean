/-! PS3.8 §9.2: the upper-layer state machine — Table 9-10 and the action definitions of
Tables 9-6 … 9-9, transcribed from the standard (see DESIGN.md Appendix C).  Core Lean only. -/
namespace Dicom.UL

inductive St | s1 | s2 | s3 | s4 | s5 | s6 | s7 | s8 | s9 | s10 | s11 | s12 | s13
deriving DecidableEq, Repr

inductive Ev
  | e1 | e2 | e3 | e4 | e5 | e6 | e7 | e8 | e9 | e10 | e11 | e12 | e13 | e14 | e15 | e16 | e17 | e18 | e19
deriving DecidableEq, Repr

/-- PDU kinds -/
inductive K | rq | ac | rj | pdata | rlrq | rlrp | abort
deriving DecidableEq, Repr

inductive Act
  | ae1 | ae2 | ae3 | ae4 | ae5 | ae6 | ae7 | ae8 | dt1 | dt2
  | ar1 | ar2 | ar3 | ar4 | ar5 | ar6 | ar7 | ar8 | ar9 | ar10
  | aa1 | aa2 | aa3 | aa4 | aa5 | aa6 | aa7 | aa8
deriving DecidableEq, Repr

def St.ofNat? : Nat → Option St
  | 1 => some .s1 | 2 => some .s2 | 3 => some .s3 | 4 => some .s4 | 5 => some .s5 | 6 => some .s6
  | 7 => some .s7 | 8 => some .s8 | 9 => some .s9 | 10 => some .s10 | 11 => some .s11
  | 12 => some .s12 | 13 => some .s13 | _ => none

def St.toNat : St → Nat
  | .s1 => 1 | .s2 => 2 | .s3 => 3 | .s4 => 4 | .s5 => 5 | .s6 => 6 | .s7 => 7 | .s8 => 8 | .s9 => 9
  | .s10 => 10 | .s11 => 11 | .s12 => 12 | .s13 => 13

def Ev.ofNat? : Nat → Option Ev
  | 1 => some .e1 | 2 => some .e2 | 3 => some .e3 | 4 => some .e4 | 5 => some .e5 | 6 => some .e6
  | 7 => some .e7 | 8 => some .e8 | 9 => some .e9 | 10 => some .e10 | 11 => some .e11
  | 12 => some .e12 | 13 => some .e13 | 14 => some .e14 | 15 => some .e15 | 16 => some .e16
  | 17 => some .e17 | 18 => some .e18 | 19 => some .e19 | _ => none

def Ev.toNat : Ev → Nat
  | .e1 => 1 | .e2 => 2 | .e3 => 3 | .e4 => 4 | .e5 => 5 | .e6 => 6 | .e7 => 7 | .e8 => 8 | .e9 => 9
  | .e10 => 10 | .e11 => 11 | .e12 => 12 | .e13 => 13 | .e14 => 14 | .e15 => 15 | .e16 => 16
  | .e17 => 17 | .e18 => 18 | .e19 => 19

def K.name : K → String
  | .rq => "rq" | .ac => "ac" | .rj => "rj" | .pdata => "pdata" | .rlrq => "rlrq" | .rlrp => "rlrp"
  | .abort => "abort"

def allStates : List St := [.s1, .s2, .s3, .s4, .s5, .s6, .s7, .s8, .s9, .s10, .s11, .s12, .s13]
def allEvents : List Ev :=
  [.e1, .e2, .e3, .e4, .e5, .e6, .e7, .e8, .e9, .e10, .e11, .e12, .e13, .e14, .e15, .e16, .e17, .e18, .e19]

open St Ev Act in
/-- PS3.8 Table 9-10.  `none` = the standard defines no transition for the cell. -/
def table : Ev → St → Option Act
  | e1, s1 => some ae1
  | e2, s4 => some ae2
  | e3, s2 => some aa1 | e3, s5 => some ae3 | e3, s13 => some aa6
  | e3, s3 | e3, s6 | e3, s7 | e3, s8 | e3, s9 | e3, s10 | e3, s11 | e3, s12 => some aa8
  | e4, s2 => some aa1 | e4, s5 => some ae4 | e4, s13 => some aa6
  | e4, s3 | e4, s6 | e4, s7 | e4, s8 | e4, s9 | e4, s10 | e4, s11 | e4, s12 => some aa8
  | e5, s1 => some ae5
  | e6, s2 => some ae6 | e6, s13 => some aa7
  | e6, s3 | e6, s5 | e6, s6 | e6, s7 | e6, s8 | e6, s9 | e6, s10 | e6, s11 | e6, s12 => some aa8
  | e7, s3 => some ae7
  | e8, s3 => some ae8
  | e9, s6 => some dt1 | e9, s8 => some ar7
  | e10, s2 => some aa1 | e10, s6 => some dt2 | e10, s7 => some ar6 | e10, s13 => some aa6
  | e10, s3 | e10, s5 | e10, s8 | e10, s9 | e10, s10 | e10, s11 | e10, s12 => some aa8
  | e11, s6 => some ar1
  | e12, s2 => some aa1 | e12, s6 => some ar2 | e12, s7 => some ar8 | e12, s13 => some aa6
  | e12, s3 | e12, s5 | e12, s8 | e12, s9 | e12, s10 | e12, s11 | e12, s12 => some aa8
  | e13, s2 => some aa1 | e13, s7 => some ar3 | e13, s10 => some ar10 | e13, s11 => some ar3
  | e13, s13 => some aa6
  | e13, s3 | e13, s5 | e13, s6 | e13, s8 | e13, s9 | e13, s12 => some aa8
  | e14, s8 => some ar4 | e14, s9 => some ar9 | e14, s12 => some ar4
  | e15, s4 => some aa2
  | e15, s3 | e15, s5 | e15, s6 | e15, s7 | e15, s8 | e15, s9 | e15, s10 | e15, s11 | e15, s12 => some aa1
  | e16, s2 => some aa2 | e16, s13 => some aa2
  | e16, s3 | e16, s5 | e16, s6 | e16, s7 | e16, s8 | e16, s9 | e16, s10 | e16, s11 | e16, s12 => some aa3
  | e17, s2 => some aa5 | e17, s13 => some ar5
  | e17, s3 | e17, s4 | e17, s5 | e17, s6 | e17, s7 | e17, s8 | e17, s9 | e17, s10 | e17, s11 | e17, s12 => some aa4
  | e18, s2 => some aa2 | e18, s13 => some aa2
  | e19, s2 => some aa1 | e19, s13 => some aa7
  | e19, s3 | e19, s5 | e19, s6 | e19, s7 | e19, s8 | e19, s9 | e19, s10 | e19, s11 | e19, s12 => some aa8
  | _, _ => none

/-- Observable effects of an action, in order. -/
inductive Eff
  | sendUser              -- the user's own PDU (byte-identical to the encoding of the primitive)
  | send (k : K)          -- a PDU of kind k built by the provider (not A-ABORT)
  | sendAbort (src : Nat) -- an A-ABORT PDU built by the provider, with this source
  | indReceived           -- indication/confirmation carrying the received PDU itself
  | indAbort (src : Nat)  -- A-ABORT (src 0) / A-P-ABORT (src 2) indication built by the provider
  | indDimse              -- P-DATA indication: a complete DIMSE message handed to the user
  | close                 -- transport connection closed (close() and reference dropped)
  | connect               -- transport connection opened to the called address
  | tStart | tStop
  | tRestart              -- observation only: restart = stop + start
  | sendAbortAny          -- specification only: an A-ABORT PDU whose source the standard leaves open
deriving DecidableEq, Repr

/-- how the current primitive looks to the action: the variant of the test primitive -/
inductive Variant | v0 | v1
deriving DecidableEq, Repr

/-- result of presenting an event in a state -/
inductive Obs
  | rejected                       -- undefined cell: no effect at all, state unchanged
  | did (effs : List Eff) (next : St)
  | raised (what : String)         -- an exception other than the rejection of an undefined cell
  | rejectedWithEffects
deriving DecidableEq, Repr

open St Act Eff in
/-- PS3.8 Tables 9-6 … 9-9: effects and next state of each action.  `requestor` selects the AR-8
branch; `complete` says whether the P-DATA carried by the event completes a DIMSE message (this
library reassembles below the user: DT-2 / AR-6 indicate only complete messages). -/
def effects (a : Act) (requestor complete : Bool) : List Eff × St :=
  match a with
  | ae1 => ([connect], s4)
  | ae2 => ([sendUser], s5)
  | ae3 => ([indReceived], s6)
  | ae4 => ([indReceived, close], s1)
  | ae5 => ([tStart], s2)
  | ae6 => ([tStop, indReceived], s3)
  | ae7 => ([sendUser], s6)
  | ae8 => ([sendUser, tStart], s13)
  | dt1 => ([sendUser], s6)
  | dt2 => (if complete then [indDimse] else [], s6)
  | ar1 => ([send .rlrq], s7)
  | ar2 => ([indReceived], s8)
  | ar3 => ([indReceived, close], s1)
  | ar4 => ([send .rlrp, tStart], s13)
  | ar5 => ([tStop], s1)
  | ar6 => (if complete then [indDimse] else [], s7)
  | ar7 => ([sendUser], s8)
  | ar8 => ([indReceived], if requestor then s9 else s10)
  | ar9 => ([send .rlrp], s11)
  | ar10 => ([indReceived], s12)
  | aa1 => ([sendAbort 0, tStart], s13)     -- on Evt15 the PDU is the user's own (see `specCell`)
  | aa2 => ([tStop, close], s1)
  | aa3 => ([indReceived, close], s1)
  | aa4 => ([indAbort 2], s1)
  | aa5 => ([tStop], s1)
  | aa6 => ([], s13)
  | aa7 => ([sendAbortAny], s13)
  | aa8 => ([sendAbort 2, indAbort 2, tStart], s13)

/-- The specification of one cell: what must be observed when event `e` is presented in state `s`.
For Evt15 (A-ABORT request) AA-1 sends the user's own A-ABORT PDU. Variant v0 of a P-DATA-TF
completes a DIMSE message, v1 does not. -/
def specCell (requestor : Bool) (s : St) (e : Ev) (v : Variant) : Obs :=
  match table e s with
  | none => .rejected
  | some a =>
    if a = .aa1 ∧ e = .e15 then .did [.sendUser, .tStart] .s13
    else .did (effects a requestor (v == .v0)).1 (effects a requestor (v == .v0)).2

/-- does an observed effect meet the specified one?  Restarting ARTIM counts as starting it (AA-1:
"start or restart"); AA-7's A-ABORT may carry any source. -/
def effMatch : Eff → Eff → Bool
  | .tStart, .tStart => true
  | .tStart, .tRestart => true
  | .sendAbortAny, .sendAbort _ => true
  | a, b => a == b

def effsMatch : List Eff → List Eff → Bool
  | [], [] => true
  | a :: as, b :: bs => effMatch a b && effsMatch as bs
  | _, _ => false

/-- who can observe an effect: the peer / transport (0), the local user (1), the ARTIM timer (2) -/
def Eff.chan : Eff → Nat
  | .sendUser | .send _ | .sendAbort _ | .sendAbortAny | .close | .connect => 0
  | .indReceived | .indAbort _ | .indDimse => 1
  | .tStart | .tRestart | .tStop => 2

/-- effects compared as their observers see them: each observer's effects in order; how the effects of one
action interleave across observers (an indication and the close of the socket, say) is visible to nobody -/
def effsMatchByObserver (spec obs : List Eff) : Bool :=
  [0, 1, 2].all fun c => effsMatch (spec.filter (·.chan == c)) (obs.filter (·.chan == c))

/-- `obsMatch spec observed` -/
def obsMatch : Obs → Obs → Bool
  | .rejected, .rejected => true
  | .did es n, .did es' n' => effsMatchByObserver es es' && n == n'
  | _, _ => false

end Dicom.UL
