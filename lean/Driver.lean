import Dicom.Model.Bytes
import Dicom.Spec.StatusSpec
import Dicom.Spec.Table910
import Dicom.Model.Framing
import Dicom.Model.Dimse
import Dicom.Model.Limits
import Dicom.Model.PduCanon
import Dicom.Model.CmdSet
import Dicom.Spec.CmdSetGrammar
import Dicom.Spec.CommandFields
import Dicom.Spec.PduGrammar
import Dicom.Model.Provider
import Dicom.Model.Negotiation
import Dicom.Model.Services
import Dicom.Model.Storage
/-! Line-protocol driver: one op per input line, one output line per op.
Imports models and specifications only (never Generated or Props), core Lean only. -/
open Dicom

def parseKind (s : String) : Option StatusSpec.Kind :=
  match s with
  | "success" => some .success | "pending" => some .pending | "warning" => some .warning
  | "cancel" => some .cancel | "failure" => some .failure | "other" => some .other
  | "badInt" => some .badInt | _ => none

/-- first code in lo..hi for which `k` is not admitted by the spec -/
def statusCheck (cf : Nat) (k : StatusSpec.Kind) (lo : Nat) : Nat → Option Nat
  | 0 => none
  | n + 1 => if (StatusSpec.allowed cf lo).contains k then statusCheck cf k (lo + 1) n else some lo

/-! ### C04: compact text form of observations -/
open Dicom.UL in
def effText : Eff → String
  | .sendUser => "sendUser" | .send k => s!"send.{k.name}" | .sendAbort n => s!"sendAbort.{n}"
  | .indReceived => "indReceived" | .indAbort n => s!"indAbort.{n}" | .indDimse => "indDimse"
  | .close => "close" | .connect => "connect" | .tStart => "tStart" | .tStop => "tStop"
  | .tRestart => "tRestart" | .sendAbortAny => "sendAbort.*"

open Dicom.UL in
def obsText : Obs → String
  | .rejected => "rejected"
  | .rejectedWithEffects => "rejectedWithEffects"
  | .raised w => s!"raised:{w}"
  | .did es n => s!"did:{";".intercalate (es.map effText)}:{n.toNat}"

open Dicom.UL in
def parseK : String → Option K
  | "rq" => some .rq | "ac" => some .ac | "rj" => some .rj | "pdata" => some .pdata
  | "rlrq" => some .rlrq | "rlrp" => some .rlrp | "abort" => some .abort | _ => none

open Dicom.UL in
def parseEff (s : String) : Option Eff :=
  match s.splitOn "." with
  | ["sendUser"] => some .sendUser
  | ["send", k] => (parseK k).map .send
  | ["sendAbort", n] => n.toNat?.map .sendAbort
  | ["indReceived"] => some .indReceived
  | ["indAbort", n] => n.toNat?.map .indAbort
  | ["indDimse"] => some .indDimse
  | ["close"] => some .close | ["connect"] => some .connect
  | ["tStart"] => some .tStart | ["tStop"] => some .tStop | ["tRestart"] => some .tRestart
  | _ => none

open Dicom.UL in
def parseObs (s : String) : Option Obs :=
  match s.splitOn ":" with
  | ["rejected"] => some .rejected
  | ["rejectedWithEffects"] => some .rejectedWithEffects
  | "raised" :: w => some (.raised (":".intercalate w))
  | ["did", es, n] =>
    match n.toNat?.bind St.ofNat? with
    | none => none
    | some st =>
      if es = "" then some (.did [] st)
      else ((es.splitOn ";").mapM parseEff).map fun l => .did l st
  | _ => none

/-! ### C03 / C06 / C07 ops -/
def fragText (f : Frag) : String := s!"{f.pc}.{f.mch}.{bytesToHex f.body}"

def parseFrag (s : String) : Option Frag :=
  match s.splitOn "." with
  | [pc, mch, hex] =>
    match pc.toNat?, mch.toNat?, hexToBytes hex with
    | some pc, some mch, some b => some ⟨pc, mch, b⟩
    | _, _, _ => none
  | _ => none

def decText (d : Dec) : String :=
  s!"recv={d.receiving} cmdDone={d.cmdDone} dataDone={d.dataDone} pc={d.pc} cmd={bytesToHex d.cmd} data={bytesToHex d.data}"

/-- decoder run that also reports, per PDU, whether the decoder is still receiving afterwards -/
def decTrace (noDs : Bool) : Dec → List (List Frag) → List String
  | _, [] => []
  | d, p :: ps =>
    match Dec.pdu (fun _ => noDs) d p with
    | none => ["error"]
    | some d' => if d'.receiving then "recv" :: decTrace noDs d' ps else ["done " ++ decText d']

/-! ### C08 ops -/
def parseElem (s : String) : Option Elem :=
  match s.splitOn ":" with
  | [t, v] => match t.toNat?, hexToBytes v with
    | some t, some v => some ⟨t, v⟩
    | _, _ => none
  | _ => none

def parseMsgOp (s : String) : Option MsgOp :=
  match s.splitOn ":" with
  | ["F", t, v] => match t.toNat?, hexToBytes v with
    | some t, some v => some (.setField t v)
    | _, _ => none
  | ["D", "none"] => some (.setData none)
  | ["D", v] => (hexToBytes v).map fun b => .setData (some b)
  | ["S", pc, mx] => match pc.toNat?, mx.toNat? with
    | some pc, some mx => some (.send pc mx)
    | _, _ => none
  | _ => none

def cmdViewText (v : Spec.CmdView) : String :=
  s!"ok gl={v.groupLength} follow={v.following} asc={v.ascending} g0={v.allGroup0} cf={v.commandField.getD 99999} ds={v.dataSetType.getD 99999}"

/-! ### C05 / C12 / C13: provider model -/
open Dicom.Prov in
def parseRx : String → Option Rx
  | "rq" => some .rq | "ac" => some .ac | "rj" => some .rj | "pdataDone" => some .pdataDone
  | "pdataMore" => some .pdataMore | "pdataErr" => some .pdataErr | "rlrq" => some .rlrq
  | "rlrp" => some .rlrp | "abort" => some .abort | "invalid" => some .invalid | _ => none

open Dicom.Prov in
def parseTx (s : String) : Option Tx :=
  match s.splitOn "*" with
  | ["rq"] => some .rq | ["ac"] => some .ac | ["rj"] => some .rj | ["rlrq"] => some .rlrq
  | ["rlrp"] => some .rlrp | ["abort"] => some .abort
  | ["msg", n] => n.toNat?.map .msg
  | _ => none

open Dicom.Prov in
/-- tick text: `n=idle|eof|d.rq+d.pdataDone ; u=ac+msg*2 ; t=<dt> ; f=0|1`, fields separated by `,` -/
def parseTick (s : String) : Option Tick :=
  (s.splitOn ",").foldlM (fun (t : Tick) (kv : String) =>
    match kv.splitOn "=" with
    | ["n", "idle"] => some { t with net := .idle }
    | ["n", "eof"] => some { t with net := .eof }
    | ["n", "err"] => some { t with net := .eof }          -- connection reset: recv raises, handled as end of stream
    | ["n", "part"] => some { t with net := .data [] }     -- bytes that do not complete a PDU
    | ["n", v] => ((v.splitOn "+").mapM parseRx).map fun l => { t with net := .data l }
    | ["u", v] => if v = "" then some t else ((v.splitOn "+").mapM parseTx).map fun l => { t with enq := l }
    | ["t", v] => v.toNat?.map fun d => { t with dt := d }
    | ["f", v] => some { t with sendFails := v = "1" }
    | _ => none) {}

open Dicom.Prov in
def outText : Out → String
  | .send k => s!"send.{k.name}" | .sendAbort n => s!"sendAbort.{n}" | .ind k => s!"ind.{k.name}"
  | .indAbort n => s!"indAbort.{n}" | .indDimse => "indDimse" | .close => "close" | .connect => "connect"
  | .tStart => "tStart" | .tStop => "tStop" | .tRestart => "tRestart" | .crash => "crash"

open Dicom.Prov in
def provTrace : P → List Tick → List String
  | _, [] => []
  | p, t :: ts =>
    let r := iter p t
    s!"st={r.1.st.toNat} sock={r.1.sock} tmr={r.1.timer} crashed={r.1.crashed} out={",".intercalate (r.2.map outText)}"
      :: provTrace r.1 ts

/-! ### C09 / C11 ops -/
def parseUids (s : String) : Option (List Bytes) :=
  if s = "" || s = "-" then some [] else (s.splitOn "+").mapM hexToBytes

open Dicom.Neg in
def parsePcRq (s : String) : Option PcRq :=
  match s.splitOn ":" with
  | [id, abs, ts] => match id.toNat?, hexToBytes abs, parseUids ts with
    | some id, some abs, some ts => some ⟨id, abs, ts⟩
    | _, _, _ => none
  | _ => none

open Dicom.Neg in
def parsePcAc (s : String) : Option PcAc :=
  match s.splitOn ":" with
  | [id, res, ts] => match id.toNat?, res.toNat?, hexToBytes ts with
    | some id, some res, some ts => some ⟨id, res, ts⟩
    | _, _, _ => none
  | _ => none

def step (line : String) : String :=
  match line.trimAscii.toString.splitOn " " with
  | ["ping"] => "pong"
  | ["status-allowed", cf, code] =>
    match cf.toNat?, code.toNat? with
    | some cf, some code => " ".intercalate ((StatusSpec.allowed cf code).map (·.name))
    | _, _ => "bad-op"
  | ["status-check", cf, lo, hi, k] =>
    match cf.toNat?, lo.toNat?, hi.toNat?, parseKind k with
    | some cf, some lo, some hi, some k =>
      match statusCheck cf k lo (hi + 1 - lo) with
      | none => "ok"
      | some c => s!"fail {c} allowed={" ".intercalate ((StatusSpec.allowed cf c).map (·.name))}"
    | _, _, _, _ => "bad-op"
  | ["fsm-cell", r, st, ev, v, obs] =>
    match r.toNat?, st.toNat?.bind UL.St.ofNat?, ev.toNat?.bind UL.Ev.ofNat?, v.toNat?, parseObs obs with
    | some r, some st, some ev, some v, some o =>
      if UL.obsMatch (UL.specCell (r != 0) st ev (if v = 0 then .v0 else .v1)) o then "ok"
      else s!"fail spec={obsText (UL.specCell (r != 0) st ev (if v = 0 then .v0 else .v1))}"
    | _, _, _, _, _ => "bad-op"
  | ["fsm-table", st, ev] =>
    match st.toNat?.bind UL.St.ofNat?, ev.toNat?.bind UL.Ev.ofNat? with
    | some st, some ev => match UL.table ev st with
      | some a => reprStr a
      | none => "-"
    | _, _ => "bad-op"
  | "frames" :: segs =>
    match segs.mapM hexToBytes with
    | some bs =>
      let r := bs.foldl feed ([], [])
      s!"{",".intercalate (r.1.map bytesToHex)} | {bytesToHex r.2}"
    | none => "bad-op"
  | ["frag", kind, pc, mx, cmd, data] =>
    match pc.toNat?, mx.toNat?, hexToBytes cmd, (if data = "none" then some none else (hexToBytes data).map some) with
    | some pc, some mx, some cmd, some data =>
      let fs := if kind = "file" then encodeMsgFile pc mx cmd data else encodeMsg pc mx cmd data
      " ".intercalate (fs.map fragText)
    | _, _, _, _ => "bad-op"
  | ["fragn", kind, pc, n, cmd, data] =>
    -- the stream for an explicit fragment size (an implementation may choose any size that fits)
    match pc.toNat?, n.toNat?, hexToBytes cmd, (if data = "none" then some none else (hexToBytes data).map some) with
    | some pc, some n, some cmd, some data =>
      let fs := if kind = "file" then encodeMsgFileN pc n cmd data else encodeMsgN pc n cmd data
      " ".intercalate (fs.map fragText)
    | _, _, _, _ => "bad-op"
  | "dec" :: noDs :: groups =>
    match (groups.mapM fun g => (g.splitOn ",").mapM parseFrag) with
    | some gs => " ".intercalate (decTrace (noDs = "1") {} gs)
    | none => "bad-op"
  | "dir-ops" :: ops =>
    -- the storage directory under stores (s:uid:contenthex) and removals (r:uid:k); output: the files, sorted by name
    -- (a removal may also name its victim by content, r@contenthex: how an implementation spells its file names is its
    -- own business; which instance a file holds is not)
    let step (d : Option Store.Dir) (o : String) : Option Store.Dir :=
      d.bind fun d =>
      match o.splitOn ":" with
      | ["s", u, c] => (hexToBytes c).map fun c => Store.applyOp d (.store u c)
      | ["r", u, k] => k.toNat?.map fun k => Store.applyOp d (.remove (u, k))
      | _ =>
        match o.splitOn "@" with
        | ["r", c] => (hexToBytes c).bind fun c => (d.find? (fun e => e.2 == c)).map fun e => Store.applyOp d (.remove e.1)
        | _ => none
    match ops.foldl step (some []) with
    | some d =>
      let names := d.map fun e => s!"{e.1.1}#{e.1.2}={bytesToHex e.2}"
      " ".intercalate (names.toArray.qsort (· < ·)).toList
    | none => "bad-op"
  | ["limits", own, peer] =>
    match own.toNat?, peer.toNat? with
    | some own, some peer => s!"acc={acceptorLimit own peer} ann={acceptorAnnounce own peer} req={requesterLimit own peer}"
    | _, _ => "bad-op"
  | ["dec-pdu", hex] =>
    match hexToBytes hex with
    | some bs => match decodePdu bs with
      | some p => s!"{p.canon} | {bytesToHex p.enc} | {p.totalLength}"
      | none => "error"
    | none => "bad-op"
  | ["spec-pdu", hex] =>
    match hexToBytes hex with
    | some bs => match Spec.parsePdu bs with
      | some p => (Spec.unpadTitles p).canon
      | none => "reject"
    | none => "bad-op"
  | ["prov", role, ticks] =>
    match (ticks.splitOn ";").mapM parseTick with
    | some ts => " | ".intercalate (provTrace (if role = "acc" then Prov.initAcc else Prov.initReq) ts)
    | none => "bad-op"
  | "accept" :: scp :: ts :: ctxs =>
    match parseUids scp, parseUids ts, ctxs.mapM parsePcRq with
    | some scp, some ts, some cs =>
      let r := Neg.accept ⟨scp, ts⟩ cs
      s!"{";".intercalate (r.1.map fun a => s!"{a.id}:{a.result}:{hx a.ts}")} | {";".intercalate (r.2.map fun e => s!"{e.1}:{hx e.2.1}:{hx e.2.2}")}"
    | _, _, _ => "bad-op"
  | "agree" :: scp :: ts :: ctxs =>
    -- both ends: the acceptor answers the request, the requester processes the answer; the requester's table by id
    match parseUids scp, parseUids ts, ctxs.mapM parsePcRq with
    | some scp, some ts, some cs =>
      match Neg.processAc (cs.map fun c => (c.id, c.abs)) (Neg.accept ⟨scp, ts⟩ cs).1 {} with
      | some u => ";".intercalate ((u.byId.mergeSort (fun a b => a.1 ≤ b.1)).map fun e => s!"{e.1}:{hx e.2.1}:{hx e.2.2}")
      | none => "keyerror"
    | _, _, _ => "bad-op"
  | "add-calls" :: calls =>
    match calls.mapM parseUids with
    | some cs => ";".intercalate ((Neg.addCalls cs).map fun e => s!"{e.1}:{hx e.2}")
    | none => "bad-op"
  | "process-ac" :: scu :: proposed :: reply =>
    -- process-ac <scu classes a+b> <proposed id.cls+id.cls> <reply id:res:ts ...>
    match parseUids scu, (if proposed = "-" then some [] else (proposed.splitOn "+").mapM fun e =>
            match e.splitOn "." with
            | [i, c] => match i.toNat?, hexToBytes c with
              | some i, some c => some (i, c)
              | _, _ => none
            | _ => none), reply.mapM parsePcAc with
    | some scu, some prop, some rep =>
      match Neg.processAc prop rep {} with
      | none => "keyerror"
      | some u =>
        let classes := (prop.map (·.2)).eraseDups
        s!"{";".intercalate (u.byId.map fun e => s!"{e.1}:{hx e.2.1}:{hx e.2.2}")} | {";".intercalate (classes.map fun c => match Neg.getScu u scu c with
          | some (i, t) => s!"{hx c}={i}:{hx t}"
          | none => s!"{hx c}=none")}"
    | _, _, _ => "bad-op"
  | ["svc-move", nop, outs] =>
    match nop.toNat? with
    | some nop =>
      let os := (if outs = "-" then [] else outs.toList).filterMap fun c =>
        if c = 's' then some Svc.SubOutcome.success else if c = 'w' then some .warning else if c = 'f' then some .failure else none
      let rq : Svc.Rq := { kind := 0x21, msgId := 0, sopClass := [] }
      ";".intercalate ((Svc.moveScp rq 0 nop os).map fun r => match r.counters with
        | some c => s!"{r.status}:{c.completed}:{c.remaining}:{c.failed}:{c.warning}"
        | none => s!"{r.status}:-")
    | none => "bad-op"
  | "svc-find" :: sts =>
    match sts.mapM String.toNat? with
    | some l =>
      let rq : Svc.Rq := { kind := 0x20, msgId := 0, sopClass := [] }
      let ms := l.zipIdx.map fun (st, i) => ([UInt8.ofNat i], st)
      ";".intercalate ((Svc.findScu (Svc.findScp rq 0 ms)).map fun y => s!"{match y.1 with | some b => bytesToHex b | none => "-"}:{y.2}")
    | none => "bad-op"
  | "svc-get" :: script =>
    -- S.<ctx>.<msgid>.<status|err>  or  R.<status>
    match script.mapM (fun (t : String) => match t.splitOn "." with
        | ["S", c, m, "err"] => match c.toNat?, m.toNat? with
          | some c, some m => some (Svc.GetIn.store { kind := 1, msgId := m, sopClass := [] } c .handlingError)
          | _, _ => none
        | ["S", c, m, st] => match c.toNat?, m.toNat?, st.toNat? with
          | some c, some m, some st => some (Svc.GetIn.store { kind := 1, msgId := m, sopClass := [] } c (.status st))
          | _, _, _ => none
        | ["R", st] => st.toNat?.map Svc.GetIn.getRsp
        | _ => none) with
    | some l =>
      let r := Svc.getScu l
      s!"{";".intercalate (r.1.map fun x => s!"{x.ctx}.{x.msgIdRsp}.{x.status}")} | {";".intercalate (r.2.map fun x => toString x.msgId)}"
    | none => "bad-op"
  | ["cf-of", name] =>
    match Spec.commandFieldTable.find? (fun e => e.2 = name) with
    | some e => toString e.1
    | none => "unknown"
  | ["spec-cmd", hex] =>
    match hexToBytes hex with
    | some bs => match Spec.readCmd bs with
      | some v => cmdViewText v
      | none => "malformed"
    | none => "bad-op"
  | "msg-run" :: data0 :: rest =>
    -- msg-run <initial data: none|hex> <elems in insertion order ...> -- <ops ...>
    let elemToks := rest.takeWhile (· ≠ "--")
    let opToks := (rest.dropWhile (· ≠ "--")).drop 1
    match elemToks.mapM parseElem, opToks.mapM parseMsgOp,
          (if data0 = "none" then some none else (hexToBytes data0).map some) with
    | some es, some ops, some d0 =>
      let r := (Msg.run { elems := es, data := d0 } ops).2
      " | ".intercalate (r.map fun s => s!"cmd={bytesToHex s.cmd} data={" ".intercalate (s.dataFrags.map fragText)}")
    | _, _, _ => "bad-op"
  | _ => "bad-op"

partial def loop (h : IO.FS.Stream) (out : IO.FS.Stream) : IO Unit := do
  let line ← h.getLine
  if line.isEmpty then return ()
  out.putStrLn (step line)
  loop h out

def main : IO Unit := do
  let out ← IO.getStdout
  loop (← IO.getStdin) out
  out.flush
