import Dicom.Model.Bytes
import Dicom.Spec.StatusSpec
/-! Line-protocol driver: one op per input line, one output line per op.
Imports models and specifications only (never Generated or Props), core Lean only. -/
open Dicom

def parseKind (s : String) : Option StatusSpec.Kind :=
  match s with
  | "success" => some .success | "pending" => some .pending | "warning" => some .warning
  | "cancel" => some .cancel | "failure" => some .failure | "other" => some .other
  | "badInt" => some .badInt | _ => none

/-- first code in lo..hi for which `k` is not admitted by the spec -/
def statusCheck (cf : Nat) (k : StatusSpec.Kind) (lo : Nat) : Nat → Option Nat
  | 0 => none
  | n + 1 => if (StatusSpec.allowed cf lo).contains k then statusCheck cf k (lo + 1) n else some lo

def step (line : String) : String :=
  match line.trimAscii.toString.splitOn " " with
  | ["ping"] => "pong"
  | ["status-allowed", cf, code] =>
    match cf.toNat?, code.toNat? with
    | some cf, some code => " ".intercalate ((StatusSpec.allowed cf code).map (·.name))
    | _, _ => "bad-op"
  | ["status-check", cf, lo, hi, k] =>
    match cf.toNat?, lo.toNat?, hi.toNat?, parseKind k with
    | some cf, some lo, some hi, some k =>
      match statusCheck cf k lo (hi + 1 - lo) with
      | none => "ok"
      | some c => s!"fail {c} allowed={" ".intercalate ((StatusSpec.allowed cf c).map (·.name))}"
    | _, _, _, _ => "bad-op"
  | _ => "bad-op"

partial def loop (h : IO.FS.Stream) (out : IO.FS.Stream) : IO Unit := do
  let line ← h.getLine
  if line.isEmpty then return ()
  out.putStrLn (step line)
  loop h out

def main : IO Unit := do
  let out ← IO.getStdout
  loop (← IO.getStdin) out
  out.flush
