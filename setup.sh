#!/bin/sh
# Build the framework from files on disk only (offline): regenerate the tables from /repo,
# then build the Lean library, every property's proofs, and the driver executable.
set -e
cd "$(dirname "$0")"
/venv/bin/python -m harness.regen
cd lean
lake build Dicom driver
