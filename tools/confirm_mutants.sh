#!/bin/bash
# Confirm sub-agent mutants independently: patch applies to /repo HEAD, 70 stable tests pass with it,
# demo fails with it and passes without.  Confirmed ones are copied to /verif/seeded/<id>-<variant>/.
# usage: tools/confirm_mutants.sh <dir>/<Cxx-v> ...     (each directory holds patch.diff, demo.py, meta.json)
set -u
WT=/tmp/mw_confirm
git -C /repo worktree remove --force $WT 2>/dev/null
git -C /repo worktree add -q --detach $WT HEAD || exit 2
for src in "$@"; do
  name=$(basename $src); id=${name%-*}; v=${name#*-}
  [ -f $src/patch.diff ] || { echo "$id-$v: no patch"; continue; }
  git -C $WT checkout -q -- . ; git -C $WT clean -fdq
  if ! git -C $WT apply $src/patch.diff 2>/dev/null; then echo "$id-$v: PATCH DOES NOT APPLY to HEAD"; continue; fi
  t=$(cd $WT && /venv/bin/python -m pytest -q -p no:cacheprovider --timeout=900 tests/test_pdu.py tests/test_dimsemessages.py 2>&1 | tail -1)
  REPO=$WT timeout 120 /venv/bin/python $src/demo.py >/tmp/mw_demo_mut.log 2>&1; r1=$?
  git -C $WT checkout -q -- . ; git -C $WT clean -fdq
  REPO=$WT timeout 120 /venv/bin/python $src/demo.py >/tmp/mw_demo_clean.log 2>&1; r0=$?
  ok=no; case "$t" in *"70 passed"*) [ $r1 -ne 0 ] && [ $r0 -eq 0 ] && ok=yes;; esac
  echo "$id-$v: tests=[$t] demo_mut=$r1 demo_clean=$r0 confirmed=$ok"
  if [ $ok = yes ]; then
    d=/verif/seeded/$id-$v; mkdir -p $d; cp $src/patch.diff $src/demo.py $d/
    python3 - "$src/meta.json" "$d/meta.json" "$id" "$v" "$t" "$r1" "$r0" <<'PY'
import json, sys
src, dst, pid, v, t, r1, r0 = sys.argv[1:]
try: m = json.load(open(src))
except Exception: m = {}
out = {'property': pid, 'variant': v, 'summary': m.get('summary'), 'needs_to_manifest': m.get('needs_to_manifest'),
       'files': m.get('files'), 'origin': 'independent sub-agent given only the property text and a scratch worktree',
       'confirmed_by_me': {'base': 'HEAD of /repo at confirmation time', 'stable_tests_with_patch': t,
                           'demo_exit_with_patch': int(r1), 'demo_exit_without_patch': int(r0)}}
json.dump(out, open(dst, 'w'), indent=1)
PY
  fi
done
git -C /repo worktree remove --force $WT
