#!/usr/bin/env python3
"""Render seeded/results.json as the catch matrix of DESIGN.md (between the MATRIX markers)."""
import json, os, re
V = os.path.dirname(os.path.dirname(os.path.abspath(__file__)))
res = json.load(open(os.path.join(V, 'seeded', 'results.json')))
rows = []
def key(m):
    mm = re.match(r'([CDFGHI])(\d+)(.*)', m)
    return (mm.group(1), int(mm.group(2)), mm.group(3))
for m in sorted(res, key=key):
    meta_p = os.path.join(V, 'seeded', m, 'meta.json')
    if not os.path.exists(meta_p):
        continue
    meta = json.load(open(meta_p))
    r = res[m]
    if '_apply' in r:
        rows.append('| %s | %s | (patch does not apply) | |' % (m, meta.get('property', '')))
        continue
    caught, weak, other = [], [], []
    for c in sorted(k for k in r if not k.startswith('_')):
        v = r[c]
        if v['exit'] == 1:
            (weak if v.get('no_failing_input') else caught).append(c)
        elif v['exit'] != 0:
            other.append('%s:%s' % (c, v['exit']))
    what = (meta.get('summary') or meta.get('what') or meta.get('description') or '').replace('|', '/').replace('\n', ' ')
    if len(what) > 150:
        what = what[:147] + '...'
    cell = ' '.join(caught) + ((' (' + ' '.join(weak) + ')') if weak else '') + ((' [' + ' '.join(other) + ']') if other else '')
    rows.append('| %s | %s | %s | %s |' % (m, meta.get('property', ''), what, cell or '**missed**'))
table = '| change | aimed at | what it does | flagged by |\n|---|---|---|---|\n' + '\n'.join(rows)
p = os.path.join(V, 'DESIGN.md')
s = open(p).read()
if 'MATRIX_PLACEHOLDER' in s:
    s = s.replace('MATRIX_PLACEHOLDER', '<!-- MATRIX-BEGIN -->\n<!-- MATRIX-END -->')
s = re.sub(r'<!-- MATRIX-BEGIN -->.*?<!-- MATRIX-END -->', lambda _: '<!-- MATRIX-BEGIN -->\n' + table + '\n<!-- MATRIX-END -->', s, flags=re.S)
open(p, 'w').write(s)
print(len(rows), 'rows')
