#!/usr/bin/env python3
"""Run registered checks against seeded mutants in an isolated copy (never touches /repo or /verif state).

usage: tools/mutants.py [--checks C01,C04] [--jobs N] [mutant ids...]    (default: every dir in seeded/)
Results are merged into seeded/results.json: {mutant: {check: {exit, first}}}.
"""
import argparse
import concurrent.futures as cf
import json
import os
import shutil
import subprocess
import sys

SLOT_BASE = 0
SEEDED = 'seeded'
VERIF = os.path.dirname(os.path.dirname(os.path.abspath(__file__)))


def sh(cmd, **kw):
    return subprocess.run(cmd, shell=True, stdout=subprocess.PIPE, stderr=subprocess.STDOUT, **kw)


def worker(slot, jobs_list, checks):
    slot += SLOT_BASE
    vm, mw = '/tmp/vm%d' % slot, '/tmp/mw%d' % slot
    sh('git -C /repo worktree remove --force %s; rm -rf %s %s' % (mw, vm, mw))
    sh('git -C /repo worktree add -q --detach %s HEAD' % mw)
    sh('rsync -a --exclude .git --exclude replays %s/ %s/' % (VERIF, vm))
    out = {}
    try:
        for mid in jobs_list:
            patch = os.path.join(VERIF, SEEDED, mid, 'patch.diff')
            sh('git -C %s checkout -q -- . && git -C %s clean -fdq' % (mw, mw))
            r = sh('git -C %s apply %s' % (mw, patch))
            if r.returncode != 0:
                out[mid] = {'_apply': 'FAILED: ' + r.stdout.decode()[:200]}
                continue
            res = {}
            for c in checks:
                env = dict(os.environ, REPO=mw)
                try:
                    p = subprocess.run(['./check', c], cwd=vm, env=env, stdout=subprocess.PIPE, stderr=subprocess.STDOUT,
                                       timeout=900)
                    text = p.stdout.decode('utf-8', 'replace')
                    lines = text.split('\n')
                    vi = next((i for i, l in enumerate(lines) if l.startswith('VIOLATION')), None)
                    # the line the check prints before its first VIOLATION line says what failed
                    first = lines[vi - 1].strip() if vi else next((l.strip() for l in lines if l.startswith('  ') and not l.startswith('  File')), '')
                    nf = 'no-failing-input-found' in text
                    res[c] = {'exit': p.returncode, 'first': first[:300], 'no_failing_input': nf}
                except subprocess.TimeoutExpired:
                    res[c] = {'exit': 'timeout', 'first': ''}
            out[mid] = res
            print(mid, {c: v['exit'] for c, v in res.items()}, flush=True)
    finally:
        sh('git -C /repo worktree remove --force %s; rm -rf %s' % (mw, vm))
    return out


def main():
    ap = argparse.ArgumentParser()
    ap.add_argument('--checks')
    ap.add_argument('--jobs', type=int, default=4)
    ap.add_argument('--slot-base', type=int, default=0)
    ap.add_argument('--dir', default='seeded', help='seeded (changes that break a property) or neutral (changes that must not be flagged)')
    ap.add_argument('ids', nargs='*')
    a = ap.parse_args()
    global SLOT_BASE, SEEDED
    SLOT_BASE = a.slot_base
    SEEDED = a.dir
    man = json.load(open(os.path.join(VERIF, 'MANIFEST.json')))
    checks = a.checks.split(',') if a.checks else [c['property_id'] for c in man['checks']]
    ids = a.ids or sorted(d for d in os.listdir(os.path.join(VERIF, SEEDED))
                          if os.path.exists(os.path.join(VERIF, SEEDED, d, 'patch.diff')))
    jobs = max(1, min(a.jobs, len(ids)))
    parts = [ids[i::jobs] for i in range(jobs)]
    results = {}
    with cf.ThreadPoolExecutor(jobs) as ex:
        for r in ex.map(lambda t: worker(t[0], t[1], checks), enumerate(parts)):
            results.update(r)
    path = os.path.join(VERIF, SEEDED, 'results.json')
    old = json.load(open(path)) if os.path.exists(path) else {}
    for m, r in results.items():
        old.setdefault(m, {}).update(r)
    json.dump(old, open(path, 'w'), indent=1, sort_keys=True)


if __name__ == '__main__':
    main()
